//! The final CredSSP round as the server / attacker may play it (catalogue of C01).
//! `final` in the plan: {"kind": ..., parameters}.  Returns the bytes of the whole last TSRequest.
use crate::nlapeer::{der, der_int, le_increment, subject_public_key, ts_request, SecCtx};
use crate::tlspeer::{identity, pem_to_der};
use serde_json::Value;

pub fn kind_of(srv: &Value) -> String {
    srv.get("final").and_then(|f| f.get("kind")).and_then(|k| k.as_str()).unwrap_or("honest").to_string()
}

pub fn is_honest(srv: &Value) -> bool { kind_of(srv) == "honest" }

fn gi(srv: &Value, k: &str, d: i64) -> i64 { srv.get("final").and_then(|f| f.get(k)).and_then(|x| x.as_i64()).unwrap_or(d) }

/// the server's last TSRequest, whole
pub fn final_request(srv: &Value, version: u32, client_pub: &[u8], key: &[u8], s2c: &mut SecCtx, client_token: &[u8]) -> Vec<u8> {
    let honest_plain = le_increment(client_pub, 1);
    let kind = kind_of(srv);
    let wrap_req = |tok: &[u8]| ts_request(version, None, None, Some(tok));
    match kind.as_str() {
        "honest" => { let t = s2c.wrap(&honest_plain); wrap_req(&t) }
        // key + k for k != 1 (correctly sealed)
        "offset" => { let t = s2c.wrap(&le_increment(client_pub, gi(srv, "k", 0))); wrap_req(&t) }
        // numerically honest, one more high-order zero byte
        "padded" => { let mut p = honest_plain.clone(); p.push(0); let t = s2c.wrap(&p); wrap_req(&t) }
        // correctly sealed, but only a prefix of key + 1 (n bytes) / key + 1 followed by non-zero bytes
        "plain_prefix" => { let n = (gi(srv, "n", 0) as usize).min(honest_plain.len()); let t = s2c.wrap(&honest_plain[..n]); wrap_req(&t) }
        "plain_suffix" => { let mut p = honest_plain.clone(); p.extend(vec![0x5a; gi(srv, "n", 1) as usize]); let t = s2c.wrap(&p); wrap_req(&t) }
        // the key of another certificate + 1 (relay / man in the middle terminating TLS with its own certificate)
        "other_cert" => {
            let (pem, _) = identity(srv.get("final").and_then(|f| f.get("other")).and_then(|x| x.as_str()).unwrap_or("leaf2"));
            let other = subject_public_key(&pem_to_der(&pem)).unwrap_or_default();
            let t = s2c.wrap(&le_increment(&other, 1)); wrap_req(&t)
        }
        // sealed under a session key the server cannot know
        "wrong_key" => { let mut k2 = key.to_vec(); k2[0] ^= 0x01; let mut c = SecCtx::new(&k2, false); let t = c.wrap(&honest_plain); wrap_req(&t) }
        // sealed with the client-to-server keys (server uses the wrong direction)
        "wrong_direction" => { let mut c = SecCtx::new(key, true); let t = c.wrap(&honest_plain); wrap_req(&t) }
        "bad_checksum" => { let mut t = s2c.wrap(&honest_plain); t[4 + (gi(srv, "i", 0) as usize % 8)] ^= 0x80; wrap_req(&t) }
        // several bytes of the sealed token altered at once: "xor" = list of [position, mask]; "swap" = [i, j]
        "token_xor" => {
            let mut t = s2c.wrap(&honest_plain);
            let f = srv.get("final").cloned().unwrap_or_default();
            if let Some(a) = f.get("xor").and_then(|x| x.as_array()) {
                for pm in a { let p = pm[0].as_u64().unwrap_or(0) as usize % t.len(); t[p] ^= pm[1].as_u64().unwrap_or(0) as u8; }
            }
            if let Some(a) = f.get("swap").and_then(|x| x.as_array()) {
                let (i, j) = (a[0].as_u64().unwrap_or(0) as usize % t.len(), a[1].as_u64().unwrap_or(0) as usize % t.len());
                t.swap(i, j);
            }
            if let Some(v) = f.get("fill").and_then(|x| x.as_u64()) { for p in 4..12 { t[p] = v as u8; } }
            wrap_req(&t)
        }
        // a server that never knew the password forges key + 1 from the client's own token, betting that the client fell
        // back to session security WITHOUT extended session security (empty signing key, one sealing key for both
        // directions) because the CHALLENGE did not select it: key stream = client ciphertext xor the public key (known),
        // checksum key stream = client's encrypted checksum xor HMAC_MD5("", seq || public key)
        "forge_noess" => {
            let t = client_token;
            if t.len() < 16 + client_pub.len() { return wrap_req(&[]); }
            let c = &t[16..];
            let ks0: Vec<u8> = c.iter().zip(client_pub.iter()).map(|(a, b)| a ^ b).collect();
            let mut seqp = vec![0u8, 0, 0, 0]; seqp.extend_from_slice(client_pub);
            let mac = crate::nlapeer::hmac_md5(&[], &seqp);
            let ks1: Vec<u8> = t[4..12].iter().zip(mac[..8].iter()).map(|(a, b)| a ^ b).collect();
            let p2 = le_increment(client_pub, 1);
            let c2: Vec<u8> = p2.iter().zip(ks0.iter()).map(|(a, b)| a ^ b).collect();
            let mut seqp2 = vec![0u8, 0, 0, 0]; seqp2.extend_from_slice(&p2);
            let mac2 = crate::nlapeer::hmac_md5(&[], &seqp2);
            let mut tok = vec![1u8, 0, 0, 0];
            tok.extend(mac2[..8].iter().zip(ks1.iter()).map(|(a, b)| a ^ b));
            tok.extend_from_slice(&[0, 0, 0, 0]);
            tok.extend(c2);
            wrap_req(&tok)
        }
        "bad_seq" => { let mut t = s2c.wrap(&honest_plain); t[12] ^= 1; wrap_req(&t) }
        "bad_sig_version" => { let mut t = s2c.wrap(&honest_plain); t[0] = 2; wrap_req(&t) }
        "truncated" => { let t = s2c.wrap(&honest_plain); let n = (gi(srv, "n", 0) as usize).min(t.len()); wrap_req(&t[..n]) }
        "extended" => { let mut t = s2c.wrap(&honest_plain); t.extend(vec![0u8; gi(srv, "n", 1) as usize]); wrap_req(&t) }
        // the client's own sealed token echoed back
        "reflect" => wrap_req(client_token),
        // the public key itself, unsealed / the incremented key unsealed
        "plain_key" => wrap_req(client_pub),
        "plain_inc" => wrap_req(&honest_plain),
        "empty" => wrap_req(&[]),
        "absent" => ts_request(version, None, None, None),
        // pubKeyAuth delivered in the authInfo field
        "wrong_field" => { let t = s2c.wrap(&honest_plain); ts_request(version, None, Some(&t), None) }
        // single-bit corruption of the honest TSRequest
        "bitflip" => { let t = s2c.wrap(&honest_plain); let mut r = wrap_req(&t); let i = gi(srv, "i", 0) as usize % (r.len() * 8); r[i / 8] ^= 1 << (i % 8); r }
        // whole request cut short / followed by garbage
        "cut" => { let t = s2c.wrap(&honest_plain); let r = wrap_req(&t); let n = (gi(srv, "n", 0) as usize).min(r.len()); r[..n].to_vec() }
        // definite long-form (non minimal) length on the outer SEQUENCE
        "ber_long" => {
            let t = s2c.wrap(&honest_plain);
            let mut c = der(0xa0, &der_int(version));
            c.extend(der(0xa3, &der(4, &t)));
            let mut v = vec![0x30, 0x83, 0, (c.len() >> 8) as u8, c.len() as u8];
            v.extend(c);
            v
        }
        // C07: Faults.tla descriptors applied to the honest request
        "faulted" => {
            let t = s2c.wrap(&honest_plain);
            let mut r = wrap_req(&t);
            for d in srv.get("final").and_then(|f| f.get("faults")).and_then(|x| x.as_array()).cloned().unwrap_or_default() { r = crate::faults::apply(&r, &d); }
            r
        }
        _ => { let t = s2c.wrap(&honest_plain); wrap_req(&t) }
    }
}
