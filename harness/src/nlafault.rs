//! The final CredSSP round as the server / attacker may play it (catalogue of C01).
use crate::nlapeer::{le_increment, subject_public_key, SecCtx};
use serde_json::Value;

pub fn is_honest(srv: &Value) -> bool {
    srv.get("final").and_then(|f| f.get("kind")).and_then(|k| k.as_str()).map(|k| k == "honest").unwrap_or(true)
}

/// pubKeyAuth of the server's last TSRequest (None = field absent)
pub fn final_reply(srv: &Value, client_pub: &[u8], _cert: &[u8], _key: &[u8], s2c: &mut SecCtx, _client_token: &[u8]) -> Option<Vec<u8>> {
    let _ = subject_public_key;
    let kind = srv.get("final").and_then(|f| f.get("kind")).and_then(|k| k.as_str()).unwrap_or("honest");
    match kind {
        _ => Some(s2c.wrap(&le_increment(client_pub, 1))),
    }
}
