extern crate rdp;
extern crate serde_json;
extern crate rand;
extern crate libc;
extern crate md4;
extern crate md5;
extern crate hmac;
extern crate yasna;

mod outcome;
mod refpeer;
mod script;
mod session;
mod trace;
mod drv_activation;
mod faults;
mod drv_transport;
mod drv_connect;
mod drv_ntlm;
mod drv_codec;
mod drv_setup;
mod drv_model;
mod drv_nlafault;
mod tlspeer;
mod nlapeer;
mod nlafault;

#[global_allocator]
static GLOBAL: outcome::CountingAlloc = outcome::CountingAlloc;

fn arg(args: &[String], key: &str) -> Option<String> {
    args.iter().position(|a| a == key).and_then(|i| args.get(i + 1).cloned())
}

fn main() {
    if std::env::var("VH_BIGALLOC").is_ok() { crate::outcome::DEBUG_BIG.store(true, std::sync::atomic::Ordering::Relaxed); }
    let args: Vec<String> = std::env::args().collect();
    if args.len() < 2 {
        eprintln!("usage: vh <driver> --plans FILE --trace FILE --blobs FILE [--seed N]");
        std::process::exit(2);
    }
    outcome::silence_panics();
    // the test CA is the only trusted root: leaf/leaf2 are trusted, selfsigned/small are not
    std::env::set_var("SSL_CERT_FILE", tlspeer::ca_path());
    std::env::remove_var("SSL_CERT_DIR");
    let seed: u64 = arg(&args, "--seed").and_then(|s| s.parse().ok()).unwrap_or(0);
    let plans = arg(&args, "--plans").unwrap_or_default();
    let trace_path = arg(&args, "--trace").unwrap_or_default();
    let blobs = arg(&args, "--blobs").unwrap_or_default();
    let code = match args[1].as_str() {
        "activation" => if let Some(o) = arg(&args, "--dump-regions") { drv_activation::dump_regions(&o) } else { drv_activation::run(&plans, &trace_path, &blobs, seed) },
        "connect" => drv_connect::run(&plans, &trace_path, &blobs),
        "setup" => drv_setup::run(&args, &plans, &trace_path, &blobs),
        "nlafault" => drv_nlafault::run(&args, &plans, &trace_path, &blobs),
        "model" => drv_model::run(&args),
        "codec" => drv_codec::run(&args),
        "ntlm" => drv_ntlm::run(&plans, &trace_path, &blobs),
        "transport" => drv_transport::run(&args, &plans, &trace_path, &blobs),
        other => { eprintln!("unknown driver {}", other); 2 }
    };
    std::process::exit(code);
}
