//! End-to-end connection driver (C02, C03, C04, C17): the real Connector::connect (or
//! x224::Client::connect) against the in-process reference server over a UnixStream pair, with
//! real TLS.  Phase 1 is threaded (handshakes interleave), phase 2 is single-threaded.
use crate::drv_activation::bitmap_json;
use crate::outcome::{classify, guarded, Outcome};
use crate::refpeer as rp;
use crate::tlspeer::{IoErr, ServerIo};
use crate::trace::Tracer;
use rdp::core::client::{Connector, RdpClient};
use rdp::core::event::{KeyboardEvent, PointerButton, PointerEvent, RdpEvent};
use rdp::core::gcc::KeyboardLayout;
use rdp::core::{tpkt, x224};
use rdp::model::link::{Link, Stream};
use rdp::nla::ntlm::Ntlm;
use serde_json::{json, Value};
use std::convert::TryFrom;
use std::io::{BufRead, BufReader};
use std::os::unix::net::UnixStream;
use std::thread;

pub fn cps_to_string(v: Option<&Value>) -> String {
    v.and_then(|x| x.as_array()).map(|a| a.iter().filter_map(|c| c.as_u64()).filter_map(|c| std::char::from_u32(c as u32)).collect()).unwrap_or_default()
}

fn b4(v: Option<&Value>, default: [u8; 4]) -> [u8; 4] {
    if let Some(a) = v.and_then(|x| x.as_array()) {
        if a.len() == 4 { return [a[0].as_u64().unwrap_or(0) as u8, a[1].as_u64().unwrap_or(0) as u8, a[2].as_u64().unwrap_or(0) as u8, a[3].as_u64().unwrap_or(0) as u8]; }
    }
    default
}

fn gb(v: &Value, k: &str) -> bool { v.get(k).and_then(|x| x.as_bool()).unwrap_or(false) }
fn gu(v: &Value, k: &str, d: u64) -> u64 { v.get(k).and_then(|x| x.as_u64()).unwrap_or(d) }
fn gs<'a>(v: &'a Value, k: &str, d: &'a str) -> &'a str { v.get(k).and_then(|x| x.as_str()).unwrap_or(d) }

fn blocks_of(srv: &Value) -> rp::ScBlocks {
    let mut b = rp::ScBlocks::default();
    if let Some(x) = srv.get("blocks") {
        if let Some(v) = x.get("version").and_then(|v| v.as_array()) { if v.len() == 4 { b.version = u32::from_le_bytes([v[0].as_u64().unwrap() as u8, v[1].as_u64().unwrap() as u8, v[2].as_u64().unwrap() as u8, v[3].as_u64().unwrap() as u8]); } }
        b.core_opt = gu(x, "core_opt", 2) as u8;
        b.with_security = x.get("with_security").and_then(|v| v.as_bool()).unwrap_or(true);
        if let Some(o) = x.get("order").and_then(|v| v.as_array()) { b.order = o.iter().filter_map(|s| s.as_str().map(|s| s.to_string())).collect(); }
        b.max_pdu = gu(x, "max_pdu", 0) as u32;
    }
    b
}

/// phase 1 on the server side; returns the io (with its event log) and whether the connection is up
fn serve_connect(mut io: ServerIo, srv: Value) -> (ServerIo, bool) {
    let reply = srv.get("reply").cloned().unwrap_or(json!({"kind": "rsp", "sel": [1, 0, 0, 0], "flags": 0}));
    if io.recv_tpkt().is_err() { io.drain(300); return (io, false); }
    let kind = gs(&reply, "kind", "rsp").to_string();
    let sel = b4(reply.get("sel"), [1, 0, 0, 0]);
    let flags = gu(&reply, "flags", 0) as u8;
    let ntype = match kind.as_str() { "rsp" => 2u8, "failure" => 3, "req" => 1, "unknown" => gu(&reply, "ntype", 7) as u8, _ => 0 };
    let cc = if kind == "absent" { rp::conn_confirm_bare() } else { rp::conn_confirm(ntype, flags, u32::from_le_bytes(sel)) };
    if io.send(&cc, "ConnConfirm").is_err() { return (io, false); }
    let seln = u32::from_le_bytes(sel);
    let force_tls = gb(&srv, "always_accept_tls");
    let mode = gs(&srv, "mode", "full").to_string();
    if !(kind == "rsp" && (seln == 1 || seln == 2)) && !force_tls {
        if kind == "rsp" && seln == 0 && mode == "full" {
            // plain RDP security selected: a client that (wrongly or rightly) goes on speaks MCS in clear
        } else {
            // the client is expected to give up; whatever it still sends is logged: a TLS ClientHello is
            // answered so that a client that wrongly upgrades can be seen sending credentials
            let rest = peek_then(&mut io);
            if !rest { return (io, false); }
        }
    } else {
        // the spec decides whether the client was allowed to start TLS; the server always answers
        if !peek_then(&mut io) { return (io, false); }
    }
    if let crate::tlspeer::Chan::Raw(_) = io.chan {
        if kind == "rsp" && (seln == 1 || seln == 2) || force_tls {
            let ident = gs(&srv, "ident", "leaf").to_string();
            if !io.tls_accept(&ident) { io.drain(300); return (io, false); }
        }
    }
    if seln == 2 && kind == "rsp" {
        if !crate::nlapeer::serve_credssp(&mut io, &srv) { io.drain(300); return (io, false); }
    }
    if mode == "negox" {
        // x224 API experiments: the layer is up, nothing more is expected from the client
        return (io, false);
    }
    if mode == "nego" {
        // negotiation experiments: log the first message the client sends next, then hang up
        let _ = io.recv_tpkt();
        io.close("abrupt");
        return (io, false);
    }
    let uid = gu(&srv, "uid", 1004) as u16;
    let blocks = blocks_of(&srv);
    // MCS connect initial / response
    if io.recv_tpkt().is_err() { io.drain(300); return (io, false); }
    if io.send(&rp::mcs_connect_response(&blocks), "ConnectResponse").is_err() { return (io, false); }
    // erect domain, attach user
    if io.recv_tpkt().is_err() { io.drain(300); return (io, false); }
    if io.recv_tpkt().is_err() { io.drain(300); return (io, false); }
    if io.send(&rp::attach_confirm(uid), "AttachConfirm").is_err() { return (io, false); }
    for _ in 0..2 {
        let f = match io.recv_tpkt() { Ok(f) => f, Err(_) => { io.drain(300); return (io, false); } };
        if f.len() < 12 { io.drain(300); return (io, false); }
        let chan = u16::from_be_bytes([f[10], f[11]]);
        if io.send(&rp::join_confirm(uid, chan), "JoinConfirm").is_err() { return (io, false); }
    }
    // client info, licence
    if io.recv_tpkt().is_err() { io.drain(300); return (io, false); }
    let pflags = srv.get("licflags").and_then(|x| x.as_u64()).unwrap_or(3) as u8;
    let lic = if gs(&srv, "licence", "valid") == "new" { rp::licence_new_license_f(pflags) } else { rp::licence_valid_client_f(pflags) };
    if io.send(&lic, "Licence").is_err() { return (io, false); }
    (io, true)
}

/// look at what the client does next on the raw socket without consuming a TLS ClientHello:
/// returns true if the caller should go on (TLS hello pending or nothing conclusive), false if the
/// client closed or sent clear-text bytes (logged)
fn peek_then(io: &mut ServerIo) -> bool {
    if let crate::tlspeer::Chan::Raw(s) = &io.chan {
        let mut b = [0u8; 3];
        s.set_read_timeout(Some(std::time::Duration::from_millis(1500))).ok();
        use std::os::unix::io::AsRawFd;
        let r = unsafe { libc::recv(s.as_raw_fd(), b.as_mut_ptr() as *mut libc::c_void, 3, libc::MSG_PEEK) };
        let r: Result<usize, ()> = if r < 0 { Err(()) } else { Ok(r as usize) };
        match r {
            Ok(0) => { io.log(json!({"ev": "c_rest", "chan": "raw", "b": [], "end": "eof"})); false }
            Ok(_) if b[0] == 0x16 => { io.log(json!({"ev": "c_hello", "chan": "raw"})); true }
            Ok(_) => { io.drain(300); false }
            Err(_) => { io.log(json!({"ev": "c_rest", "chan": "raw", "b": [], "end": "timeout"})); false }
        }
    } else { true }
}

fn layout_of(s: &str) -> KeyboardLayout {
    use KeyboardLayout::*;
    match s { "ar" => Arabic, "bg" => Bulgarian, "zh" => ChineseUsKeyboard, "cs" => Czech, "da" => Danish, "de" => German, "el" => Greek, "es" => Spanish, "fi" => Finnish,
              "fr" => French, "he" => Hebrew, "hu" => Hungarian, "is" => Icelandic, "it" => Italian, "ja" => Japanese, "ko" => Korean, "nl" => Dutch, "no" => Norwegian, _ => US }
}

fn emit_server_events(tr: &mut Tracer, io: &mut ServerIo) {
    for mut e in std::mem::replace(&mut io.events, Vec::new()) {
        let ev = e.get("ev").and_then(|x| x.as_str()).unwrap_or("").to_string();
        if let Some(b) = e.get("b").and_then(|x| x.as_array()).cloned() {
            let bytes: Vec<u8> = b.iter().map(|x| x.as_u64().unwrap_or(0) as u8).collect();
            let side = match ev.as_str() { "c_write" => b'c', "s_write" => if e.get("chan").and_then(|x| x.as_str()) == Some("tls") && e.get("label").and_then(|x| x.as_str()).map(|l| l.starts_with("TsReq")).unwrap_or(false) { b'e' } else { b's' }, "c_der" => b'd', _ => b'r' };
            if side != b'r' {
                let id = tr.blob(side, &bytes);
                e.as_object_mut().unwrap().remove("b");
                e.as_object_mut().unwrap().insert("blob".into(), json!(id));
            }
        }
        tr.event(e);
    }
}

/// one builder call of the Connector, by name, with the value found in a configuration record
fn builder_call(c: Connector, cfg: &Value, call: &str) -> Connector {
    let domain = cps_to_string(cfg.get("domain"));
    let user = cps_to_string(cfg.get("user"));
    let password = cps_to_string(cfg.get("password"));
    match call {
        "screen" => c.screen(gu(cfg, "w", 800) as u16, gu(cfg, "h", 600) as u16),
        "credentials" => c.credentials(domain, user, password),
        "admin" => c.set_restricted_admin_mode(gb(cfg, "admin")),
        "auto" => c.auto_logon(gb(cfg, "auto")),
        "blank" => c.blank_creds(gb(cfg, "blank")),
        "check" => c.check_certificate(gb(cfg, "check")),
        "layout" => c.layout(layout_of(gs(cfg, "layout", "us"))),
        "name" => c.name(if cfg.get("name").is_some() { cps_to_string(cfg.get("name")) } else { "rdp-rs".to_string() }),
        "nla" => c.use_nla(gb(cfg, "nla")),
        // password hash: can be set, never unset
        "hash" => if gb(cfg, "hash") { c.set_password_hash(crate::nlapeer::nt_hash(&password)) } else { c },
        _ => c,
    }
}

/// every builder call of the Connector, from a configuration record - or only the calls listed in `only` (a Connector
/// being reconfigured between two connections: the calls not made keep what the first configuration set)
fn configure(mut c: Connector, cfg: &Value, only: Option<&Vec<Value>>) -> Connector {
    if let Some(list) = only {
        for call in list { c = builder_call(c, cfg, call.as_str().unwrap_or("")); }
        return c;
    }
    // the builder methods commute: the configuration must not depend on the order of the calls
    let order: [&str; 10] = if gb(cfg, "auto_first") { ["screen", "auto", "blank", "admin", "credentials", "check", "layout", "name", "nla", "hash"] }
                            else { ["screen", "credentials", "admin", "auto", "blank", "check", "layout", "name", "nla", "hash"] };
    for call in order.iter() { c = builder_call(c, cfg, call); }
    c
}

fn run_plan(plan: &Value, tr: &mut Tracer) {
    let cfg = plan.get("cfg").cloned().unwrap_or(json!({}));
    let mut srv = plan.get("srv").cloned().unwrap_or(json!({}));
    let (csock, ssock) = match UnixStream::pair() { Ok(p) => p, Err(_) => { tr.event(json!({"ev": "harness_error", "what": "socketpair"})); return; } };
    csock.set_read_timeout(Some(std::time::Duration::from_millis(4000))).ok();
    csock.set_write_timeout(Some(std::time::Duration::from_millis(4000))).ok();
    let srv2 = srv.clone();
    let mut server = thread::Builder::new().stack_size(4 << 20).spawn(move || serve_connect(ServerIo::new(ssock), srv2)).unwrap();
    tr.event(json!({"ev": "reset", "run": plan.get("id"), "cfg": cfg, "srv": srv}));
    let api = gs(&cfg, "api", "connector").to_string();
    let domain = cps_to_string(cfg.get("domain"));
    let user = cps_to_string(cfg.get("user"));
    let password = cps_to_string(cfg.get("password"));
    let mut client: Option<RdpClient<UnixStream>> = None;
    let (mut res, mut ek): (String, String);
    let mut alloc_base = crate::outcome::alloc_window_start();
    if api == "x224" {
        // the x224 API takes the authentication context from the caller: with a `then` stage the SAME Ntlm object serves
        // a second handshake (its exported session key must be a new nonce - the validator is told the previous one)
        let mut auth = Ntlm::new(domain.clone(), user.clone(), password.clone());
        let mut stage_cfg = cfg.clone();
        let mut sock = Some(csock);
        let mut stage = 0;
        loop {
            let mask = gu(&stage_cfg, "mask", 3) as u32;
            let s0 = sock.take().unwrap();
            let out = guarded(|| x224::Client::connect(tpkt::Client::new(Link::new(Stream::Raw(s0))), mask, gb(&stage_cfg, "check"), Some(&mut auth), gb(&stage_cfg, "admin"), gb(&stage_cfg, "blank")));
            let mut held = None;
            let ok;
            match out {
                Outcome::Done(Ok(c)) => { res = "ok".to_string(); ek = format!("{:?}", c.get_selected_protocols()); held = Some(c); ok = true; }
                Outcome::Done(Err(e)) => { let r: rdp::model::error::RdpResult<()> = Err(e); let (a, b) = classify(&r); res = a.to_string(); ek = b; ok = false; }
                Outcome::Panic(m) => { res = "panic".to_string(); ek = m; ok = false; }
            }
            // hold the connection until the server has finished its observation, then close
            let (mut io, up) = server.join().unwrap();
            drop(held);
            let prev_key = io.events.iter().rev().find(|e| e.get("ev").and_then(|x| x.as_str()) == Some("nla_keys")).and_then(|e| e.get("exported").cloned());
            // the accounting window closes BEFORE the recorder is touched: its tables grow by doubling and such a step would be
            // booked on the library
            let (peak, maxreq) = crate::outcome::alloc_window_end(alloc_base);
            emit_server_events(tr, &mut io);
            if ok { tr.event(json!({"ev": "ret", "api": "connect", "res": res, "ek": ek, "peak": peak, "maxreq": maxreq})); }
            else { tr.event(json!({"ev": "ret", "api": "connect", "res": res, "ek": ek, "server_up": up, "peak": peak, "maxreq": maxreq})); }
            stage += 1;
            let then = match plan.get("then") { Some(t) if stage == 1 => t.clone(), _ => return };
            let mut cfg2 = then.get("cfg").cloned().unwrap_or(json!({}));
            if let Some(k) = prev_key { cfg2.as_object_mut().unwrap().insert("prev_exported".into(), k); }
            srv = then.get("srv").cloned().unwrap_or(json!({}));
            let (csock2, ssock2) = match UnixStream::pair() { Ok(p) => p, Err(_) => { tr.event(json!({"ev": "harness_error", "what": "socketpair"})); return; } };
            csock2.set_read_timeout(Some(std::time::Duration::from_millis(4000))).ok();
            csock2.set_write_timeout(Some(std::time::Duration::from_millis(4000))).ok();
            let srv3 = srv.clone();
            server = thread::Builder::new().stack_size(4 << 20).spawn(move || serve_connect(ServerIo::new(ssock2), srv3)).unwrap();
            tr.event(json!({"ev": "reset", "run": format!("{}#2", plan.get("id").and_then(|x| x.as_str()).unwrap_or("")), "cfg": cfg2, "srv": srv}));
            alloc_base = crate::outcome::alloc_window_start();
            stage_cfg = cfg2;
            sock = Some(csock2);
        }
    } else {
        let mut c = configure(Connector::new(), &cfg, None);
        let out = guarded(|| c.connect(csock));
        match out {
            Outcome::Done(Ok(cl)) => { res = "ok".to_string(); ek = String::new(); client = Some(cl); }
            Outcome::Done(Err(e)) => { let r: rdp::model::error::RdpResult<()> = Err(e); let (a, b) = classify(&r); res = a.to_string(); ek = b; }
            Outcome::Panic(m) => { res = "panic".to_string(); ek = m; }
        }
        if let Some(then) = plan.get("then") {
            // the SAME Connector serves a second connection after being reconfigured: what it does then depends on its
            // configuration at that moment only - the second connection is recorded as a run of its own
            let (peak, maxreq) = crate::outcome::alloc_window_end(alloc_base);
            let (mut io, up) = server.join().unwrap();
            let prev_key = io.events.iter().rev().find(|e| e.get("ev").and_then(|x| x.as_str()) == Some("nla_keys")).and_then(|e| e.get("exported").cloned());
            emit_server_events(tr, &mut io);
            tr.event(json!({"ev": "ret", "api": "connect", "res": res, "ek": ek, "server_up": up, "peak": peak, "maxreq": maxreq}));
            drop(client.take());
            drop(io);
            let mut cfg2 = then.get("cfg").cloned().unwrap_or(json!({}));
            if let Some(k) = prev_key { cfg2.as_object_mut().unwrap().insert("prev_exported".into(), k); }
            srv = then.get("srv").cloned().unwrap_or(json!({}));
            let (csock2, ssock2) = match UnixStream::pair() { Ok(p) => p, Err(_) => { tr.event(json!({"ev": "harness_error", "what": "socketpair"})); return; } };
            csock2.set_read_timeout(Some(std::time::Duration::from_millis(4000))).ok();
            csock2.set_write_timeout(Some(std::time::Duration::from_millis(4000))).ok();
            let srv3 = srv.clone();
            server = thread::Builder::new().stack_size(4 << 20).spawn(move || serve_connect(ServerIo::new(ssock2), srv3)).unwrap();
            tr.event(json!({"ev": "reset", "run": format!("{}#2", plan.get("id").and_then(|x| x.as_str()).unwrap_or("")), "cfg": cfg2, "srv": srv}));
            alloc_base = crate::outcome::alloc_window_start();
            c = configure(c, &cfg2, then.get("apply").and_then(|x| x.as_array()));
            let out = guarded(|| c.connect(csock2));
            match out {
                Outcome::Done(Ok(cl)) => { res = "ok".to_string(); ek = String::new(); client = Some(cl); }
                Outcome::Done(Err(e)) => { let r: rdp::model::error::RdpResult<()> = Err(e); let (a, b) = classify(&r); res = a.to_string(); ek = b; }
                Outcome::Panic(m) => { res = "panic".to_string(); ek = m; }
            }
        }
    }
    let (peak, maxreq) = crate::outcome::alloc_window_end(alloc_base);
    let (mut io, up) = server.join().unwrap();
    emit_server_events(tr, &mut io);
    tr.event(json!({"ev": "ret", "api": "connect", "res": res, "ek": ek, "server_up": up, "peak": peak, "maxreq": maxreq}));
    let mut client = match client { Some(c) if up => c, _ => { return; } };
    // ---- phase 2: activation, a few inputs, shutdown (single threaded)
    let acts = gu(&srv, "activations", 1);
    let mut rng_share = b4(srv.get("share"), [0xea, 3, 1, 0]);
    for a in 0..acts {
        if a > 0 {
            if !srv_send_read(&mut io, &mut client, tr, &rp::deactivate_all_src(rng_share, &rp::source_descriptor((gu(&srv, "srcv", 0) + a) as u8)), "DeactivateAll", 0) { return; }
            // xrdp / FreeRDP style servers keep one constant share id over all activations of a session
            if !gb(&srv, "same_share") { rng_share[0] = rng_share[0].wrapping_add(1); }
        }
        let capv = gu(&srv, "capv", 0) as u8;
        // the source descriptor is free text: another variant at every activation
        if !srv_send_read(&mut io, &mut client, tr, &rp::demand_active_src(rng_share, &rp::server_caps(capv), &rp::source_descriptor((gu(&srv, "srcv", 0) + a) as u8)), "DemandActive", 5) { return; }
        if !srv_send_read(&mut io, &mut client, tr, &rp::synchronize(rng_share, 1002), "Sync", 0) { return; }
        if !srv_send_read(&mut io, &mut client, tr, &rp::control(rng_share, 4, 0, 0), "Coop", 0) { return; }
        if !srv_send_read(&mut io, &mut client, tr, &rp::control(rng_share, 2, 1004, 1002), "Granted", 0) { return; }
        if gb(&srv, "errinfo") { if !srv_send_read(&mut io, &mut client, tr, &rp::set_error_info(rng_share, 0), "ErrInfo", 0) { return; } }
        if !srv_send_read(&mut io, &mut client, tr, &rp::font_map(rng_share), "FontMap", 0) { return; }
    }
    for i in plan.get("inputs").and_then(|x| x.as_array()).cloned().unwrap_or_default() {
        let down = gb(&i, "down");
        let (ev, desc) = if gs(&i, "dev", "ptr") == "key" {
            let code = gu(&i, "code", 30) as u16;
            (RdpEvent::Key(KeyboardEvent { code, down }), json!({"t": "key", "code": code, "down": down}))
        } else {
            let (x, y, b) = (gu(&i, "x", 1) as u16, gu(&i, "y", 2) as u16, gu(&i, "b", 0) as u8);
            (RdpEvent::Pointer(PointerEvent { x, y, button: PointerButton::try_from(b).unwrap_or(PointerButton::None), down }), json!({"t": "ptr", "x": x, "y": y, "b": b, "down": down}))
        };
        let api = gs(&i, "api", "write").to_string();
        let out = guarded(|| if api == "try_write" { client.try_write(ev) } else { client.write(ev) });
        let (res, ek) = match &out { Outcome::Done(r) => { let (a, b) = classify(r); (a.to_string(), b) }, Outcome::Panic(m) => ("panic".to_string(), m.clone()) };
        let ws: Vec<usize> = io.recv_pending().iter().map(|f| tr.blob(b'c', f)).collect();
        tr.event(json!({"ev": "input", "api": api, "e": desc, "res": res, "ek": ek, "state": client.verif_state(), "w": ws}));
    }
    if gb(plan, "shutdown") {
        let out = guarded(|| client.shutdown());
        let (res, ek) = match &out { Outcome::Done(r) => { let (a, b) = classify(r); (a.to_string(), b) }, Outcome::Panic(m) => ("panic".to_string(), m.clone()) };
        let ws: Vec<usize> = io.recv_pending().iter().map(|f| tr.blob(b'c', f)).collect();
        let rest = io.drain(300);
        io.events.clear();
        tr.event(json!({"ev": "shutdown", "res": res, "ek": ek, "w": ws, "trailing": rest.len()}));
    }
}

/// server sends one frame, the client reads once, the server collects what the client wrote
fn srv_send_read(io: &mut ServerIo, client: &mut RdpClient<UnixStream>, tr: &mut Tracer, frame: &[u8], _label: &str, _expect: usize) -> bool {
    let chan = io.chan_name();
    if io.send(frame, "").is_err() { tr.event(json!({"ev": "harness_error", "what": "server send failed"})); return false; }
    io.events.clear();
    let sb = tr.blob(b's', frame);
    let mut cbs: Vec<Value> = Vec::new();
    let out = guarded(|| client.read(|e| { if let RdpEvent::Bitmap(b) = e { cbs.push(bitmap_json(&b)); } }));
    let (res, ek) = match &out { Outcome::Done(r) => { let (a, b) = classify(r); (a.to_string(), b) }, Outcome::Panic(m) => ("panic".to_string(), m.clone()) };
    let ws: Vec<usize> = io.recv_pending().iter().map(|f| tr.blob(b'c', f)).collect();
    tr.event(json!({"ev": "srv", "sb": sb, "res": res, "ek": ek, "state": client.verif_state(), "w": ws, "cb": cbs, "left": 0, "chan": chan}));
    res == "ok"
}

pub fn run(plans: &str, trace_path: &str, blobs: &str) -> i32 {
    let f = match std::fs::File::open(plans) { Ok(f) => f, Err(e) => { eprintln!("cannot open plans {}: {}", plans, e); return 2; } };
    let mut tr = Tracer::new(trace_path, blobs);
    for line in BufReader::new(f).lines() {
        let line = line.unwrap();
        if line.trim().is_empty() { continue; }
        let p: Value = serde_json::from_str(&line).unwrap();
        run_plan(&p, &mut tr);
    }
    tr.flush();
    0
}
