//! Reference peer: encoders for the server side of the protocol, written from the protocol
//! documents.  Nothing here is trusted for a verdict: every blob it produces is decoded again by
//! the TLA+ grammar (WireServer.tla) during trace validation.
#![allow(dead_code)]

pub fn u16le(v: u16) -> Vec<u8> { v.to_le_bytes().to_vec() }
pub fn u16be(v: u16) -> Vec<u8> { v.to_be_bytes().to_vec() }
pub fn u32le(v: u32) -> Vec<u8> { v.to_le_bytes().to_vec() }

pub fn tpkt(payload: &[u8]) -> Vec<u8> {
    let mut v = vec![3, 0];
    v.extend(u16be((payload.len() + 4) as u16));
    v.extend_from_slice(payload);
    v
}

/// TPKT with an arbitrary declared length (for deframing experiments)
pub fn tpkt_declared(len: u16, payload: &[u8]) -> Vec<u8> {
    let mut v = vec![3, 0];
    v.extend(u16be(len));
    v.extend_from_slice(payload);
    v
}

pub fn x224_data(payload: &[u8]) -> Vec<u8> {
    let mut v = vec![2, 0xf0, 0x80];
    v.extend_from_slice(payload);
    tpkt(&v)
}

/// X.224 connection confirm with an RDP negotiation structure
pub fn conn_confirm(neg_type: u8, flags: u8, result: u32) -> Vec<u8> {
    let mut v = vec![14, 0xd0, 0, 0, 0x12, 0x34, 0];
    v.push(neg_type);
    v.push(flags);
    v.extend(u16le(8));
    v.extend(u32le(result));
    tpkt(&v)
}

/// X.224 connection confirm without negotiation data
pub fn conn_confirm_bare() -> Vec<u8> {
    tpkt(&[6, 0xd0, 0, 0, 0x12, 0x34, 0])
}

pub fn per_len(n: usize) -> Vec<u8> {
    if n > 0x7f { u16be((n as u16) | 0x8000) } else { vec![n as u8] }
}

pub fn ber_len(n: usize) -> Vec<u8> {
    if n < 0x80 { vec![n as u8] } else if n < 0x100 { vec![0x81, n as u8] } else { let mut v = vec![0x82]; v.extend(u16be(n as u16)); v }
}

pub fn ber_tlv(tag: u8, content: &[u8]) -> Vec<u8> {
    let mut v = vec![tag];
    v.extend(ber_len(content.len()));
    v.extend_from_slice(content);
    v
}

pub fn ber_uint(n: u32) -> Vec<u8> {
    let b = n.to_be_bytes();
    let mut i = 0;
    while i < 3 && b[i] == 0 { i += 1; }
    let mut c = Vec::new();
    if b[i] & 0x80 != 0 { c.push(0); }
    c.extend_from_slice(&b[i..]);
    ber_tlv(2, &c)
}

#[derive(Clone, Debug)]
pub struct ScBlocks {
    pub version: u32,
    /// 0: version only, 1: + clientRequestedProtocols, 2: + earlyCapabilityFlags
    pub core_opt: u8,
    pub requested_protocols: u32,
    pub with_security: bool,
    /// order of the blocks: permutation of "core","sec","net" plus optional "unk" entries
    pub order: Vec<String>,
    pub io_channel: u16,
    pub channels: Vec<u16>,
    /// maxMCSPDUsize of the connect response's domain parameters (0 = the usual 0xfff8)
    pub max_pdu: u32,
}

impl Default for ScBlocks {
    fn default() -> Self {
        ScBlocks { version: 0x00080004, core_opt: 2, requested_protocols: 0, with_security: true,
                   order: vec!["core".into(), "sec".into(), "net".into()], io_channel: 1003, channels: vec![], max_pdu: 0 }
    }
}

pub fn sc_block(t: u16, body: &[u8]) -> Vec<u8> {
    let mut v = u16le(t);
    v.extend(u16le((body.len() + 4) as u16));
    v.extend_from_slice(body);
    v
}

pub fn gcc_server_blocks(p: &ScBlocks) -> Vec<u8> {
    let mut out = Vec::new();
    for o in &p.order {
        match o.as_str() {
            "core" => {
                let mut b = u32le(p.version);
                if p.core_opt >= 1 { b.extend(u32le(p.requested_protocols)); }
                if p.core_opt >= 2 { b.extend(u32le(0)); }
                out.extend(sc_block(0x0c01, &b));
            }
            "sec" => {
                if p.with_security {
                    let mut b = u32le(0);
                    b.extend(u32le(0));
                    out.extend(sc_block(0x0c02, &b));
                }
            }
            "net" => {
                let mut b = u16le(p.io_channel);
                b.extend(u16le(p.channels.len() as u16));
                for c in &p.channels { b.extend(u16le(*c)); }
                if p.channels.len() % 2 == 1 { b.extend(u16le(0)); }
                out.extend(sc_block(0x0c03, &b));
            }
            "unk" => { out.extend(sc_block(0x0c08, &[1, 2, 3, 4])); }
            "msgchannel" => { out.extend(sc_block(0x0c04, &u16le(0))); }
            _ => {}
        }
    }
    out
}

/// GCC conference create response wrapping the server data blocks
pub fn gcc_conference_create_response(blocks: &[u8]) -> Vec<u8> {
    let mut tail = vec![0x14, 0x76, 0x0a, 0x01, 0x01, 0x00, 0x01, 0xc0, 0x00, b'M', b'c', b'D', b'n'];
    tail.extend(per_len(blocks.len()));
    tail.extend_from_slice(blocks);
    let mut v = vec![0x00, 0x05, 0x00, 0x14, 0x7c, 0x00, 0x01];
    v.extend(per_len(tail.len()));
    v.extend(tail);
    v
}

pub fn mcs_connect_response_raw(user_data: &[u8]) -> Vec<u8> { mcs_connect_response_raw2(user_data, 0xfff8) }

/// ... with the maxMCSPDUsize the server settles on (the client offers 0x420 ..= 0xffff, target 0xffff)
pub fn mcs_connect_response_raw2(user_data: &[u8], max_pdu: u32) -> Vec<u8> {
    let mut dom = Vec::new();
    for x in [34u32, 3, 0, 1, 0, 1, max_pdu, 2].iter() { dom.extend(ber_uint(*x)); }
    let mut body = Vec::new();
    body.extend(ber_tlv(0x0a, &[0]));
    body.extend(ber_uint(0));
    body.extend(ber_tlv(0x30, &dom));
    body.extend(ber_tlv(0x04, user_data));
    let mut v = vec![0x7f, 0x66];
    v.extend(ber_len(body.len()));
    v.extend(body);
    v
}

pub fn mcs_connect_response(p: &ScBlocks) -> Vec<u8> {
    x224_data(&mcs_connect_response_raw2(&gcc_conference_create_response(&gcc_server_blocks(p)), if p.max_pdu == 0 { 0xfff8 } else { p.max_pdu }))
}

pub fn attach_confirm(uid: u16) -> Vec<u8> {
    let mut v = vec![0x2e, 0x00];
    v.extend(u16be(uid.wrapping_sub(1001)));
    x224_data(&v)
}

pub fn join_confirm(uid: u16, chan: u16) -> Vec<u8> {
    let mut v = vec![0x3e, 0x00];
    v.extend(u16be(uid.wrapping_sub(1001)));
    v.extend(u16be(chan));
    v.extend(u16be(chan));
    x224_data(&v)
}

/// MCS send-data indication carrying `data` on channel `chan`
pub fn sdin(chan: u16, data: &[u8]) -> Vec<u8> {
    let mut v = vec![0x68];
    v.extend(u16be(1));            // initiator: server user 1002
    v.extend(u16be(chan));
    v.push(0x70);
    v.extend(per_len(data.len()));
    v.extend_from_slice(data);
    x224_data(&v)
}

pub fn disconnect_ultimatum() -> Vec<u8> {
    x224_data(&[0x21, 0x80])
}

pub fn licence_valid_client() -> Vec<u8> { licence_valid_client_f(0x03) }

/// licensing error alert STATUS_VALID_CLIENT / ST_NO_TRANSITION with the given preamble flags
/// (low nibble = preamble version 2 or 3, 0x80 = EXTENDED_ERROR_MSG_SUPPORTED)
pub fn licence_valid_client_f(pflags: u8) -> Vec<u8> {
    let mut v = u16le(0x0080);
    v.extend(u16le(0));
    v.extend_from_slice(&[0xff, pflags]);
    v.extend(u16le(16));
    v.extend(u32le(7));
    v.extend(u32le(2));
    v.extend(u16le(4));
    v.extend(u16le(0));
    sdin(1003, &v)
}

pub fn licence_new_license() -> Vec<u8> { licence_new_license_f(0x03) }

pub fn licence_new_license_f(pflags: u8) -> Vec<u8> {
    let blob: Vec<u8> = (0..24u8).collect();
    let mut v = u16le(0x0080);
    v.extend(u16le(0));
    v.extend_from_slice(&[0x03, pflags]);
    v.extend(u16le((4 + 4 + blob.len() + 16) as u16));
    v.extend(u16le(9));                       // BB_ENCRYPTED_DATA_BLOB
    v.extend(u16le(blob.len() as u16));
    v.extend(blob);
    v.extend(vec![0xaa; 16]);                 // MAC
    sdin(1003, &v)
}

pub fn share_control(pdu_type: u16, source: u16, body: &[u8]) -> Vec<u8> {
    let mut v = u16le((body.len() + 6) as u16);
    v.extend(u16le(pdu_type));
    v.extend(u16le(source));
    v.extend_from_slice(body);
    v
}

pub fn share_data(share_id: [u8; 4], t2: u8, payload: &[u8]) -> Vec<u8> {
    let mut b = share_id.to_vec();
    b.push(0);
    b.push(1);
    b.extend(u16le((payload.len() + 18) as u16));
    b.push(t2);
    b.push(0);
    b.extend(u16le(0));
    b.extend_from_slice(payload);
    share_control(0x17, 1002, &b)
}

pub fn cap(t: u16, body: &[u8]) -> Vec<u8> {
    let mut v = u16le(t);
    v.extend(u16le((body.len() + 4) as u16));
    v.extend_from_slice(body);
    v
}

/// a plausible server capability list; `variant` selects order / unknown sets / optional fields
pub fn server_caps(variant: u8) -> Vec<Vec<u8>> {
    let general = cap(1, &[1, 0, 3, 0, 0, 2, 0, 0, 0, 0, 0x1d, 4, 0, 0, 0, 0, 0, 0, 1, 1]);
    let mut bitmap = Vec::new();
    for x in [32u16, 1, 1, 1, 1024, 768, 0, 1, 1].iter() { bitmap.extend(u16le(*x)); }
    bitmap.extend_from_slice(&[0, 0]);
    bitmap.extend(u16le(1));
    bitmap.extend(u16le(0));
    let bitmap = cap(2, &bitmap);
    let vc_long = cap(20, &[0, 0, 0, 0, 0x40, 6, 0, 0]);
    let vc_short = cap(20, &[0, 0, 0, 0]);
    let pointer = cap(8, &[1, 0, 25, 0, 25, 0]);
    let share = cap(9, &[0xea, 3, 0, 0]);
    let font = cap(14, &[1, 0, 0, 0]);
    let input = { let mut b = vec![0x75, 3, 0, 0]; b.extend(vec![0; 80]); cap(13, &b) };
    let unknown = cap(0x1e, &[0, 0, 0, 0]);
    let surface = cap(0x1c, &[0x52, 0, 0, 0, 0, 0, 0, 0]);
    // general capability sets whose extraFlags do not announce fast-path output (the bit matters in the CLIENT's set)
    let general_nofp = cap(1, &[1, 0, 3, 0, 0, 2, 0, 0, 0, 0, 0x1c, 4, 0, 0, 0, 0, 0, 0, 1, 1]);
    let general_zero = cap(1, &[1, 0, 3, 0, 0, 2, 0, 0, 0, 0, 0, 0, 0, 0, 0, 0, 0, 0, 0, 0]);
    let order = { let mut b = vec![0u8; 84]; b[20] = 1; b[22] = 20; cap(3, &b) };
    let bmpcache = cap(4, &vec![0u8; 36]);
    let colorcache = cap(10, &[6, 0, 0, 0]);
    let sound = cap(12, &[1, 0, 0, 0]);
    let glyph = cap(16, &vec![0u8; 48]);
    let brush = cap(15, &[1, 0, 0, 0]);
    let offscreen = cap(17, &[1, 0, 0, 0, 0, 0x1e, 0x64, 0]);
    let multifrag = cap(26, &[0, 0, 1, 0]);
    let large_ptr = cap(27, &[1, 0]);
    match variant % 8 {
        0 => vec![share.clone(), general, vc_long, font, bitmap, pointer, input, surface, unknown],
        1 => vec![general, bitmap, vc_short, pointer],
        2 => vec![unknown, surface, input, pointer, bitmap, general, share],
        3 => vec![general],
        4 => vec![general_nofp, bitmap, vc_short, pointer, input],
        5 => vec![bitmap, pointer, general_zero, share],
        6 => vec![bitmap, pointer],
        // every capability set type the client knows, plus what Windows adds
        _ => vec![share, general, vc_long, font, bitmap, order, bmpcache, colorcache, pointer, input, sound, glyph, brush, offscreen, multifrag, large_ptr, surface, unknown],
    }
}

/// source descriptors a server may put into demand-active / deactivate-all: free text, any length
pub fn source_descriptor(variant: u8) -> Vec<u8> {
    match variant % 7 {
        0 => b"RDP\0".to_vec(),
        1 => Vec::new(),
        2 => { let mut v: Vec<u8> = (0..31).map(|i| b'a' + (i % 26) as u8).collect(); v.extend_from_slice("\u{e9}xyz\0".as_bytes()); v }
        3 => vec![0xff; 40],
        4 => (0..64).map(|i| b'A' + (i % 26) as u8).collect(),
        5 => { let mut v = vec![b'x'; 30]; v.extend_from_slice("\u{20ac}\u{20ac}\0".as_bytes()); v }
        _ => b"MSTSC\0".to_vec(),
    }
}

pub fn demand_active(share_id: [u8; 4], caps: &[Vec<u8>]) -> Vec<u8> { demand_active_src(share_id, caps, b"RDP\0") }

pub fn demand_active_src(share_id: [u8; 4], caps: &[Vec<u8>], src: &[u8]) -> Vec<u8> {
    let capbytes: Vec<u8> = caps.iter().flat_map(|c| c.iter().copied()).collect();
    let mut b = share_id.to_vec();
    b.extend(u16le(src.len() as u16));
    b.extend(u16le((capbytes.len() + 4) as u16));
    b.extend_from_slice(src);
    b.extend(u16le(caps.len() as u16));
    b.extend(u16le(0));
    b.extend(capbytes);
    b.extend(u32le(0));
    sdin(1003, &share_control(0x11, 1002, &b))
}

pub fn deactivate_all(share_id: [u8; 4]) -> Vec<u8> { deactivate_all_src(share_id, &[0]) }

pub fn deactivate_all_src(share_id: [u8; 4], src: &[u8]) -> Vec<u8> {
    let mut b = share_id.to_vec();
    b.extend(u16le(src.len() as u16));
    b.extend_from_slice(src);
    sdin(1003, &share_control(0x16, 1002, &b))
}

pub fn data_pdu(share_id: [u8; 4], t2: u8, payload: &[u8]) -> Vec<u8> {
    sdin(1003, &share_data(share_id, t2, payload))
}

/// slow-path bitmap update (MS-RDPBCGR 2.2.9.1.1.3.1.2): share data PDU of pduType2 UPDATE carrying TS_UPDATE_BITMAP_DATA
pub fn slow_bitmap_update(share_id: [u8; 4], rects: &[Rect]) -> Vec<u8> {
    let mut d = u16le(1);
    d.extend(u16le(rects.len() as u16));
    for r in rects { d.extend(bitmap_rect(r)); }
    data_pdu(share_id, 0x02, &d)
}

pub fn synchronize(share_id: [u8; 4], target: u16) -> Vec<u8> {
    let mut p = u16le(1);
    p.extend(u16le(target));
    data_pdu(share_id, 0x1f, &p)
}

pub fn control(share_id: [u8; 4], action: u16, grant: u16, control_id: u32) -> Vec<u8> {
    let mut p = u16le(action);
    p.extend(u16le(grant));
    p.extend(u32le(control_id));
    data_pdu(share_id, 0x14, &p)
}

pub fn font_map(share_id: [u8; 4]) -> Vec<u8> {
    let mut p = u16le(0);
    p.extend(u16le(0));
    p.extend(u16le(3));
    p.extend(u16le(4));
    data_pdu(share_id, 0x28, &p)
}

pub fn set_error_info(share_id: [u8; 4], code: u32) -> Vec<u8> {
    data_pdu(share_id, 0x2f, &u32le(code))
}

#[derive(Clone, Debug)]
pub struct Rect {
    pub l: u16, pub t: u16, pub r: u16, pub b: u16, pub w: u16, pub h: u16, pub bpp: u16,
    /// bitmap flags: 0x0001 compression, 0x0400 no compression header
    pub flags: u16,
    pub data: Vec<u8>,
}

pub fn bitmap_rect(r: &Rect) -> Vec<u8> {
    let mut v = Vec::new();
    for x in [r.l, r.t, r.r, r.b, r.w, r.h, r.bpp, r.flags].iter() { v.extend(u16le(*x)); }
    let with_hdr = r.flags & 1 != 0 && r.flags & 0x400 == 0;
    if with_hdr {
        v.extend(u16le((r.data.len() + 8) as u16));
        v.extend(u16le(0));                          // cbCompFirstRowSize
        v.extend(u16le(r.data.len() as u16));        // cbCompMainBodySize
        v.extend(u16le(r.w.wrapping_mul(r.bpp / 8))); // cbScanWidth
        v.extend(u16le(r.w.wrapping_mul(r.h).wrapping_mul(r.bpp / 8))); // cbUncompressedSize
    } else {
        v.extend(u16le(r.data.len() as u16));
    }
    v.extend_from_slice(&r.data);
    v
}

#[derive(Clone, Debug)]
pub enum FpUpdate {
    Bitmap(Vec<Rect>),
    /// update code + raw update data (well formed for that code)
    Other(u8, Vec<u8>),
}

pub fn fp_update(u: &FpUpdate) -> Vec<u8> {
    let (code, data) = match u {
        FpUpdate::Bitmap(rects) => {
            let mut d = u16le(1);
            d.extend(u16le(rects.len() as u16));
            for r in rects { d.extend(bitmap_rect(r)); }
            (1u8, d)
        }
        FpUpdate::Other(c, d) => (*c, d.clone()),
    };
    let mut v = vec![code & 0x0f];
    v.extend(u16le(data.len() as u16));
    v.extend(data);
    v
}

/// fast-path output PDU; `long_form` forces the two byte length, `sec` = two security flag bits
pub fn fast_path(updates: &[FpUpdate], long_form: bool, sec: u8) -> Vec<u8> {
    let body: Vec<u8> = updates.iter().flat_map(|u| fp_update(u)).collect();
    fast_path_raw(&body, long_form, sec, 0)
}

pub fn fast_path_raw(body: &[u8], long_form: bool, sec: u8, reserved: u8) -> Vec<u8> {
    let mut v = vec![((sec & 3) << 6) | ((reserved & 0xf) << 2)];
    let total1 = body.len() + 2;
    if !long_form && total1 <= 0x7f {
        v.push(total1 as u8);
    } else {
        let total2 = body.len() + 3;
        v.push(0x80 | ((total2 >> 8) as u8));
        v.push((total2 & 0xff) as u8);
    }
    v.extend_from_slice(body);
    v
}

pub fn color_pointer_update() -> FpUpdate {
    let mut d = u16le(0);
    d.extend(u32le(0));
    d.extend(u16le(1));
    d.extend(u16le(1));
    d.extend(u16le(4));   // lengthAndMask
    d.extend(u16le(4));   // lengthXorMask
    d.extend_from_slice(&[1, 2, 3, 4]);
    d.extend_from_slice(&[5, 6, 7, 8]);
    d.push(0);
    FpUpdate::Other(9, d)
}
