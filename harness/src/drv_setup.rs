//! C05 driver: hostile server bytes while the connection is being established.  The real
//! x224::Client::connect / mcs::Client::connect / sec::connect run over the scripted stream against
//! the reference peer, whose reply at one stage is faulted (descriptors from Faults.tla); plus direct
//! calls of the parser entry points with enumerated short inputs.
use crate::faults;
use crate::outcome::{alloc_window_end, alloc_window_start, classify, guarded, Outcome};
use crate::refpeer as rp;
use crate::script::Script;
use crate::trace::Tracer;
use rdp::core::gcc::KeyboardLayout;
use rdp::core::{mcs, sec, tpkt, x224};
use rdp::model::link::{Link, Stream};
use serde_json::{json, Value};
use std::io::{BufRead, BufReader, Cursor, Write};

/// reference reply of a stage plus the named regions (name, start, rebuild from region bytes)
fn stage_reply(stage: &str, uid: u16, chan: u16) -> Vec<u8> {
    match stage {
        "cc" => rp::conn_confirm(2, 0, 0),
        "cresp" => rp::mcs_connect_response(&rp::ScBlocks::default()),
        "attach" => rp::attach_confirm(uid),
        "join" => rp::join_confirm(uid, chan),
        "licence_new" => rp::licence_new_license(),
        _ => rp::licence_valid_client(),
    }
}

pub fn stage_regions(stage: &str) -> Vec<(String, usize, usize)> {
    // (layer, start, len)
    let f = stage_reply(stage, 1004, 1003);
    let mut v = vec![("frame".to_string(), 0, f.len())];
    if stage == "cresp" {
        let blocks = rp::gcc_server_blocks(&rp::ScBlocks::default());
        let gcc = rp::gcc_conference_create_response(&blocks);
        v.push(("ber".to_string(), 7, f.len() - 7));
        v.push(("gcc".to_string(), f.len() - gcc.len(), gcc.len()));
        v.push(("blocks".to_string(), f.len() - blocks.len(), blocks.len()));
        v.push(("berlen".to_string(), 9, 0));
    } else if stage.starts_with("licence") {
        for (n, s) in faults::regions(&f) { if n == "user" { v.push(("user".to_string(), s, f.len() - s)); v.push(("lic".to_string(), s + 4, f.len() - s - 4)); } }
    } else if stage != "cc" {
        v.push(("mcs".to_string(), 7, f.len() - 7));
    }
    v
}

fn faulted(stage: &str, layer: &str, fs: &[Value], uid: u16, chan: u16) -> (Vec<u8>, Vec<u8>) {
    let orig = stage_reply(stage, uid, chan);
    let regs = stage_regions(stage);
    let (_, start, _) = regs.iter().find(|(n, _, _)| n == layer).cloned().unwrap_or(("frame".to_string(), 0, orig.len()));
    let mut region = orig[start..].to_vec();
    for d in fs { region = faults::apply(&region, d); }
    let bad = match (stage, layer) {
        (_, "frame") => { let mut f = orig[..start].to_vec(); f.extend(&region); f }
        ("cresp", "blocks") => rp::x224_data(&rp::mcs_connect_response_raw(&rp::gcc_conference_create_response(&region))),
        ("cresp", "gcc") => rp::x224_data(&rp::mcs_connect_response_raw(&region)),
        // the length octets of the outer BER element replaced by the region (another length form / another value)
        ("cresp", "berlen") => {
            let raw = orig[7..].to_vec();
            let k = if raw[2] < 0x80 { 1 } else { 1 + (raw[2] & 0x7f) as usize };
            let mut v = raw[..2].to_vec();
            v.extend(&region);
            v.extend(&raw[2 + k..]);
            rp::x224_data(&v)
        }
        (_, "ber") | (_, "mcs") => rp::x224_data(&region),
        (_, "user") => rp::sdin(1003, &region),
        (_, "lic") => { let mut u = orig[start - 4..start].to_vec(); u.extend(&region); rp::sdin(1003, &u) }
        _ => { let mut f = orig[..start].to_vec(); f.extend(&region); f }
    };
    (orig, bad)
}

fn run_plan(p: &Value, tr: &mut Tracer) {
    let stage = p.get("stage").and_then(|x| x.as_str()).unwrap_or("cc").to_string();
    let layer = p.get("layer").and_then(|x| x.as_str()).unwrap_or("frame").to_string();
    let fs: Vec<Value> = p.get("faults").and_then(|x| x.as_array()).cloned().unwrap_or_default();
    let uid = p.get("uid").and_then(|x| x.as_u64()).unwrap_or(1004) as u16;
    let (script, stream) = Script::new();
    // the responder answers each client message; the reply of `stage` (its first occurrence) is the faulted one
    let st2 = stage.clone();
    let layer2 = layer.clone();
    let fs2 = fs.clone();
    let sent: std::rc::Rc<std::cell::RefCell<(Vec<u8>, Vec<u8>)>> = Default::default();
    let sent2 = sent.clone();
    let mut answered = 0usize;
    let mut done = false;
    let mut joins = 0;
    script.set_responder(Some(Box::new(move |writes: &[Vec<u8>]| {
        let mut out = Vec::new();
        while answered < writes.len() {
            let w = &writes[answered];
            answered += 1;
            if w.len() < 8 { continue; }
            let op = w[7];
            let (this, chan) = if w[5] == 0xe0 { ("cc", 0u16) } else if op == 0x7f { ("cresp", 0) } else if op >> 2 == 10 { ("attach", 0) }
                else if op >> 2 == 14 && w.len() >= 12 { joins += 1; ("join", u16::from_be_bytes([w[10], w[11]])) }
                else if op >> 2 == 25 { (if st2 == "licence_new" { "licence_new" } else { "licence" }, 0) } else { continue };
            let is_target = !done && (this == st2) && (this != "join" || joins == 1 || st2 != "join");
            if is_target {
                done = true;
                let (orig, bad) = faulted(this, &layer2, &fs2, uid, chan);
                *sent2.borrow_mut() = (orig, bad.clone());
                out.extend(bad);
            } else {
                out.extend(stage_reply(this, uid, chan));
            }
        }
        out
    })));
    let base = alloc_window_start();
    let out = guarded(|| -> rdp::model::error::RdpResult<&'static str> {
        let link = Link::new(Stream::Raw(stream));
        let x = x224::Client::connect(tpkt::Client::new(link), 0, false, None, false, false)?;
        let mut m = mcs::Client::new(x);
        m.connect("vh".to_string(), 800, 600, KeyboardLayout::US)?;
        sec::connect(&mut m, &"d".to_string(), &"u".to_string(), &"p".to_string(), false)?;
        Ok("connected")
    });
    let (peak, maxreq) = alloc_window_end(base);
    script.set_responder(None);
    let (res, ek) = match &out { Outcome::Done(r) => { let (a, b) = classify(r); (a.to_string(), b) }, Outcome::Panic(m) => ("panic".to_string(), m.clone()) };
    let (orig, bad) = sent.borrow().clone();
    let ob = tr.blob(b's', &orig);
    let total: usize = script.consumed() + script.pending();
    tr.event(json!({"ev": "reset", "run": p.get("id")}));
    tr.event(json!({"ev": "setup", "stage": stage, "layer": layer, "orig": ob, "bad": bad, "res": res, "ek": ek, "peak": peak, "maxreq": maxreq, "sent": total, "reached": !bad.is_empty()}));
}

/// direct parser entries with all byte strings up to length `maxlen`: rule evaluated here (Ok or Err, bounded allocation)
fn run_entries(maxlen: usize, out: &str) -> i32 {
    use rdp::core::{gcc, license, per};
    let mut n = 0u64;
    let mut bad: Vec<Value> = Vec::new();
    let mut kinds: std::collections::HashMap<String, u64> = Default::default();
    let mut data: Vec<u8> = Vec::new();
    loop {
        let entries: Vec<(&str, Box<dyn Fn(&[u8]) -> Result<(), rdp::model::error::Error>>)> = vec![
            ("gcc::read_conference_create_response", Box::new(|d: &[u8]| gcc::read_conference_create_response(&mut Cursor::new(d.to_vec())).map(|_| ()))),
            ("license::client_connect", Box::new(|d: &[u8]| license::client_connect(&mut Cursor::new(d.to_vec())))),
            ("per::read_length", Box::new(|d: &[u8]| per::read_length(&mut Cursor::new(d.to_vec())).map(|_| ()))),
            ("per::read_integer", Box::new(|d: &[u8]| per::read_integer(&mut Cursor::new(d.to_vec())).map(|_| ()))),
            ("per::read_integer_16", Box::new(|d: &[u8]| per::read_integer_16(1001, &mut Cursor::new(d.to_vec())).map(|_| ()))),
            ("per::read_object_identifier", Box::new(|d: &[u8]| per::read_object_identifier(&[0, 0, 20, 124, 0, 1], &mut Cursor::new(d.to_vec())).map(|_| ()))),
            ("per::read_numeric_string", Box::new(|d: &[u8]| per::read_numeric_string(1, &mut Cursor::new(d.to_vec())).map(|_| ()))),
            ("per::read_octet_stream", Box::new(|d: &[u8]| per::read_octet_stream(b"McDn", 4, &mut Cursor::new(d.to_vec())))),
            ("per::read_enumerates", Box::new(|d: &[u8]| per::read_enumerates(&mut Cursor::new(d.to_vec())).map(|_| ()))),
        ];
        for (name, f) in entries.iter() {
            n += 1;
            let base = alloc_window_start();
            let d2 = data.clone();
            let r = guarded(|| f(&d2));
            let (peak, _) = alloc_window_end(base);
            let ok = match &r { Outcome::Done(_) => peak <= 4 * 65536 + 64 * data.len(), Outcome::Panic(_) => false };
            if !ok {
                let ek = match &r { Outcome::Panic(m) => m.clone(), _ => format!("alloc {}", peak) };
                let kind = format!("{}:{}", name, ek.chars().map(|c| if c.is_ascii_digit() { '#' } else { c }).collect::<String>().split('(').next().unwrap_or("").to_string());
                let e = kinds.entry(kind.clone()).or_insert(0);
                *e += 1;
                if *e <= 2 { bad.push(json!({"kind": kind, "entry": name, "data": data, "what": ek})); }
            }
        }
        let mut i = data.len();
        loop {
            if i == 0 { data = vec![0; data.len() + 1]; break; }
            i -= 1;
            if data[i] < 255 { data[i] += 1; for j in i + 1..data.len() { data[j] = 0; } break; }
        }
        if data.len() > maxlen { break; }
    }
    let mut o = std::fs::File::create(out).unwrap();
    writeln!(o, "{}", json!({"evaluations": n, "rule_violations": kinds.values().sum::<u64>(), "kinds": kinds, "offenders": bad})).unwrap();
    0
}

pub fn run(args: &[String], plans: &str, trace_path: &str, blobs: &str) -> i32 {
    let get = |k: &str| args.iter().position(|a| a == k).and_then(|i| args.get(i + 1).cloned());
    if let Some(o) = get("--dump-regions") {
        let mut f = std::fs::File::create(o).unwrap();
        let mut id = 0;
        for st in ["cc", "cresp", "attach", "join", "licence", "licence_new"].iter() {
            for (layer, _start, len) in stage_regions(st) { id += 1; writeln!(f, "{}", json!({"id": id, "stage": st, "layer": layer, "len": len})).unwrap(); }
        }
        return 0;
    }
    if let Some(l) = get("--entries") { return run_entries(l.parse().unwrap_or(1), &get("--out").unwrap_or_default()); }
    let f = match std::fs::File::open(plans) { Ok(f) => f, Err(e) => { eprintln!("cannot open plans {}: {}", plans, e); return 2; } };
    let mut tr = Tracer::new(trace_path, blobs);
    for line in BufReader::new(f).lines() {
        let line = line.unwrap();
        if line.trim().is_empty() { continue; }
        let p: Value = serde_json::from_str(&line).unwrap();
        if let Ok(m) = std::env::var("VH_PROGRESS") { let _ = std::fs::write(&m, p.get("id").and_then(|x| x.as_str()).unwrap_or("?")); }
        run_plan(&p, &mut tr);
    }
    tr.flush();
    0
}
