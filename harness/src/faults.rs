//! Fault application on regions of reference server messages (descriptors come from Faults.tla).
use serde_json::Value;

pub fn apply(region: &[u8], d: &Value) -> Vec<u8> {
    let mut b = region.to_vec();
    let op = d.get("op").and_then(|x| x.as_str()).unwrap_or("");
    let off = d.get("off").and_then(|x| x.as_u64()).unwrap_or(0) as usize;
    let v = d.get("v").and_then(|x| x.as_u64()).unwrap_or(0);
    match op {
        "set8" => { if off < b.len() { b[off] = v as u8; } }
        // relative: the honest value moved by a small amount (lengths and counts that are off by a little)
        "add8" => { if off < b.len() { let dlt = d.get("d").and_then(|x| x.as_i64()).unwrap_or(0); b[off] = ((b[off] as i64 + dlt).rem_euclid(256)) as u8; } }
        "set16le" => { if off + 1 < b.len() { b[off] = v as u8; b[off + 1] = (v >> 8) as u8; } }
        "set16be" => { if off + 1 < b.len() { b[off] = (v >> 8) as u8; b[off + 1] = v as u8; } }
        "set32le" => { if off + 3 < b.len() { if let Some(x) = d.get("b").and_then(|x| x.as_array()) { for k in 0..4 { b[off + k] = x[k].as_u64().unwrap_or(0) as u8; } } } }
        // the length octets of the idx-th TLV of a DER structure (pre-order walk, constructed elements entered) replaced by
        // `bytes`: another length form / another value at any nesting depth
        "derlen" => {
            fn walk(b: &[u8], mut pos: usize, end: usize, out: &mut Vec<(usize, usize)>, depth: usize) {
                while pos + 2 <= end && depth < 16 {
                    let constructed = b[pos] & 0x20 != 0;
                    let lpos = pos + 1;
                    let first = b[lpos] as usize;
                    let (nlen, len) = if first < 0x80 { (1, first) } else {
                        let k = first & 0x7f;
                        if k == 0 || k > 4 || lpos + 1 + k > end { return; }
                        let mut l = 0usize; for i in 0..k { l = (l << 8) | b[lpos + 1 + i] as usize; }
                        (1 + k, l)
                    };
                    out.push((lpos, nlen));
                    let start = lpos + nlen;
                    if start + len > end { return; }
                    if constructed { walk(b, start, start + len, out, depth + 1); }
                    pos = start + len;
                }
            }
            let mut fields = Vec::new();
            walk(&b, 0, b.len(), &mut fields, 0);
            if !fields.is_empty() {
                let idx = d.get("idx").and_then(|x| x.as_u64()).unwrap_or(0) as usize % fields.len();
                let (at, del) = fields[idx];
                let ins: Vec<u8> = d.get("bytes").and_then(|x| x.as_array()).map(|a| a.iter().map(|y| y.as_u64().unwrap_or(0) as u8).collect()).unwrap_or_default();
                b.splice(at..at + del, ins);
            }
        }
        // replace `del` bytes at `at` by `bytes` (re-encoding of a length field in another form)
        "splice" => {
            let at = (d.get("at").and_then(|x| x.as_u64()).unwrap_or(0) as usize).min(b.len());
            let del = (d.get("del").and_then(|x| x.as_u64()).unwrap_or(0) as usize).min(b.len() - at);
            let ins: Vec<u8> = d.get("bytes").and_then(|x| x.as_array()).map(|a| a.iter().map(|y| y.as_u64().unwrap_or(0) as u8).collect()).unwrap_or_default();
            b.splice(at..at + del, ins);
        }
        "trunc" => { let at = d.get("at").and_then(|x| x.as_u64()).unwrap_or(0) as usize; b.truncate(at); }
        "append" => { if let Some(x) = d.get("bytes").and_then(|x| x.as_array()) { for y in x { b.push(y.as_u64().unwrap_or(0) as u8); } } }
        "extend" => { let n = d.get("n").and_then(|x| x.as_u64()).unwrap_or(0) as usize; for i in 1..=n { b.push(((i * 37) % 256) as u8); } }
        _ => {}
    }
    b
}

/// offsets of the nested regions of a server frame: (name, start) with the region running to the end
pub fn regions(frame: &[u8]) -> Vec<(&'static str, usize)> {
    let mut v = vec![("frame", 0usize)];
    if frame.is_empty() { return v; }
    if frame[0] != 3 {
        // fast path: header of 2 or 3 bytes
        let h = if frame.len() > 1 && frame[1] & 0x80 != 0 { 3 } else { 2 };
        if frame.len() >= h { v.push(("fp", h)); }
        return v;
    }
    if frame.len() < 8 { return v; }
    v.push(("x224", 4));
    if frame[5] != 0xf0 { return v; }
    v.push(("mcs", 7));
    if frame[7] >> 2 == 26 && frame.len() > 14 {
        let p = if frame[13] & 0x80 != 0 { 15 } else { 14 };
        v.push(("user", p));                 // MCS user data: share control PDU or security header + licence
        if frame.len() >= p + 6 {
            v.push(("sc", p + 6));           // after the share control header
            let t = u16::from_le_bytes([frame[p + 2], frame[p + 3]]);
            if t == 0x17 && frame.len() >= p + 18 { v.push(("data", p + 18)); }   // after the share data header
        }
    }
    v
}

/// rebuild a frame after the region starting at `start` was replaced: outer length fields are recomputed so that
/// the inner parser is reached (TPKT length, MCS PER length, share control totalLength, uncompressedLength)
pub fn reframe(frame: &[u8], name: &str, start: usize, new_region: &[u8]) -> Vec<u8> {
    let mut f = frame[..start].to_vec();
    f.extend_from_slice(new_region);
    if name == "frame" { return f; }
    if frame[0] != 3 {
        // fast-path length
        let total = f.len();
        if start == 2 && total <= 0x7f { f[1] = total as u8; }
        else if start == 3 { f[1] = 0x80 | ((total >> 8) as u8 & 0x7f); f[2] = total as u8; }
        return f;
    }
    // user data and below: fix the PER length of the send-data indication, then TPKT
    if name == "user" || name == "sc" || name == "data" {
        let two = frame[13] & 0x80 != 0;
        let p = if two { 15 } else { 14 };
        let ulen = f.len() - p;
        if name == "sc" || name == "data" { if f.len() >= p + 2 { f[p] = ulen as u8; f[p + 1] = (ulen >> 8) as u8; } }
        if name == "data" && f.len() >= p + 14 { f[p + 12] = ulen as u8; f[p + 13] = (ulen >> 8) as u8; }
        // keep the width of the PER length field when possible, else rebuild the header
        if two { f[13] = 0x80 | ((ulen >> 8) as u8 & 0x7f); f[14] = ulen as u8; }
        else if ulen <= 0x7f { f[13] = ulen as u8; }
        else {
            let mut g = f[..13].to_vec();
            g.push(0x80 | ((ulen >> 8) as u8 & 0x7f)); g.push(ulen as u8);
            g.extend_from_slice(&f[14..]);
            f = g;
        }
    }
    let total = f.len();
    if total <= 0xffff { f[2] = (total >> 8) as u8; f[3] = total as u8; }
    f
}
