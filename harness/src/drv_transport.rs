//! Driver for the framing layer (C13 read side, C14 write side): Link / tpkt::Client /
//! x224::Client over an adversarial scripted stream (short reads, short writes, write failures).
use crate::outcome::{classify, guarded, Outcome};
use crate::refpeer as rp;
use crate::script::{ReadSched, Script, ScriptStream, WriteSched};
use crate::trace::Tracer;
use rdp::core::{tpkt, x224};
use rdp::model::link::{Link, Stream};
use serde_json::{json, Value};
use std::collections::VecDeque;
use std::io::{BufRead, BufReader, Write};

pub fn pattern(n: usize, salt: usize) -> Vec<u8> {
    (0..n).map(|i| ((i * 7 + salt * 13 + 5) % 251) as u8).collect()
}

fn bytes_of(v: Option<&Value>) -> Vec<u8> {
    v.and_then(|x| x.as_array()).map(|a| a.iter().map(|b| b.as_u64().unwrap_or(0) as u8).collect()).unwrap_or_default()
}

fn rsched_of(p: &Value) -> ReadSched {
    if let Some(c) = p.get("chunks").and_then(|x| x.as_array()) {
        ReadSched::Chunks(c.iter().map(|x| x.as_u64().unwrap_or(1) as usize).collect::<VecDeque<usize>>())
    } else if let Some(c) = p.get("cap").and_then(|x| x.as_u64()) {
        ReadSched::Cap(c as usize)
    } else {
        ReadSched::Greedy
    }
}

fn wsched_of(p: &Value) -> WriteSched {
    if let Some(c) = p.get("caps").and_then(|x| x.as_array()) {
        WriteSched::Caps(c.iter().map(|x| x.as_u64().unwrap_or(1) as usize).collect::<VecDeque<usize>>())
    } else if let Some(c) = p.get("cap").and_then(|x| x.as_u64()) {
        WriteSched::Cap(c as usize)
    } else {
        WriteSched::All
    }
}

enum Layer {
    Link(Link<ScriptStream>),
    Tpkt(tpkt::Client<ScriptStream>),
    X224(x224::Client<ScriptStream>),
}

/// build the requested layer over a fresh script; for x224 the negotiation is played first
fn make_layer(layer: &str) -> Option<(Script, Layer)> {
    let (script, stream) = Script::new();
    let link = Link::new(Stream::Raw(stream));
    match layer {
        "link" => Some((script, Layer::Link(link))),
        "tpkt" => Some((script, Layer::Tpkt(tpkt::Client::new(link)))),
        _ => {
            script.push(&rp::conn_confirm(2, 0, 0));
            let c = guarded(|| x224::Client::connect(tpkt::Client::new(link), 0, false, None, false, false));
            match c {
                Outcome::Done(Ok(c)) => {
                    script.take_writes();
                    script.take_sys();
                    {
                        let mut g = script.0.borrow_mut();
                        g.consumed = 0; g.accepted_total = 0; g.offered.clear();
                    }
                    Some((script, Layer::X224(c)))
                }
                _ => None,
            }
        }
    }
}

struct ReadOut { res: String, ek: String, kind: String, sec: u8, payload: Vec<u8>, consumed: usize, sys: Vec<(usize, usize)> }

fn do_read(script: &Script, l: &mut Layer) -> ReadOut {
    let out = guarded(|| match l {
        Layer::Tpkt(c) => c.read(),
        Layer::X224(c) => c.read(),
        Layer::Link(_) => unreachable!(),
    });
    let consumed = script.consumed();
    let sys = script.take_sys();
    match out {
        Outcome::Done(Ok(tpkt::Payload::Raw(c))) => ReadOut { res: "ok".into(), ek: String::new(), kind: "raw".into(), sec: 0, payload: { let p = c.position() as usize; c.into_inner()[p..].to_vec() }, consumed, sys },
        Outcome::Done(Ok(tpkt::Payload::FastPath(s, c))) => ReadOut { res: "ok".into(), ek: String::new(), kind: "fp".into(), sec: s, payload: { let p = c.position() as usize; c.into_inner()[p..].to_vec() }, consumed, sys },
        Outcome::Done(Err(e)) => { let r: rdp::model::error::RdpResult<()> = Err(e); let (a, b) = classify(&r); ReadOut { res: a.into(), ek: b, kind: "none".into(), sec: 0, payload: vec![], consumed, sys } }
        Outcome::Panic(m) => ReadOut { res: "panic".into(), ek: m, kind: "none".into(), sec: 0, payload: vec![], consumed, sys },
    }
}

fn run_read_plan(p: &Value, tr: &mut Tracer) {
    let layer = p.get("layer").and_then(|x| x.as_str()).unwrap_or("tpkt");
    let stream = bytes_of(p.get("stream"));
    let (script, mut l) = match make_layer(layer) { Some(x) => x, None => { tr.event(json!({"ev": "harness_error", "what": "x224 connect failed"})); return; } };
    script.set_rsched(rsched_of(p));
    script.push(&stream);
    tr.event(json!({"ev": "reset", "run": p.get("id"), "layer": layer, "stream": stream, "sched": format!("cap={} chunks={}", p.get("cap").map(|x| x.to_string()).unwrap_or_default(), p.get("chunks").map(|x| x.to_string()).unwrap_or_default())}));
    let max = p.get("maxreads").and_then(|x| x.as_u64()).unwrap_or(8);
    for _ in 0..max {
        let r = do_read(&script, &mut l);
        // a slow-path frame without the X.224 data header is refused by the X.224 layer, but the framing below stays in
        // step (the frame was consumed whole): the frames that follow must still come out exactly
        let stop = r.res != "ok" && !(layer == "x224" && r.ek == "InvalidConst");
        tr.event(json!({"ev": "read", "res": r.res, "ek": r.ek, "kind": r.kind, "sec": r.sec, "payload": r.payload, "consumed": r.consumed, "sys": r.sys}));
        if stop { break; }
    }
}

struct WriteOut { res: String, ek: String, accepted: Vec<u8>, calls: Vec<(usize, usize)>, failed: bool, zero: bool }

fn do_write(script: &Script, l: &mut Layer, payload: Vec<u8>) -> WriteOut {
    let out = guarded(|| match l {
        Layer::Link(c) => c.write(&payload),
        Layer::Tpkt(c) => c.write(payload.clone()),
        Layer::X224(c) => c.write(payload.clone()),
    });
    let (res, ek) = match &out { Outcome::Done(r) => { let (a, b) = classify(r); (a.to_string(), b) }, Outcome::Panic(m) => ("panic".to_string(), m.clone()) };
    let mut g = script.0.borrow_mut();
    let writes = std::mem::replace(&mut g.writes, Vec::new());
    let offered = std::mem::replace(&mut g.offered, Vec::new());
    let mut calls = Vec::new();
    // offered has one entry per call, writes only for calls that did not fail
    for (i, o) in offered.iter().enumerate() { calls.push((*o, writes.get(i).map(|w| w.len()).unwrap_or(0))); }
    let accepted: Vec<u8> = writes.into_iter().flatten().collect();
    let (failed, zero) = (g.write_failed, g.write_zero);
    g.write_failed = false; g.write_zero = false;
    WriteOut { res, ek, accepted, calls, failed, zero }
}

fn run_write_plan(p: &Value, tr: &mut Tracer) {
    let layer = p.get("layer").and_then(|x| x.as_str()).unwrap_or("tpkt");
    let (script, mut l) = match make_layer(layer) { Some(x) => x, None => { tr.event(json!({"ev": "harness_error", "what": "x224 connect failed"})); return; } };
    tr.event(json!({"ev": "reset", "run": p.get("id"), "layer": layer}));
    for w in p.get("writes").and_then(|x| x.as_array()).cloned().unwrap_or_default() {
        // {"shutdown": true}: the layer's shutdown() is called between two writes (a no-op on a raw stream; whatever is
        // handed over afterwards is still owed its frame or an error - never a silent drop)
        if w.get("shutdown").is_some() {
            let _ = guarded(|| match &mut l { Layer::Link(x) => x.shutdown(), Layer::Tpkt(x) => x.shutdown(), Layer::X224(x) => x.shutdown() });
            continue;
        }
        let payload = if let Some(n) = w.get("len").and_then(|x| x.as_u64()) { pattern(n as usize, w.get("salt").and_then(|x| x.as_u64()).unwrap_or(0) as usize) } else { bytes_of(w.get("payload")) };
        script.set_wsched(wsched_of(&w));
        let base = script.0.borrow().accepted_total;
        script.set_wfail_at(w.get("failat").and_then(|x| x.as_u64()).map(|k| base + k as usize));
        script.set_wfail_kind(w.get("failkind").and_then(|x| x.as_str()).unwrap_or("brokenpipe"));
        let r = do_write(&script, &mut l, payload.clone());
        tr.event(json!({"ev": "write", "payload": payload, "res": r.res, "ek": r.ek, "accepted": r.accepted, "calls": r.calls, "failed": r.failed, "zero": r.zero}));
        // no stop after a failed write: the message handed over NEXT is owed exactly its own frame (or a refusal)
    }
}

/// read table: one line per header row of the TLC table; output compact measurements
fn run_read_table(table: &str, out: &str, layer: &str) -> i32 {
    let f = match std::fs::File::open(table) { Ok(f) => f, Err(_) => return 2 };
    let mut o = std::io::BufWriter::new(std::fs::File::create(out).unwrap());
    let follow = [3u8, 0, 0, 10, 2, 0xf0, 0x80, 0xaa, 0xbb, 0xcc];
    for (k, line) in BufReader::new(f).lines().enumerate() {
        let row: Value = serde_json::from_str(&line.unwrap()).unwrap();
        let hdr = bytes_of(row.get("hdr"));
        let is_frame = row.get("st").and_then(|x| x.as_str()) == Some("frame");
        let plen = row.get("plen").and_then(|x| x.as_u64()).unwrap_or(0) as usize;
        let body = if is_frame { let mut b = pattern(plen, k); if layer == "x224" && hdr[0] == 3 && plen >= 3 { b[0] = 2; b[1] = 0xf0; b[2] = 0x80; } b } else { vec![] };
        let (script, mut l) = match make_layer(layer) { Some(x) => x, None => return 2 };
        script.set_rsched(match k % 4 { 0 => ReadSched::Greedy, 1 => ReadSched::Cap(1), 2 => ReadSched::Cap(3), _ => ReadSched::Cap(1 + k % 1400) });
        let mut stream = hdr.clone();
        stream.extend(&body);
        stream.extend(&follow);
        script.push(&stream);
        let r1 = do_read(&script, &mut l);
        let strip = layer == "x224" && hdr[0] == 3;
        let want: &[u8] = if strip && body.len() >= 3 { &body[3..] } else { &body[..] };
        let content_ok = r1.res == "ok" && r1.payload == want;
        let mut v = json!({"i": k, "res": r1.res, "ek": r1.ek, "kind": r1.kind, "sec": r1.sec, "plen": r1.payload.len(), "consumed": r1.consumed, "content_ok": content_ok});
        if r1.res == "ok" {
            let r2 = do_read(&script, &mut l);
            let want2: &[u8] = if layer == "x224" { &follow[7..] } else { &follow[4..] };
            v["res2"] = json!(r2.res);
            v["consumed2"] = json!(r2.consumed);
            v["follow_ok"] = json!(r2.res == "ok" && r2.kind == "raw" && r2.payload == want2);
        }
        writeln!(o, "{}", v).unwrap();
    }
    0
}

fn run_write_table(table: &str, out: &str, stride: usize, offset: usize) -> i32 {
    let f = match std::fs::File::open(table) { Ok(f) => f, Err(_) => return 2 };
    let mut o = std::io::BufWriter::new(std::fs::File::create(out).unwrap());
    for (k, line) in BufReader::new(f).lines().enumerate() {
        let line = line.unwrap();
        if stride > 1 && k % stride != offset { continue; }
        let row: Value = serde_json::from_str(&line).unwrap();
        let layer = row.get("layer").and_then(|x| x.as_str()).unwrap_or("tpkt").to_string();
        let n = row.get("n").and_then(|x| x.as_u64()).unwrap_or(0) as usize;
        let (script, mut l) = match make_layer(&layer) { Some(x) => x, None => return 2 };
        let sched = k % 5;
        script.set_wsched(match sched { 0 => WriteSched::All, 1 => WriteSched::Cap(1 + k % 7), 2 => WriteSched::Cap(1000), 3 => WriteSched::Caps(vec![1usize, 2, 3, 5, 8, 13, 21].into_iter().collect()), _ => WriteSched::Cap(4096) });
        let payload = pattern(n, k);
        let r = do_write(&script, &mut l, payload.clone());
        let hl = r.accepted.len().saturating_sub(n).min(r.accepted.len());
        let content_ok = r.accepted.len() >= n && r.accepted[r.accepted.len() - n..] == payload[..];
        let v = json!({"i": k, "layer": layer, "n": n, "res": r.res, "ek": r.ek, "alen": r.accepted.len(), "hdr": r.accepted[..hl.min(16)].to_vec(), "content_ok": content_ok, "ncalls": r.calls.len(), "sched": sched});
        writeln!(o, "{}", v).unwrap();
    }
    0
}

pub fn run(args: &[String], plans: &str, trace_path: &str, blobs: &str) -> i32 {
    let get = |k: &str| args.iter().position(|a| a == k).and_then(|i| args.get(i + 1).cloned());
    if let Some(t) = get("--rtable") {
        return run_read_table(&t, &get("--out").unwrap_or_default(), &get("--layer").unwrap_or("tpkt".into()));
    }
    if let Some(t) = get("--wtable") {
        return run_write_table(&t, &get("--out").unwrap_or_default(), get("--stride").and_then(|s| s.parse().ok()).unwrap_or(1), get("--offset").and_then(|s| s.parse().ok()).unwrap_or(0));
    }
    let f = match std::fs::File::open(plans) { Ok(f) => f, Err(e) => { eprintln!("cannot open plans {}: {}", plans, e); return 2; } };
    let mut tr = Tracer::new(trace_path, blobs);
    for line in BufReader::new(f).lines() {
        let line = line.unwrap();
        if line.trim().is_empty() { continue; }
        let p: Value = serde_json::from_str(&line).unwrap();
        if let Ok(m) = std::env::var("VH_PROGRESS") { let _ = std::fs::write(&m, p.get("id").and_then(|x| x.as_str()).unwrap_or("?")); }
        match p.get("mode").and_then(|x| x.as_str()).unwrap_or("read") {
            "write" => run_write_plan(&p, &mut tr),
            _ => run_read_plan(&p, &mut tr),
        }
    }
    tr.flush();
    0
}
