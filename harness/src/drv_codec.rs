//! Codec driver (C08, C09): BitmapEvent::decompress on TLC-generated cases (expected image carried by
//! the case), on exhaustively enumerated short data strings, and on grammar-aware random streams.
use crate::outcome::{alloc_window_end, alloc_window_start, classify, guarded, Outcome};
use rand::rngs::StdRng;
use rand::{Rng, SeedableRng};
use rdp::core::event::BitmapEvent;
use serde_json::{json, Value};
use std::io::{BufRead, BufReader, Write};

pub struct Res { pub res: &'static str, pub ek: String, pub bytes: Vec<u8>, pub peak: usize, pub maxreq: usize }

pub fn decompress(w: u16, h: u16, bpp: u16, comp: bool, data: &[u8]) -> Res {
    let ev = BitmapEvent { dest_left: 0, dest_top: 0, dest_right: w.wrapping_sub(1), dest_bottom: h.wrapping_sub(1), width: w, height: h, bpp, is_compress: comp, data: data.to_vec() };
    let base = alloc_window_start();
    let out = guarded(move || ev.decompress());
    let (peak, maxreq) = alloc_window_end(base);
    match out {
        Outcome::Done(Ok(b)) => Res { res: "ok", ek: String::new(), bytes: b, peak, maxreq },
        Outcome::Done(Err(e)) => { let r: rdp::model::error::RdpResult<()> = Err(e); let (_, k) = classify(&r); Res { res: "err", ek: k, bytes: vec![], peak, maxreq } }
        Outcome::Panic(m) => Res { res: "panic", ek: m, bytes: vec![], peak, maxreq },
    }
}

/// the totality rule of C08 for one outcome
fn rule_ok(r: &Res, w: u16, h: u16, dlen: usize) -> bool {
    let want = w as usize * h as usize * 4;
    let bound = 4 * want + dlen + 4096;
    (r.res == "err" || (r.res == "ok" && r.bytes.len() == want)) && r.peak <= bound
}

fn run_cases(cases: &str, out: &str) -> i32 {
    let f = match std::fs::File::open(cases) { Ok(f) => f, Err(_) => return 2 };
    let mut o = std::io::BufWriter::new(std::fs::File::create(out).unwrap());
    for (k, line) in BufReader::new(f).lines().enumerate() {
        let c: Value = serde_json::from_str(&line.unwrap()).unwrap();
        let g = |n: &str| c.get(n).and_then(|x| x.as_u64()).unwrap_or(0) as u16;
        let data: Vec<u8> = c.get("data").and_then(|x| x.as_array()).map(|a| a.iter().map(|b| b.as_u64().unwrap_or(0) as u8).collect()).unwrap_or_default();
        let r = decompress(g("w"), g("h"), g("bpp"), c.get("comp").and_then(|x| x.as_bool()).unwrap_or(false), &data);
        writeln!(o, "{}", json!({"i": k, "res": r.res, "ek": r.ek, "len": r.bytes.len(), "bytes": r.bytes, "peak": r.peak})).unwrap();
    }
    0
}

struct Agg { n: u64, ok: u64, err: u64, bad: Vec<Value>, nbad: u64, distinct_kinds: std::collections::HashMap<String, u64> }

fn note(a: &mut Agg, w: u16, h: u16, bpp: u16, comp: bool, data: &[u8], r: &Res) {
    a.n += 1;
    if r.res == "ok" { a.ok += 1; } else if r.res == "err" { a.err += 1; }
    if !rule_ok(r, w, h, data.len()) {
        a.nbad += 1;
        let kind = format!("{}:bpp={}:comp={}:{}", r.res, bpp, comp, r.ek.split(|c| c == '(' || c == ':').next().unwrap_or("").trim());
        let e = a.distinct_kinds.entry(kind.clone()).or_insert(0);
        *e += 1;
        if *e <= 3 {
            a.bad.push(json!({"kind": kind, "w": w, "h": h, "bpp": bpp, "comp": comp, "data": data, "res": r.res, "ek": r.ek, "len": r.bytes.len(), "peak": r.peak}));
        }
    }
}

fn run_exhaustive(maxlen: usize, maxdim: u16, out: &str) -> i32 {
    let mut a = Agg { n: 0, ok: 0, err: 0, bad: vec![], nbad: 0, distinct_kinds: Default::default() };
    let depths: [u16; 6] = [16, 32, 8, 15, 24, 33];
    for w in 0..=maxdim { for h in 0..=maxdim { for (di, bpp) in depths.iter().enumerate() { for comp in [false, true].iter() {
        let lim = if di < 2 { maxlen } else { 1.min(maxlen) };
        let mut data: Vec<u8> = Vec::new();
        // all strings of length 0..=lim in odometer order
        loop {
            let r = decompress(w, h, *bpp, *comp, &data);
            note(&mut a, w, h, *bpp, *comp, &data, &r);
            // next string
            let mut i = data.len();
            loop {
                if i == 0 { data = vec![0; data.len() + 1]; break; }
                i -= 1;
                if data[i] < 255 { data[i] += 1; for j in i + 1..data.len() { data[j] = 0; } break; }
            }
            if data.len() > lim { break; }
        }
    } } } }
    let mut o = std::fs::File::create(out).unwrap();
    writeln!(o, "{}", json!({"evaluations": a.n, "ok": a.ok, "err": a.err, "rule_violations": a.nbad, "kinds": a.distinct_kinds, "offenders": a.bad})).unwrap();
    0
}

/// grammar-aware random streams: sequences of plausible orders with run lengths around the line and
/// buffer boundaries, truncated or not; every opcode byte value occurs
fn run_random(n: u64, seed: u64, out: &str) -> i32 {
    let mut rng = StdRng::seed_from_u64(seed);
    let mut a = Agg { n: 0, ok: 0, err: 0, bad: vec![], nbad: 0, distinct_kinds: Default::default() };
    for k in 0..n {
        let w: u16 = [0u16, 1, 2, 3, 7, 8, 9, 16, 31, 64][rng.gen_range(0, 10)];
        let h: u16 = [0u16, 1, 2, 3, 5, 64][rng.gen_range(0, 6)];
        let bpp: u16 = if k % 9 == 0 { [8u16, 15, 24, 33, 0, 65535][rng.gen_range(0, 6)] } else if rng.gen() { 16 } else { 32 };
        let comp: bool = rng.gen_range(0, 4) != 0;
        let total = w as usize * h as usize;
        let mut d: Vec<u8> = Vec::new();
        if bpp == 32 && comp { d.push(if rng.gen_range(0, 8) == 0 { rng.gen() } else { 0x10 }); }
        let norders = rng.gen_range(0, 12);
        for _ in 0..norders {
            if bpp == 32 {
                let room = (w as usize).max(1);
                let craw = rng.gen_range(0, 16).min(room + 1) as u8;
                let nrun = [0u8, 1, 2, 3, 15, (room % 16) as u8, ((room + 1) % 16) as u8][rng.gen_range(0, 7)];
                d.push(craw << 4 | nrun);
                for _ in 0..rng.gen_range(0, craw as usize + 2) { d.push(rng.gen()); }
            } else {
                let first: u8 = if rng.gen_range(0, 3) == 0 { rng.gen() } else { [0x00u8, 0x20, 0x40, 0x60, 0x80, 0xa0, 0xc0, 0xd0, 0xe0, 0xf0, 0xf1, 0xf2, 0xf3, 0xf4, 0xf5, 0xf6, 0xf7, 0xf8, 0xf9, 0xfa, 0xfb, 0xfc, 0xfd, 0xfe, 0xff][rng.gen_range(0, 25)] };
                let left = total.saturating_sub(0);
                let run: usize = [0usize, 1, 2, 7, 8, 9, w as usize, (w as usize).saturating_sub(1), w as usize + 1, left, left + 1, left.saturating_sub(1), 31, 32, 33, 255, 256, 65535][rng.gen_range(0, 18)];
                if first >= 0xf0 { d.push(first); d.push(run as u8); d.push((run >> 8) as u8); }
                else if first >= 0xc0 { d.push(first | ((run & 0xf) as u8)); if run & 0xf == 0 { d.push(run as u8); } }
                else { d.push(first | ((run & 0x1f) as u8)); if run & 0x1f == 0 { d.push(run as u8); } }
                for _ in 0..rng.gen_range(0, 7) { d.push(rng.gen()); }
            }
        }
        if !comp { let want = total * (bpp as usize / 8).max(1); let delta: isize = [0isize, -1, 1, -2, 2, -(want as isize)][rng.gen_range(0, 6)]; d = (0..((want as isize + delta).max(0) as usize).min(70000)).map(|_| rng.gen()).collect(); }
        if rng.gen_range(0, 4) == 0 && !d.is_empty() { let cut = rng.gen_range(0, d.len()); d.truncate(cut); }
        let r = decompress(w, h, bpp, comp, &d);
        note(&mut a, w, h, bpp, comp, &d, &r);
    }
    let mut o = std::fs::File::create(out).unwrap();
    writeln!(o, "{}", json!({"evaluations": a.n, "ok": a.ok, "err": a.err, "rule_violations": a.nbad, "kinds": a.distinct_kinds, "offenders": a.bad})).unwrap();
    0
}

/// direct calls of the two decoders (C08 observes them too) with dimensions a bitmap event can carry but whose
/// image `BitmapEvent::decompress` could not allocate here (both dimensions large): small output buffers, short
/// data.  Totality: a result, never a panic; success only when the buffer holds width x height pixels.
fn run_direct(out: &str) -> i32 {
    let dims: [u32; 12] = [0, 1, 2, 255, 16383, 16384, 16385, 32767, 32768, 46341, 65534, 65535];
    let datas: [&[u8]; 6] = [&[], &[0x10], &[0x10, 0x10, 0x00], &[0x10, 0xf1, 1, 2, 3, 4, 5, 6, 7, 8, 9, 10, 11, 12, 13, 14, 15], &[0x00, 0x00], &[0xf0, 0xff, 0xff, 0x60, 0x1f]];
    let lens: [usize; 5] = [0, 1, 4, 64, 4096];
    let mut bad: Vec<Value> = vec![];
    let (mut n, mut ok, mut err, mut nbad) = (0u64, 0u64, 0u64, 0u64);
    for &w in dims.iter() { for &h in dims.iter() { for d in datas.iter() { for &l in lens.iter() { for which in 0..2 {
        // rle_16_decompress has no guard of its own: BitmapEvent::decompress always hands it width x height x 2 elements,
        // so only such calls are within the property (an undersized buffer there is the caller's fault, not a bitmap event)
        if which == 1 && (l as u64) < (w as u64) * (h as u64) * 2 { continue; }
        let data = d.to_vec();
        let base = alloc_window_start();
        let o = if which == 0 {
            guarded(move || { let mut b = vec![0u8; l]; rdp::codec::rle::rle_32_decompress(&data, w, h, &mut b) })
        } else {
            guarded(move || { let mut b = vec![0u16; l]; rdp::codec::rle::rle_16_decompress(&data, w as usize, h as usize, &mut b) })
        };
        let (peak, _) = alloc_window_end(base);
        n += 1;
        let (res, ek) = match o {
            Outcome::Done(Ok(())) => { ok += 1; ("ok", String::new()) }
            Outcome::Done(Err(e)) => { err += 1; let r: rdp::model::error::RdpResult<()> = Err(e); let (_, k) = classify(&r); ("err", k) }
            Outcome::Panic(m) => ("panic", m),
        };
        let room = (l as u64) >= (w as u64) * (h as u64) * if which == 0 { 4 } else { 1 };
        let fine = res != "panic" && peak <= 4 * l * 2 + d.len() + 4096 && !(which == 0 && res == "ok" && d.len() > 0 && !room);
        if !fine {
            nbad += 1;
            if bad.len() < 6 { bad.push(json!({"fn": if which == 0 { "rle_32_decompress" } else { "rle_16_decompress" }, "w": w, "h": h, "data": d.to_vec(), "outlen": l, "res": res, "ek": ek, "peak": peak})); }
        }
    } } } } }
    let mut o = std::fs::File::create(out).unwrap();
    writeln!(o, "{}", json!({"evaluations": n, "ok": ok, "err": err, "rule_violations": nbad, "offenders": bad})).unwrap();
    0
}

pub fn run(args: &[String]) -> i32 {
    let get = |k: &str| args.iter().position(|a| a == k).and_then(|i| args.get(i + 1).cloned());
    let out = get("--out").unwrap_or_default();
    if args.iter().any(|a| a == "--direct") { return run_direct(&out); }
    if let Some(c) = get("--cases") { return run_cases(&c, &out); }
    if let Some(l) = get("--exhaustive") { return run_exhaustive(l.parse().unwrap_or(1), get("--maxdim").and_then(|s| s.parse().ok()).unwrap_or(3), &out); }
    if let Some(n) = get("--random") { return run_random(n.parse().unwrap_or(1000), get("--seed").and_then(|s| s.parse().ok()).unwrap_or(1), &out); }
    2
}
