//! NTLM driver (C15, C16): the real Ntlm object (password or hash constructor) is taken through
//! negotiate / challenge / authenticate, then its security interface seals and unseals message
//! sequences; a second mode builds NTLMv2SecurityInterface::new directly from a session key.
use crate::nlapeer as np;
use crate::outcome::{classify, guarded, Outcome};
use crate::trace::Tracer;
use rdp::nla::ntlm::{Ntlm, NTLMv2SecurityInterface};
use rdp::nla::rc4::Rc4;
use rdp::nla::sspi::{AuthenticationProtocol, GenericSecurityService};
use serde_json::{json, Value};
use std::io::{BufRead, BufReader};

fn bytes_of(v: Option<&Value>) -> Vec<u8> {
    v.and_then(|x| x.as_array()).map(|a| a.iter().map(|b| b.as_u64().unwrap_or(0) as u8).collect()).unwrap_or_default()
}

/// message bytes without a short period (a period dividing a cipher's block size would hide a misplaced block)
fn msg(n: usize, salt: usize) -> Vec<u8> { (0..n).map(|i| (((i as u64 + 1) * 2654435761u64 + salt as u64 * 40503) >> 9) as u8).collect() }

fn client_iface(exported: &[u8]) -> Box<dyn GenericSecurityService> {
    Box::new(NTLMv2SecurityInterface::new(Rc4::new(&np::seal_key(exported, true)), Rc4::new(&np::seal_key(exported, false)), np::sign_key(exported, true), np::sign_key(exported, false)))
}

fn res_of<T>(o: &Outcome<rdp::model::error::RdpResult<T>>) -> (String, String) {
    match o { Outcome::Done(r) => { let (a, b) = classify(r); (a.to_string(), b) }, Outcome::Panic(m) => ("panic".to_string(), m.clone()) }
}

/// seal / unseal scenario on a security interface; `fresh` rebuilds an equivalent interface (for the
/// tamper experiments, which would desynchronise the cipher stream of the interface under test)
fn exercise(tr: &mut Tracer, p: &Value, iface: &mut Box<dyn GenericSecurityService>, exported: &[u8], rebuild: &dyn Fn() -> Option<Box<dyn GenericSecurityService>>) {
    let mut server_out = np::SecCtx::new(exported, false);   // server -> client
    let mut valid_tokens: Vec<Vec<u8>> = Vec::new();
    let steps = p.get("steps").and_then(|x| x.as_array()).cloned().unwrap_or_default();
    for (k, s) in steps.iter().enumerate() {
        let n = s.get("len").and_then(|x| x.as_u64()).unwrap_or(0) as usize;
        let m = msg(n, k);
        if s.get("dir").and_then(|x| x.as_str()) == Some("c2s") {
            let out = guarded(|| iface.gss_wrapex(&m));
            let (res, ek) = res_of(&out);
            let token = if let Outcome::Done(Ok(t)) = &out { t.clone() } else { vec![] };
            tr.event(json!({"ev": "wrap", "m": m, "res": res, "ek": ek, "token": token}));
        } else {
            let token = server_out.wrap(&m);
            let out = guarded(|| iface.gss_unwrapex(&token));
            let (res, ek) = res_of(&out);
            let plain = if let Outcome::Done(Ok(t)) = &out { t.clone() } else { vec![] };
            tr.event(json!({"ev": "unwrap", "token": token, "res": res, "ek": ek, "plain": plain, "prior": valid_tokens.len(), "fresh": false}));
            // tamper experiments on a rebuilt interface advanced by the valid server messages so far
            let tam = s.get("tamper").and_then(|x| x.as_str()).unwrap_or("none");
            let mut variants: Vec<Vec<u8>> = Vec::new();
            match tam {
                "bits" => { for i in 0..token.len() * 8 { let mut t = token.clone(); t[i / 8] ^= 1 << (i % 8); variants.push(t); } }
                "some" => { for i in (0..token.len() * 8).step_by(13) { let mut t = token.clone(); t[i / 8] ^= 1 << (i % 8); variants.push(t); } }
                _ => {}
            }
            if tam != "none" {
                // alterations whose byte differences cancel under a wrongly accumulating comparison: the same bit in two
                // checksum bytes, two checksum bytes swapped, the same bit in a checksum byte and the sequence number
                for i in 4..12 { for j in (i + 1)..12 { for b in [0u8, 7].iter() { let mut t = token.clone(); t[i] ^= 1 << b; t[j] ^= 1 << b; variants.push(t); } } }
                for i in 4..11 { let mut t = token.clone(); t.swap(i, i + 1); if t != token { variants.push(t); } }
                for i in 4..12 { let mut t = token.clone(); t[i] ^= 1; t[12] ^= 1; variants.push(t); }
                if token.len() > 18 { for i in 4..12 { let mut t = token.clone(); t[i] ^= 0x10; t[16] ^= 0x10; variants.push(t); } }
                for cut in 0..token.len().min(40) { variants.push(token[..cut].to_vec()); }
                if token.len() > 40 { variants.push(token[..token.len() - 1].to_vec()); }
                for ext in [1usize, 2, 16].iter() { let mut t = token.clone(); t.extend(vec![0x5a; *ext]); variants.push(t); }
            }
            for t in variants {
                if let Some(mut f) = rebuild() {
                    // advance the rebuilt interface by the valid messages received so far; if a message sealed by the
                    // conforming peer does not unseal there, that is an observation (validated by TLC), not a harness error
                    let mut ok_replay = true;
                    for (j, vt) in valid_tokens.iter().enumerate() {
                        if f.gss_unwrapex(vt).is_err() {
                            ok_replay = false;
                            tr.event(json!({"ev": "unwrap", "token": vt, "res": "err", "ek": "replay", "plain": [], "prior": j, "fresh": true}));
                            break;
                        }
                    }
                    if !ok_replay { break; }
                    let out = guarded(|| f.gss_unwrapex(&t));
                    let (res, ek) = res_of(&out);
                    let plain = if let Outcome::Done(Ok(x)) = &out { x.clone() } else { vec![] };
                    tr.event(json!({"ev": "unwrap", "token": t, "res": res, "ek": ek, "plain": plain, "prior": valid_tokens.len(), "fresh": true}));
                    // the refused token presented once more to the same context
                    if res == "err" && (t.len() < 16 || t[..16] != token[..16]) {
                        let out2 = guarded(|| f.gss_unwrapex(&t));
                        let (res2, ek2) = res_of(&out2);
                        tr.event(json!({"ev": "unwrap_again", "token": t, "res": res2, "ek": ek2}));
                    }
                }
            }
            valid_tokens.push(token);
        }
    }
}

fn run_plan(p: &Value, tr: &mut Tracer) {
    tr.event(json!({"ev": "reset", "run": p.get("id")}));
    if let Some(k) = p.get("exported") {
        // mirrored-keys object built directly from a session key
        let exported = bytes_of(Some(k));
        tr.event(json!({"ev": "ctx", "exported": exported}));
        let mut iface = client_iface(&exported);
        let e2 = exported.clone();
        exercise(tr, p, &mut iface, &exported, &move || Some(client_iface(&e2)));
        return;
    }
    let domain = crate::drv_connect::cps_to_string(p.get("domain"));
    let user = crate::drv_connect::cps_to_string(p.get("user"));
    let password = crate::drv_connect::cps_to_string(p.get("password"));
    let mode = p.get("mode").and_then(|x| x.as_str()).unwrap_or("password").to_string();
    let mk = || if mode == "hash" { Ntlm::from_hash(domain.clone(), user.clone(), &np::nt_hash(&password)) } else { Ntlm::new(domain.clone(), user.clone(), password.clone()) };
    let mut ntlm = mk();
    // the same Ntlm object may serve several handshakes (the API takes &mut): with "reuse" a first complete handshake
    // (another server challenge) is played and thrown away before the one that is validated
    if p.get("reuse").and_then(|x| x.as_bool()).unwrap_or(false) {
        let _ = guarded(|| ntlm.create_negotiate_message());
        let spec0 = np::ChallengeSpec { flags: p.get("reuse_flags").and_then(|x| x.as_u64()).map(|x| x as u32).unwrap_or(np::FLAGS_DEFAULT), challenge: [9, 8, 7, 6, 5, 4, 3, 2], target_name: vec![], target_info: { let mut t = np::av_pair(7, &[1, 2, 3, 4, 5, 6, 7, 8]); t.extend(np::av_pair(0, &[])); t } };
        let _ = guarded(|| ntlm.read_challenge_message(&np::challenge_message(&spec0)));
        let _ = guarded(|| ntlm.build_security_interface());
    }
    let neg = match guarded(|| ntlm.create_negotiate_message()) { Outcome::Done(Ok(n)) => n, _ => { tr.event(json!({"ev": "harness_error", "what": "negotiate failed"})); return; } };
    let ti = if let Some(raw) = p.get("ti_raw") { bytes_of(Some(raw)) } else {
        let mut t = Vec::new();
        for pair in p.get("ti").and_then(|x| x.as_array()).cloned().unwrap_or_default() {
            t.extend(np::av_pair(pair[0].as_u64().unwrap_or(0) as u16, &bytes_of(pair.get(1))));
        }
        t.extend(np::av_pair(0, &[]));
        t
    };
    let sc = bytes_of(p.get("sc"));
    let mut scarr = [0u8; 8];
    for i in 0..8.min(sc.len()) { scarr[i] = sc[i]; }
    let spec = np::ChallengeSpec { flags: p.get("flags").and_then(|x| x.as_u64()).unwrap_or(np::FLAGS_DEFAULT as u64) as u32, challenge: scarr, target_name: bytes_of(p.get("tname")), target_info: ti };
    let chal = np::challenge_message(&spec);
    let out = guarded(|| ntlm.read_challenge_message(&chal));
    let (res, ek) = res_of(&out);
    let auth = if let Outcome::Done(Ok(a)) = &out { a.clone() } else { vec![] };
    tr.event(json!({"ev": "auth", "mode": mode, "domain": p.get("domain"), "user": p.get("user"), "password": p.get("password"),
                    "neg": neg, "chal": chal, "res": res, "ek": ek, "auth": auth}));
    if res != "ok" { return; }
    if p.get("steps").is_none() { return; }
    // the session key as the SERVER derives it from the token (independent of the client's memory)
    let acc = np::Account { domain: domain.clone(), user: user.clone(), password: password.clone() };
    let exported = match np::parse_authenticate(&auth).and_then(|a| np::exported_key(&acc, &a)) { Some(k) => k, None => { tr.event(json!({"ev": "wrap", "m": [], "res": "no-session-key", "ek": "the reference server cannot derive the session key from the token", "token": []})); return; } };
    let mut iface = ntlm.build_security_interface();
    // a rebuilt interface with the same keys: the driver replays the handshake is impossible (fresh nonces), so the
    // equivalent object is built from the derived key
    let e2 = exported.clone();
    exercise(tr, p, &mut iface, &exported, &move || Some(client_iface(&e2)));
}

pub fn run(plans: &str, trace_path: &str, blobs: &str) -> i32 {
    let f = match std::fs::File::open(plans) { Ok(f) => f, Err(e) => { eprintln!("cannot open plans {}: {}", plans, e); return 2; } };
    let mut tr = Tracer::new(trace_path, blobs);
    for line in BufReader::new(f).lines() {
        let line = line.unwrap();
        if line.trim().is_empty() { continue; }
        let p: Value = serde_json::from_str(&line).unwrap();
        run_plan(&p, &mut tr);
    }
    tr.flush();
    0
}
