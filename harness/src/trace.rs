//! ndjson trace writer with a de-duplicated blob table.
use serde_json::{json, Value};
use std::collections::HashMap;
use std::fs::File;
use std::io::{BufWriter, Write};

pub struct Tracer {
    out: BufWriter<File>,
    blobs_out: BufWriter<File>,
    index: HashMap<(u8, Vec<u8>), usize>,
    pub events: usize,
    /// distinct frames the client has written so far (reflection attacks replay them to the client)
    pub client_frames: Vec<Vec<u8>>,
}

impl Tracer {
    pub fn new(trace_path: &str, blobs_path: &str) -> Tracer {
        Tracer {
            out: BufWriter::new(File::create(trace_path).expect("trace file")),
            blobs_out: BufWriter::new(File::create(blobs_path).expect("blob file")),
            index: HashMap::new(),
            events: 0,
            client_frames: Vec::new(),
        }
    }
    /// side: b'c' client frame, b's' server frame; returns the 1-based blob id
    pub fn blob(&mut self, side: u8, bytes: &[u8]) -> usize {
        if let Some(id) = self.index.get(&(side, bytes.to_vec())) {
            return *id;
        }
        let id = self.index.len() + 1;
        self.index.insert((side, bytes.to_vec()), id);
        if side == b'c' { self.client_frames.push(bytes.to_vec()); }
        let v = json!({"id": id, "side": (side as char).to_string(), "b": bytes});
        writeln!(self.blobs_out, "{}", v).unwrap();
        id
    }
    pub fn event(&mut self, v: Value) {
        self.events += 1;
        writeln!(self.out, "{}", v).unwrap();
    }
    pub fn flush(&mut self) {
        self.out.flush().unwrap();
        self.blobs_out.flush().unwrap();
    }
}
