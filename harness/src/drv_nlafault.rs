//! C07 driver: hostile CredSSP / NTLM input at the parser entries of the NLA code
//! (Ntlm::read_challenge_message, cssp::read_ts_server_challenge, cssp::read_ts_validate,
//! gss_unwrapex).  Faults are Faults.tla descriptors applied to reference messages of the
//! independent NTLM server, plus structured variants (AV pair ids, missing timestamp / EOL, empty
//! token list, offset / length boundaries).
use crate::faults;
use crate::nlapeer as np;
use crate::outcome::{alloc_window_end, alloc_window_start, classify, guarded, Outcome};
use crate::trace::Tracer;
use rdp::nla::cssp;
use rdp::nla::ntlm::{Ntlm, NTLMv2SecurityInterface};
use rdp::nla::rc4::Rc4;
use rdp::nla::sspi::{AuthenticationProtocol, GenericSecurityService};
use serde_json::{json, Value};
use std::io::{BufRead, BufReader, Write};

fn ts() -> [u8; 8] { [0x80, 0x3e, 0xd5, 0xde, 0xb1, 0x9d, 0x01, 0x01] }

pub fn ref_challenge() -> Vec<u8> {
    np::challenge_message(&np::ChallengeSpec { flags: np::FLAGS_DEFAULT, challenge: [1, 2, 3, 4, 5, 6, 7, 8], target_name: np::utf16le("RDPSRV"), target_info: np::default_target_info(ts()) })
}

fn ref_sealed() -> Vec<u8> {
    let mut c = np::SecCtx::new(&[7u8; 16], false);
    c.wrap(&(0..40u8).collect::<Vec<u8>>())
}

/// (entry, layer) -> reference bytes and the region start
fn reference(entry: &str, layer: &str) -> (Vec<u8>, usize) {
    match (entry, layer) {
        ("challenge", _) => (ref_challenge(), 0),
        ("ts_challenge", "token") => { let t = np::ts_request(2, Some(&ref_challenge()), None, None); let n = ref_challenge().len(); let l = t.len(); (t, l - n) }
        ("ts_challenge", _) => (np::ts_request(2, Some(&ref_challenge()), None, None), 0),
        ("ts_validate", "token") => { let s = ref_sealed(); let t = np::ts_request(2, None, None, Some(&s)); let l = t.len(); (t, l - s.len()) }
        ("ts_validate", _) => (np::ts_request(2, None, None, Some(&ref_sealed())), 0),
        _ => (ref_sealed(), 0),
    }
}

fn build(entry: &str, layer: &str, fs: &[Value]) -> Vec<u8> {
    let (orig, start) = reference(entry, layer);
    let mut region = orig[start..].to_vec();
    for d in fs { region = faults::apply(&region, d); }
    if layer == "token" {
        // re-encode the DER envelope around the faulted token
        match entry { "ts_challenge" => np::ts_request(2, Some(&region), None, None), _ => np::ts_request(2, None, None, Some(&region)) }
    } else { let mut f = orig[..start].to_vec(); f.extend(region); f }
}

fn variant_challenge(v: &Value) -> Vec<u8> {
    // structured CHALLENGE variants
    let mut ti = Vec::new();
    for p in v.get("ti").and_then(|x| x.as_array()).cloned().unwrap_or_default() {
        let id = p[0].as_u64().unwrap_or(0) as u16;
        let n = p[1].as_u64().unwrap_or(0) as usize;
        ti.extend(np::av_pair(id, &vec![0x41; n]));
    }
    if !v.get("no_eol").and_then(|x| x.as_bool()).unwrap_or(false) { ti.extend(np::av_pair(0, &[])); }
    let flags = v.get("flags").and_then(|x| x.as_u64()).unwrap_or(np::FLAGS_DEFAULT as u64) as u32;
    let mut m = np::challenge_message(&np::ChallengeSpec { flags, challenge: [9; 8], target_name: vec![0x52, 0, 0x44, 0], target_info: ti });
    // raw overrides of the (len, maxlen, offset) triples: [field offset in token, value(16 or 32 bit le)]
    for o in v.get("poke16").and_then(|x| x.as_array()).cloned().unwrap_or_default() { let at = o[0].as_u64().unwrap() as usize; let val = o[1].as_u64().unwrap() as u16; if at + 1 < m.len() { m[at] = val as u8; m[at + 1] = (val >> 8) as u8; } }
    for o in v.get("poke32").and_then(|x| x.as_array()).cloned().unwrap_or_default() { let at = o[0].as_u64().unwrap() as usize; let val = o[1].as_u64().unwrap() as u32; if at + 3 < m.len() { m[at..at + 4].copy_from_slice(&val.to_le_bytes()); } }
    m
}

fn run_plan(p: &Value, tr: &mut Tracer) {
    let entry = p.get("entry").and_then(|x| x.as_str()).unwrap_or("challenge").to_string();
    let layer = p.get("layer").and_then(|x| x.as_str()).unwrap_or("all").to_string();
    let fs: Vec<Value> = p.get("faults").and_then(|x| x.as_array()).cloned().unwrap_or_default();
    let bad = if let Some(v) = p.get("variant") {
        if entry == "ts_challenge" {
            match v.get("ts").and_then(|x| x.as_str()).unwrap_or("") {
                "empty_tokens" => np::der(0x30, &[np::der(0xa0, &np::der_int(2)), np::der(0xa1, &np::der(0x30, &[]))].concat()),
                "no_tokens" => np::der(0x30, &np::der(0xa0, &np::der_int(2))),
                "two_tokens" => { let t = np::der(0x30, &np::der(0xa0, &np::der(4, &ref_challenge()))); np::der(0x30, &[np::der(0xa0, &np::der_int(2)), np::der(0xa1, &np::der(0x30, &[t.clone(), t].concat()))].concat()) }
                "token_not_octets" => np::der(0x30, &[np::der(0xa0, &np::der_int(2)), np::der(0xa1, &np::der(0x30, &np::der(0x30, &np::der(0xa0, &np::der_int(5)))))].concat()),
                "big_version" => np::der(0x30, &[np::der(0xa0, &np::der(2, &[0x7f, 0xff, 0xff, 0xff, 0xff])), np::der(0xa1, &np::der(0x30, &np::der(0x30, &np::der(0xa0, &np::der(4, &ref_challenge())))))].concat()),
                _ => np::ts_request(2, Some(&variant_challenge(v)), None, None),
            }
        } else { variant_challenge(v) }
    } else if let Some(r) = p.get("raw").and_then(|x| x.as_array()) { r.iter().map(|b| b.as_u64().unwrap_or(0) as u8).collect() } else { build(&entry, &layer, &fs) };
    let base = alloc_window_start();
    let b2 = bad.clone();
    let out = guarded(move || -> rdp::model::error::RdpResult<usize> {
        match entry.as_str() {
            "challenge" => { let mut n = Ntlm::new("dom".to_string(), "user".to_string(), "pwd".to_string()); n.create_negotiate_message()?; Ok(n.read_challenge_message(&b2)?.len()) }
            "ts_challenge" => { let tok = cssp::read_ts_server_challenge(&b2)?; let mut n = Ntlm::new("dom".to_string(), "user".to_string(), "pwd".to_string()); n.create_negotiate_message()?; Ok(n.read_challenge_message(&tok)?.len()) }
            "ts_validate" => Ok(cssp::read_ts_validate(&b2)?.len()),
            _ => { let mut i = NTLMv2SecurityInterface::new(Rc4::new(&np::seal_key(&[7u8; 16], true)), Rc4::new(&np::seal_key(&[7u8; 16], false)), np::sign_key(&[7u8; 16], true), np::sign_key(&[7u8; 16], false)); Ok(i.gss_unwrapex(&b2)?.len()) }
        }
    });
    let (peak, maxreq) = alloc_window_end(base);
    let (res, ek) = match &out { Outcome::Done(r) => { let (a, b) = classify(r); (a.to_string(), b) }, Outcome::Panic(m) => ("panic".to_string(), m.clone()) };
    tr.event(json!({"ev": "reset", "run": p.get("id")}));
    tr.event(json!({"ev": "nla", "entry": p.get("entry"), "layer": layer, "bad": bad, "res": res, "ek": ek, "peak": peak, "maxreq": maxreq, "sent": bad.len()}));
}

pub fn run(args: &[String], plans: &str, trace_path: &str, blobs: &str) -> i32 {
    let get = |k: &str| args.iter().position(|a| a == k).and_then(|i| args.get(i + 1).cloned());
    if let Some(o) = get("--dump-regions") {
        let mut f = std::fs::File::create(o).unwrap();
        let mut id = 0;
        for (e, l) in [("challenge", "all"), ("ts_challenge", "all"), ("ts_challenge", "token"), ("ts_validate", "all"), ("ts_validate", "token"), ("unwrap", "all")].iter() {
            let (b, s) = reference(e, l);
            id += 1;
            // the catalogue of "all" regions that merely wrap a token is limited to the DER envelope
            let len = if *l == "all" && *e != "challenge" && *e != "unwrap" { reference(e, "token").1 + 4 } else { b.len() - s };
            writeln!(f, "{}", json!({"id": id, "entry": e, "layer": l, "len": len, "full_len": b.len() - s})).unwrap();
        }
        return 0;
    }
    let f = match std::fs::File::open(plans) { Ok(f) => f, Err(e) => { eprintln!("cannot open plans {}: {}", plans, e); return 2; } };
    let mut tr = Tracer::new(trace_path, blobs);
    for line in BufReader::new(f).lines() {
        let line = line.unwrap();
        if line.trim().is_empty() { continue; }
        let p: Value = serde_json::from_str(&line).unwrap();
        if let Ok(m) = std::env::var("VH_PROGRESS") { let _ = std::fs::write(&m, p.get("id").and_then(|x| x.as_str()).unwrap_or("?")); }
        run_plan(&p, &mut tr);
    }
    tr.flush();
    0
}
