//! In-process TLS peer: the server end of a UnixStream pair, with test identities committed under
//! harness/certs.  Phase 1 (negotiation, TLS handshake, CredSSP, MCS connect) runs in a server
//! thread while the client under test connects; the ServerIo is then handed back so that phase 2
//! (activation, input, shutdown) runs single-threaded and deterministic.
#![allow(dead_code)]
use native_tls::{Identity, TlsAcceptor, TlsStream};
use serde_json::{json, Value};
use std::io::{Read, Write};
use std::os::unix::net::UnixStream;
use std::time::Duration;

pub const CA_PEM: &[u8] = include_bytes!("../certs/ca.pem");

pub fn identity(name: &str) -> (Vec<u8>, Vec<u8>) {
    match name {
        "leaf2" => (include_bytes!("../certs/leaf2.pem").to_vec(), include_bytes!("../certs/leaf2.pk8.pem").to_vec()),
        "selfsigned" => (include_bytes!("../certs/selfsigned.pem").to_vec(), include_bytes!("../certs/selfsigned.pk8.pem").to_vec()),
        "small" => (include_bytes!("../certs/small.pem").to_vec(), include_bytes!("../certs/small.pk8.pem").to_vec()),
        // Ed25519 leaves of the test CA whose raw public key begins with 0xff / 0xfe: "public key + 1" has to carry
        "edff" => (include_bytes!("../certs/edff.pem").to_vec(), include_bytes!("../certs/edff.pk8.pem").to_vec()),
        "edfe" => (include_bytes!("../certs/edfe.pem").to_vec(), include_bytes!("../certs/edfe.pk8.pem").to_vec()),
        _ => (include_bytes!("../certs/leaf.pem").to_vec(), include_bytes!("../certs/leaf.pk8.pem").to_vec()),
    }
}

pub fn ca_path() -> String {
    format!("{}/certs/ca.pem", env!("CARGO_MANIFEST_DIR"))
}

/// DER of the certificate in a PEM file
pub fn pem_to_der(pem: &[u8]) -> Vec<u8> {
    let s = String::from_utf8_lossy(pem);
    let b64: String = s.lines().filter(|l| !l.starts_with("-----")).collect();
    base64_decode(&b64)
}

fn base64_decode(s: &str) -> Vec<u8> {
    let mut out = Vec::new();
    let mut acc = 0u32;
    let mut bits = 0;
    for c in s.bytes() {
        let v = match c { b'A'..=b'Z' => c - b'A', b'a'..=b'z' => c - b'a' + 26, b'0'..=b'9' => c - b'0' + 52, b'+' => 62, b'/' => 63, _ => continue };
        acc = (acc << 6) | v as u32;
        bits += 6;
        if bits >= 8 { bits -= 8; out.push((acc >> bits) as u8); acc &= (1 << bits) - 1; }
    }
    out
}

pub enum Chan { Raw(UnixStream), Tls(TlsStream<UnixStream>), Closed }

pub struct ServerIo {
    pub chan: Chan,
    pub events: Vec<Value>,
    pub cert_der: Vec<u8>,
}

#[derive(Debug)]
pub enum IoErr { Eof, Timeout, Other(String) }

impl ServerIo {
    pub fn new(sock: UnixStream) -> ServerIo {
        sock.set_read_timeout(Some(Duration::from_millis(3000))).ok();
        sock.set_write_timeout(Some(Duration::from_millis(3000))).ok();
        ServerIo { chan: Chan::Raw(sock), events: Vec::new(), cert_der: Vec::new() }
    }
    pub fn chan_name(&self) -> &'static str { match self.chan { Chan::Raw(_) => "raw", Chan::Tls(_) => "tls", Chan::Closed => "closed" } }
    pub fn log(&mut self, v: Value) { self.events.push(v); }

    fn read_some(&mut self, buf: &mut [u8]) -> Result<usize, IoErr> {
        let r = match &mut self.chan { Chan::Raw(s) => s.read(buf), Chan::Tls(s) => s.read(buf), Chan::Closed => return Err(IoErr::Eof) };
        match r {
            Ok(0) => Err(IoErr::Eof),
            Ok(n) => Ok(n),
            Err(e) => match e.kind() {
                std::io::ErrorKind::WouldBlock | std::io::ErrorKind::TimedOut => Err(IoErr::Timeout),
                std::io::ErrorKind::UnexpectedEof | std::io::ErrorKind::ConnectionReset | std::io::ErrorKind::ConnectionAborted => Err(IoErr::Eof),
                _ => Err(IoErr::Other(format!("{:?}", e))),
            },
        }
    }
    fn read_exact_n(&mut self, n: usize) -> Result<Vec<u8>, (IoErr, Vec<u8>)> {
        let mut v = vec![0u8; n];
        let mut got = 0;
        while got < n {
            match self.read_some(&mut v[got..]) { Ok(k) => got += k, Err(e) => { v.truncate(got); return Err((e, v)); } }
        }
        Ok(v)
    }
    /// one TPKT frame from the client (logged as c_write on the current channel)
    pub fn recv_tpkt(&mut self) -> Result<Vec<u8>, IoErr> {
        let chan = self.chan_name();
        let h = match self.read_exact_n(4) { Ok(h) => h, Err((e, part)) => { if !part.is_empty() { self.log(json!({"ev": "c_partial", "chan": chan, "b": part})); } return Err(e); } };
        let n = u16::from_be_bytes([h[2], h[3]]) as usize;
        if h[0] != 3 || n < 4 {
            // not a TPKT frame: log what can be read as raw bytes
            let mut all = h.clone();
            let mut buf = [0u8; 4096];
            if let Ok(k) = self.read_some(&mut buf) { all.extend_from_slice(&buf[..k]); }
            self.log(json!({"ev": "c_bytes", "chan": chan, "b": all}));
            return Err(IoErr::Other("not a TPKT frame".into()));
        }
        let mut f = h;
        match self.read_exact_n(n - 4) { Ok(b) => f.extend(b), Err((e, part)) => { f.extend(part); self.log(json!({"ev": "c_partial", "chan": chan, "b": f})); return Err(e); } }
        self.log(json!({"ev": "c_write", "chan": chan, "b": f}));
        Ok(f)
    }
    /// one DER TLV from the client (CredSSP TSRequest travels without TPKT)
    pub fn recv_der(&mut self) -> Result<Vec<u8>, IoErr> {
        let chan = self.chan_name();
        let mut f = match self.read_exact_n(2) { Ok(h) => h, Err((e, _)) => return Err(e) };
        let len = if f[1] < 0x80 { f[1] as usize } else {
            let k = (f[1] & 0x7f) as usize;
            if k == 0 || k > 3 { self.log(json!({"ev": "c_bytes", "chan": chan, "b": f})); return Err(IoErr::Other("bad DER length".into())); }
            let l = match self.read_exact_n(k) { Ok(l) => l, Err((e, _)) => return Err(e) };
            f.extend(&l);
            l.iter().fold(0usize, |a, b| (a << 8) | *b as usize)
        };
        match self.read_exact_n(len) { Ok(b) => f.extend(b), Err((e, part)) => { f.extend(part); self.log(json!({"ev": "c_partial", "chan": chan, "b": f})); return Err(e); } }
        self.log(json!({"ev": "c_der", "chan": chan, "b": f}));
        Ok(f)
    }
    pub fn send(&mut self, bytes: &[u8], label: &str) -> Result<(), IoErr> {
        let chan = self.chan_name();
        let r = match &mut self.chan { Chan::Raw(s) => s.write_all(bytes), Chan::Tls(s) => s.write_all(bytes), Chan::Closed => return Err(IoErr::Eof) };
        self.log(json!({"ev": "s_write", "chan": chan, "b": bytes, "label": label}));
        r.map_err(|e| IoErr::Other(format!("{:?}", e)))
    }
    /// everything the client still sends until it closes (or the timeout passes)
    pub fn drain(&mut self, ms: u64) -> Vec<u8> {
        let chan = self.chan_name();
        if let Chan::Raw(s) = &self.chan { s.set_read_timeout(Some(Duration::from_millis(ms))).ok(); }
        if let Chan::Tls(s) = &self.chan { s.get_ref().set_read_timeout(Some(Duration::from_millis(ms))).ok(); }
        let mut all = Vec::new();
        let mut buf = [0u8; 4096];
        let end;
        loop {
            match self.read_some(&mut buf) { Ok(k) => all.extend_from_slice(&buf[..k]), Err(IoErr::Eof) => { end = "eof"; break; } Err(IoErr::Timeout) => { end = "timeout"; break; } Err(_) => { end = "error"; break; } }
            if all.len() > 1 << 20 { end = "flood"; break; }
        }
        self.log(json!({"ev": "c_rest", "chan": chan, "b": all, "end": end}));
        all
    }
    fn set_nonblocking(&mut self, nb: bool) {
        match &self.chan { Chan::Raw(s) => { s.set_nonblocking(nb).ok(); } Chan::Tls(s) => { s.get_ref().set_nonblocking(nb).ok(); } Chan::Closed => {} }
    }
    /// every complete frame the client has already written (does not wait)
    pub fn recv_pending(&mut self) -> Vec<Vec<u8>> {
        let mut out = Vec::new();
        self.set_nonblocking(true);
        loop {
            // a frame whose first bytes are there is read completely in blocking mode
            let mut h = [0u8; 1];
            let first = match &mut self.chan { Chan::Raw(s) => s.read(&mut h), Chan::Tls(s) => s.read(&mut h), Chan::Closed => break };
            match first {
                Ok(1) => {
                    self.set_nonblocking(false);
                    let rest = match self.read_exact_n(3) { Ok(r) => r, Err(_) => break };
                    let n = u16::from_be_bytes([rest[1], rest[2]]) as usize;
                    let mut f = vec![h[0]];
                    f.extend(rest);
                    if n >= 4 { if let Ok(b) = self.read_exact_n(n - 4) { f.extend(b); } }
                    out.push(f);
                    self.set_nonblocking(true);
                }
                _ => break,
            }
        }
        self.set_nonblocking(false);
        out
    }
    /// TLS accept with the named identity
    pub fn tls_accept(&mut self, ident: &str) -> bool {
        let (cert, key) = identity(ident);
        self.cert_der = pem_to_der(&cert);
        let id = match Identity::from_pkcs8(&cert, &key) { Ok(i) => i, Err(e) => { self.log(json!({"ev": "harness_error", "what": format!("identity: {:?}", e)})); return false; } };
        let acc = TlsAcceptor::new(id).unwrap();
        let sock = match std::mem::replace(&mut self.chan, Chan::Closed) { Chan::Raw(s) => s, other => { self.chan = other; return false; } };
        match acc.accept(sock) {
            Ok(t) => { self.chan = Chan::Tls(t); let c = self.cert_der.clone(); self.log(json!({"ev": "tls", "hs": "ok", "ident": ident, "cert": c})); true }
            Err(_) => { self.log(json!({"ev": "tls", "hs": "fail", "ident": ident})); false }
        }
    }
    pub fn close(&mut self, mode: &str) {
        match std::mem::replace(&mut self.chan, Chan::Closed) {
            Chan::Tls(mut t) => { if mode == "notify" { let _ = t.shutdown(); } drop(t); }
            Chan::Raw(s) => drop(s),
            Chan::Closed => {}
        }
        self.log(json!({"ev": "s_close", "mode": mode}));
    }
}
