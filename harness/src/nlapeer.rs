//! Reference CredSSP / NTLMv2 server, written from MS-CSSP and MS-NLMP, independent of src/nla.
//! It only produces bytes: every verdict about them is made by TLC (Ntlm.tla with JDK primitives).
#![allow(dead_code)]
use crate::tlspeer::ServerIo;
use hmac::{Hmac, Mac};
use md4::{Digest, Md4};
use md5::Md5;
use serde_json::{json, Value};

pub fn md4(d: &[u8]) -> Vec<u8> { let mut h = Md4::new(); h.input(d); h.result().to_vec() }
pub fn md5(d: &[u8]) -> Vec<u8> { let mut h = Md5::new(); h.input(d); h.result().to_vec() }
pub fn hmac_md5(k: &[u8], d: &[u8]) -> Vec<u8> { let mut m = Hmac::<Md5>::new_varkey(k).unwrap(); m.input(d); m.result().code().to_vec() }
pub fn utf16le(s: &str) -> Vec<u8> { s.encode_utf16().flat_map(|u| u.to_le_bytes().to_vec()).collect() }
pub fn nt_hash(password: &str) -> Vec<u8> { md4(&utf16le(password)) }

pub struct Rc4 { s: [u8; 256], i: u8, j: u8 }
impl Rc4 {
    pub fn new(key: &[u8]) -> Rc4 {
        let mut s = [0u8; 256];
        for (i, x) in s.iter_mut().enumerate() { *x = i as u8; }
        let mut j = 0u8;
        for i in 0..256 { j = j.wrapping_add(s[i]).wrapping_add(key[i % key.len()]); s.swap(i, j as usize); }
        Rc4 { s, i: 0, j: 0 }
    }
    pub fn apply(&mut self, d: &[u8]) -> Vec<u8> {
        d.iter().map(|b| {
            self.i = self.i.wrapping_add(1);
            self.j = self.j.wrapping_add(self.s[self.i as usize]);
            self.s.swap(self.i as usize, self.j as usize);
            b ^ self.s[(self.s[self.i as usize].wrapping_add(self.s[self.j as usize])) as usize]
        }).collect()
    }
}

// ---------------------------------------------------------------- DER helpers
pub fn der_len(n: usize) -> Vec<u8> {
    if n < 0x80 { vec![n as u8] } else if n < 0x100 { vec![0x81, n as u8] } else { vec![0x82, (n >> 8) as u8, n as u8] }
}
pub fn der(tag: u8, c: &[u8]) -> Vec<u8> { let mut v = vec![tag]; v.extend(der_len(c.len())); v.extend_from_slice(c); v }
pub fn der_int(n: u32) -> Vec<u8> {
    let b = n.to_be_bytes();
    let mut i = 0;
    while i < 3 && b[i] == 0 { i += 1; }
    let mut c = Vec::new();
    if b[i] & 0x80 != 0 { c.push(0); }
    c.extend_from_slice(&b[i..]);
    der(2, &c)
}
/// (tag, content range) of the TLV at `at`
pub fn der_read(b: &[u8], at: usize) -> Option<(u8, usize, usize)> {
    if at + 2 > b.len() { return None; }
    let tag = b[at];
    let (len, hl) = if b[at + 1] < 0x80 { (b[at + 1] as usize, 2) } else {
        let k = (b[at + 1] & 0x7f) as usize;
        if k == 0 || k > 3 || at + 2 + k > b.len() { return None; }
        (b[at + 2..at + 2 + k].iter().fold(0usize, |a, x| (a << 8) | *x as usize), 2 + k)
    };
    if at + hl + len > b.len() { return None; }
    Some((tag, at + hl, at + hl + len))
}

#[derive(Default, Debug, Clone)]
pub struct TsReq { pub version: u32, pub nego: Option<Vec<u8>>, pub auth_info: Option<Vec<u8>>, pub pub_key_auth: Option<Vec<u8>> }

pub fn parse_ts_request(b: &[u8]) -> Option<TsReq> {
    let (t, s, e) = der_read(b, 0)?;
    if t != 0x30 { return None; }
    let mut r = TsReq::default();
    let mut at = s;
    while at < e {
        let (tag, cs, ce) = der_read(b, at)?;
        let (_it, is, ie) = der_read(b, cs)?;
        match tag {
            0xa0 => { r.version = b[is..ie].iter().fold(0u32, |a, x| (a << 8) | *x as u32); }
            0xa1 => { let (_, s1, _) = der_read(b, is)?; let (_, s2, _) = der_read(b, s1)?; let (_, s3, e3) = der_read(b, s2)?; r.nego = Some(b[s3..e3].to_vec()); }
            0xa2 => r.auth_info = Some(b[is..ie].to_vec()),
            0xa3 => r.pub_key_auth = Some(b[is..ie].to_vec()),
            _ => {}
        }
        at = ce;
    }
    Some(r)
}

pub fn ts_request(version: u32, nego: Option<&[u8]>, auth_info: Option<&[u8]>, pub_key_auth: Option<&[u8]>) -> Vec<u8> {
    let mut c = der(0xa0, &der_int(version));
    if let Some(n) = nego { c.extend(der(0xa1, &der(0x30, &der(0x30, &der(0xa0, &der(4, n)))))); }
    if let Some(a) = auth_info { c.extend(der(0xa2, &der(4, a))); }
    if let Some(p) = pub_key_auth { c.extend(der(0xa3, &der(4, p))); }
    der(0x30, &c)
}

// ---------------------------------------------------------------- NTLM
pub const FLAGS_DEFAULT: u32 = 0xE28A8235;
pub const NEG_VERSION: u32 = 0x02000000;
pub const NEG_UNICODE: u32 = 1;

pub fn av_pair(id: u16, v: &[u8]) -> Vec<u8> { let mut o = id.to_le_bytes().to_vec(); o.extend(&(v.len() as u16).to_le_bytes()); o.extend_from_slice(v); o }

#[derive(Clone, Debug)]
pub struct ChallengeSpec { pub flags: u32, pub challenge: [u8; 8], pub target_name: Vec<u8>, pub target_info: Vec<u8> }

pub fn default_target_info(timestamp: [u8; 8]) -> Vec<u8> {
    let mut t = Vec::new();
    t.extend(av_pair(2, &utf16le("RDPDOM")));
    t.extend(av_pair(1, &utf16le("RDPSRV")));
    t.extend(av_pair(4, &utf16le("rdp.test")));
    t.extend(av_pair(3, &utf16le("srv.rdp.test")));
    t.extend(av_pair(7, &timestamp));
    t.extend(av_pair(0, &[]));
    t
}

pub fn challenge_message(c: &ChallengeSpec) -> Vec<u8> {
    let has_ver = c.flags & NEG_VERSION != 0;
    let hdr = if has_ver { 56 } else { 48 };
    let mut m = b"NTLMSSP\0".to_vec();
    m.extend(&2u32.to_le_bytes());
    m.extend(&(c.target_name.len() as u16).to_le_bytes());
    m.extend(&(c.target_name.len() as u16).to_le_bytes());
    m.extend(&(hdr as u32).to_le_bytes());
    m.extend(&c.flags.to_le_bytes());
    m.extend(&c.challenge);
    m.extend(&[0u8; 8]);
    m.extend(&(c.target_info.len() as u16).to_le_bytes());
    m.extend(&(c.target_info.len() as u16).to_le_bytes());
    m.extend(&((hdr + c.target_name.len()) as u32).to_le_bytes());
    if has_ver { m.extend(&[6, 1, 0xb1, 0x1d, 0, 0, 0, 15]); }
    m.extend(&c.target_name);
    m.extend(&c.target_info);
    m
}

fn field(b: &[u8], at: usize) -> Option<Vec<u8>> {
    if at + 8 > b.len() { return None; }
    let len = u16::from_le_bytes([b[at], b[at + 1]]) as usize;
    let off = u32::from_le_bytes([b[at + 4], b[at + 5], b[at + 6], b[at + 7]]) as usize;
    if off + len > b.len() { return None; }
    Some(b[off..off + len].to_vec())
}

pub struct AuthParts { pub nt: Vec<u8>, pub domain: Vec<u8>, pub user: Vec<u8>, pub key: Vec<u8>, pub flags: u32 }
pub fn parse_authenticate(b: &[u8]) -> Option<AuthParts> {
    if b.len() < 64 || &b[0..8] != b"NTLMSSP\0" || b[8] != 3 { return None; }
    Some(AuthParts { nt: field(b, 20)?, domain: field(b, 28)?, user: field(b, 36)?, key: field(b, 52)?, flags: u32::from_le_bytes([b[60], b[61], b[62], b[63]]) })
}

pub fn sign_key(k: &[u8], client: bool) -> Vec<u8> {
    let magic: &[u8] = if client { b"session key to client-to-server signing key magic constant\0" } else { b"session key to server-to-client signing key magic constant\0" };
    md5(&[k, magic].concat())
}
pub fn seal_key(k: &[u8], client: bool) -> Vec<u8> {
    let magic: &[u8] = if client { b"session key to client-to-server sealing key magic constant\0" } else { b"session key to server-to-client sealing key magic constant\0" };
    md5(&[k, magic].concat())
}

pub struct SecCtx { pub rc4: Rc4, pub sign: Vec<u8>, pub seq: u32 }
impl SecCtx {
    pub fn new(exported: &[u8], client: bool) -> SecCtx { SecCtx { rc4: Rc4::new(&seal_key(exported, client)), sign: sign_key(exported, client), seq: 0 } }
    /// MS-NLMP 3.4.3 / 3.4.4 with extended session security and key exchange: SEAL then MAC
    pub fn wrap(&mut self, data: &[u8]) -> Vec<u8> {
        let enc = self.rc4.apply(data);
        let mac = hmac_md5(&self.sign, &[&self.seq.to_le_bytes()[..], data].concat());
        let chk = self.rc4.apply(&mac[0..8]);
        let mut out = 1u32.to_le_bytes().to_vec();
        out.extend(chk);
        out.extend(&self.seq.to_le_bytes());
        out.extend(enc);
        self.seq += 1;
        out
    }
    pub fn unwrap(&mut self, token: &[u8]) -> Option<Vec<u8>> {
        if token.len() < 16 { return None; }
        let data = self.rc4.apply(&token[16..]);
        let chk = self.rc4.apply(&token[4..12]);
        let seq = &token[12..16];
        let mac = hmac_md5(&self.sign, &[seq, &data[..]].concat());
        if chk[..] != mac[0..8] { return None; }
        self.seq += 1;
        Some(data)
    }
}

pub fn le_increment(v: &[u8], by: i64) -> Vec<u8> {
    let mut out = v.to_vec();
    let mut carry = by;
    for b in out.iter_mut() {
        let x = *b as i64 + carry;
        *b = (x & 0xff) as u8;
        carry = x >> 8;
        if carry == 0 { break; }
    }
    out
}

/// SubjectPublicKey (the BIT STRING content without the unused-bits octet) of an X.509 certificate
pub fn subject_public_key(cert: &[u8]) -> Option<Vec<u8>> {
    let (_, s, _) = der_read(cert, 0)?;           // Certificate
    let (_, ts, _) = der_read(cert, s)?;          // tbsCertificate
    let mut at = ts;
    let mut idx = 0;
    loop {
        let (tag, cs, ce) = der_read(cert, at)?;
        if tag == 0xa0 && idx == 0 { at = ce; continue; }   // [0] version
        // serial(0), signature(1), issuer(2), validity(3), subject(4), subjectPublicKeyInfo(5)
        if idx == 5 {
            let (_, as_, ae) = der_read(cert, cs)?;           // algorithm
            let _ = as_;
            let (bt, bs, be) = der_read(cert, ae)?;           // BIT STRING
            if bt != 3 { return None; }
            return Some(cert[bs + 1..be].to_vec());
        }
        idx += 1;
        at = ce;
    }
}

/// what the server knows about the account
pub struct Account { pub domain: String, pub user: String, pub password: String }

pub fn account_of(srv: &Value) -> Account {
    let g = |k: &str| crate::drv_connect::cps_to_string(srv.get("account").and_then(|a| a.get(k)));
    Account { domain: g("domain"), user: g("user"), password: g("password") }
}

/// ExportedSessionKey from the AUTHENTICATE token, as the server derives it
pub fn exported_key(acc: &Account, auth: &AuthParts) -> Option<Vec<u8>> {
    if auth.nt.len() < 16 || auth.key.len() != 16 { return None; }
    let rk = hmac_md5(&nt_hash(&acc.password), &utf16le(&(acc.user.to_uppercase() + &acc.domain)));
    let session_base = hmac_md5(&rk, &auth.nt[0..16]);
    Some(Rc4::new(&session_base).apply(&auth.key))
}

/// the CredSSP server: returns true when the three rounds completed
pub fn serve_credssp(io: &mut ServerIo, srv: &Value) -> bool {
    let acc = account_of(srv);
    let version = srv.get("cssp_version").and_then(|x| x.as_u64()).unwrap_or(2) as u32;
    let r1 = match io.recv_der() { Ok(b) => b, Err(_) => return false };
    let t1 = match parse_ts_request(&r1) { Some(t) => t, None => return false };
    if t1.nego.is_none() { return false; }
    let flags = srv.get("ntlm_flags").and_then(|x| x.as_u64()).map(|x| x as u32).unwrap_or(FLAGS_DEFAULT);
    let ts: [u8; 8] = [0x80, 0x3e, 0xd5, 0xde, 0xb1, 0x9d, 0x01, 0x01];
    // target information: the usual five pairs, or with extra pairs of the given value lengths in front (odd lengths are
    // legal: the value of an AV pair is a byte string) - `ti_extra`: [[AvId, length], ...]
    let mut ti = Vec::new();
    for p in srv.get("ti_extra").and_then(|x| x.as_array()).cloned().unwrap_or_default() {
        ti.extend(av_pair(p[0].as_u64().unwrap_or(5) as u16, &vec![0x41u8; p[1].as_u64().unwrap_or(0) as usize]));
    }
    match srv.get("ti_mode").and_then(|x| x.as_str()).unwrap_or("") {
        "no_timestamp" => { ti.extend(av_pair(2, &utf16le("RDPDOM"))); ti.extend(av_pair(1, &utf16le("RDPSRV"))); ti.extend(av_pair(0, &[])); }
        "empty" => { ti.clear(); }
        "eol_only" => { ti.clear(); ti.extend(av_pair(0, &[])); }
        _ => ti.extend(default_target_info(ts)),
    }
    let chal = ChallengeSpec { flags, challenge: [1, 2, 3, 4, 5, 6, 7, 8], target_name: utf16le(if srv.get("tname_odd").is_some() { "RDPSRV1" } else { "RDPSRV" }), target_info: ti };
    let cm = challenge_message(&chal);
    let mut first = ts_request(version, Some(&cm), None, None);
    // C07: the whole first reply may be faulted (Faults.tla descriptors)
    if let Some(fs) = srv.get("challenge_faults").and_then(|x| x.as_array()) { for d in fs { first = crate::faults::apply(&first, d); } }
    if io.send(&first, "TsReqChallenge").is_err() { return false; }
    // the server may hang up right behind a reply (a reader waiting for bytes that were announced but never come must
    // see the end of the stream as an error, not wait or spin)
    let close_mode = srv.get("close_mode").and_then(|x| x.as_str()).unwrap_or("notify").to_string();
    if srv.get("close_after").and_then(|x| x.as_str()) == Some("challenge") { io.close(&close_mode); return false; }
    let r2 = match io.recv_der() { Ok(b) => b, Err(_) => return false };
    let t2 = match parse_ts_request(&r2) { Some(t) => t, None => return false };
    let (auth_tok, pka) = match (t2.nego, t2.pub_key_auth) { (Some(a), Some(p)) => (a, p), _ => return false };
    let auth = match parse_authenticate(&auth_tok) { Some(a) => a, None => return false };
    let key = match exported_key(&acc, &auth) { Some(k) => k, None => return false };
    let mut c2s = SecCtx::new(&key, true);
    let mut s2c = SecCtx::new(&key, false);
    io.log(json!({"ev": "nla_keys", "exported": key.clone()}));
    let client_pub = match c2s.unwrap(&pka) { Some(p) => p, None => { io.log(json!({"ev": "nla_note", "what": "client pubKeyAuth does not verify under the account's keys"})); return false; } };
    let req = crate::nlafault::final_request(srv, version, &client_pub, &key, &mut s2c, &pka);
    if io.send(&req, "TsReqPubKeyAuth").is_err() { return false; }
    if let Some(e) = io.events.last_mut() { e.as_object_mut().unwrap().insert("fault".into(), json!(crate::nlafault::kind_of(srv))); }
    if srv.get("close_after").and_then(|x| x.as_str()) == Some("final") { io.close(&close_mode); return false; }
    // uniform observation whatever was sent: the client either closes (EOF) or sends its third TSRequest
    let r3 = match io.recv_der() { Ok(b) => b, Err(_) => return false };
    let t3 = match parse_ts_request(&r3) { Some(t) => t, None => return false };
    if let Some(ai) = t3.auth_info {
        if let Some(creds) = c2s.unwrap(&ai) { io.log(json!({"ev": "nla_creds", "plain": creds})); } else { io.log(json!({"ev": "nla_note", "what": "authInfo does not unseal"})); return false; }
    } else { return false; }
    true
}
