//! Outcome capture: panics as data, allocation accounting.
use std::alloc::{GlobalAlloc, Layout, System};
use std::panic::{self, AssertUnwindSafe};
use std::sync::atomic::{AtomicUsize, Ordering};

pub struct CountingAlloc;

static LIVE: AtomicUsize = AtomicUsize::new(0);
static PEAK: AtomicUsize = AtomicUsize::new(0);
static MAXREQ: AtomicUsize = AtomicUsize::new(0);
/// diagnostic aid (VH_BIGALLOC=1): print where a request above 1 MiB comes from
pub static DEBUG_BIG: std::sync::atomic::AtomicBool = std::sync::atomic::AtomicBool::new(false);
static IN_DEBUG: std::sync::atomic::AtomicBool = std::sync::atomic::AtomicBool::new(false);
/// requests above this size are refused (the process then aborts; the orchestrator attributes the
/// abort to the plan in flight)
pub const ALLOC_LIMIT: usize = 1 << 30;

unsafe impl GlobalAlloc for CountingAlloc {
    unsafe fn alloc(&self, l: Layout) -> *mut u8 {
        if l.size() > (1 << 20) && DEBUG_BIG.load(Ordering::Relaxed) && !IN_DEBUG.swap(true, Ordering::SeqCst) {
            eprintln!("BIGALLOC {} bytes\n{}", l.size(), std::backtrace::Backtrace::force_capture());
            IN_DEBUG.store(false, Ordering::SeqCst);
        }
        let n = l.size();
        MAXREQ.fetch_max(n, Ordering::Relaxed);
        if n > ALLOC_LIMIT {
            return std::ptr::null_mut();
        }
        let p = System.alloc(l);
        if !p.is_null() {
            let live = LIVE.fetch_add(n, Ordering::Relaxed) + n;
            PEAK.fetch_max(live, Ordering::Relaxed);
        }
        p
    }
    unsafe fn dealloc(&self, p: *mut u8, l: Layout) {
        LIVE.fetch_sub(l.size(), Ordering::Relaxed);
        System.dealloc(p, l)
    }
    unsafe fn alloc_zeroed(&self, l: Layout) -> *mut u8 {
        let n = l.size();
        MAXREQ.fetch_max(n, Ordering::Relaxed);
        if n > ALLOC_LIMIT {
            return std::ptr::null_mut();
        }
        let p = System.alloc_zeroed(l);
        if !p.is_null() {
            let live = LIVE.fetch_add(n, Ordering::Relaxed) + n;
            PEAK.fetch_max(live, Ordering::Relaxed);
        }
        p
    }
    unsafe fn realloc(&self, p: *mut u8, l: Layout, new: usize) -> *mut u8 {
        MAXREQ.fetch_max(new, Ordering::Relaxed);
        if new > ALLOC_LIMIT {
            return std::ptr::null_mut();
        }
        let q = System.realloc(p, l, new);
        if !q.is_null() {
            if new >= l.size() {
                let live = LIVE.fetch_add(new - l.size(), Ordering::Relaxed) + new - l.size();
                PEAK.fetch_max(live, Ordering::Relaxed);
            } else {
                LIVE.fetch_sub(l.size() - new, Ordering::Relaxed);
            }
        }
        q
    }
}

/// start an accounting window: returns the baseline of live bytes
pub fn alloc_window_start() -> usize {
    let live = LIVE.load(Ordering::Relaxed);
    PEAK.store(live, Ordering::Relaxed);
    MAXREQ.store(0, Ordering::Relaxed);
    live
}

/// end of window: (peak live bytes above the baseline, largest single request)
pub fn alloc_window_end(base: usize) -> (usize, usize) {
    (PEAK.load(Ordering::Relaxed).saturating_sub(base), MAXREQ.load(Ordering::Relaxed))
}

pub fn silence_panics() {
    panic::set_hook(Box::new(|_| {}));
}

#[derive(Debug, Clone)]
pub enum Outcome<T> {
    Done(T),
    Panic(String),
}

pub fn guarded<T, F: FnOnce() -> T>(f: F) -> Outcome<T> {
    match panic::catch_unwind(AssertUnwindSafe(f)) {
        Ok(v) => Outcome::Done(v),
        Err(e) => {
            let msg = if let Some(s) = e.downcast_ref::<&str>() { s.to_string() }
                      else if let Some(s) = e.downcast_ref::<String>() { s.clone() }
                      else { "panic".to_string() };
            Outcome::Panic(msg)
        }
    }
}

/// classify a library result: ("ok"|"err", error kind name)
pub fn classify<T>(r: &rdp::model::error::RdpResult<T>) -> (&'static str, String) {
    use rdp::model::error::Error;
    match r {
        Ok(_) => ("ok", String::new()),
        Err(Error::RdpError(e)) => ("err", format!("{:?}", e.kind())),
        Err(Error::Io(e)) => ("err", format!("Io:{:?}", e.kind())),
        Err(Error::SslHandshakeError) => ("err", "SslHandshakeError".to_string()),
        Err(Error::SslError(_)) => ("err", "SslError".to_string()),
        Err(Error::ASN1Error(_)) => ("err", "ASN1Error".to_string()),
        Err(Error::TryError(_)) => ("err", "TryError".to_string()),
    }
}
