//! C18 driver: the library's message algebra, PER primitives, ASN.1 wrappers and GCC reader against
//! expectations computed by TLC (MsgModel.tla, Per.tla, Der.tla, WireServer.tla).
use crate::outcome::{guarded, Outcome};
use rdp::core::per;
use rdp::model::data::{Array, Check, Component, DataType, DynOption, Message, MessageOption, Trame, U16, U32};
use rdp::nla::asn1::{from_der, to_der, ASN1Type, Enumerate, ExplicitTag, ImplicitTag, Integer, OctetString, Sequence, SequenceOf, ASN1};
use rdp::model::error::RdpResult;
use serde_json::{json, Value};
use std::io::{BufRead, BufReader, Cursor, Write};
use yasna::Tag;

fn bytes_of(v: &Value) -> Vec<u8> { v.as_array().map(|a| a.iter().map(|b| b.as_u64().unwrap_or(0) as u8).collect()).unwrap_or_default() }

fn u32_of(s: &Value, v: &Value) -> U32 {
    let b = bytes_of(v);
    let b = if b.len() == 4 { [b[0], b[1], b[2], b[3]] } else { [0; 4] };
    if s["e"] == "le" { U32::LE(u32::from_le_bytes(b)) } else { U32::BE(u32::from_be_bytes(b)) }
}

/// build a message of the given shape holding `v` (or defaults when v is None)
fn build(s: &Value, v: Option<&Value>) -> Box<dyn Message> {
    let t = s["t"].as_str().unwrap_or("");
    match t {
        "u8" => Box::new(v.and_then(|x| x.as_u64()).unwrap_or(0) as u8),
        "u16" => { let n = v.and_then(|x| x.as_u64()).unwrap_or(0) as u16; if s["e"] == "le" { Box::new(U16::LE(n)) } else { Box::new(U16::BE(n)) } }
        "u32" => Box::new(match v { Some(x) => u32_of(s, x), None => u32_of(s, &json!([0, 0, 0, 0])) }),
        "bytes" => Box::new(match v { Some(x) => bytes_of(x), None => vec![0u8; s["n"].as_u64().unwrap_or(0) as usize] }),
        "rest" => Box::new(match v { Some(x) => bytes_of(x), None => Vec::<u8>::new() }),
        "check" => {
            let inner = &s["s"];
            let cv = &s["v"];
            match inner["t"].as_str().unwrap_or("") {
                "u8" => Box::new(Check::new(cv.as_u64().unwrap_or(0) as u8)),
                "u16" => { let n = cv.as_u64().unwrap_or(0) as u16; Box::new(Check::new(if inner["e"] == "le" { U16::LE(n) } else { U16::BE(n) })) }
                _ => Box::new(Check::new(u32_of(inner, cv))),
            }
        }
        "trame" => { let mut tr = Trame::new(); for (k, it) in s["items"].as_array().unwrap().iter().enumerate() { tr.push(build(it, v.map(|x| &x[k]))); } Box::new(tr) }
        "opt" => match v { Some(x) if x.as_array().map(|a| !a.is_empty()).unwrap_or(false) => Box::new(Some(Dyn(build(&s["s"], Some(&x[0]))))), Some(_) => Box::new(None::<Dyn>), None => Box::new(Some(Dyn(build(&s["s"], None)))) },
        "arr" => match v {
            Some(x) => { let mut tr = Trame::new(); for e in x.as_array().unwrap() { tr.push(build(&s["s"], Some(e))); } Box::new(Array::<Dyn>::from_trame(tr)) }
            None => { let es = s["s"].clone(); Box::new(Array::new(move || Dyn(build(&es, None)))) }
        },
        _ => Box::new(build_comp(s, v)),
    }
}

/// Box<dyn Message> as a Message (the library implements the trait for concrete types only)
struct Dyn(Box<dyn Message>);
impl Message for Dyn {
    fn write(&self, w: &mut dyn std::io::Write) -> RdpResult<()> { self.0.write(w) }
    fn read(&mut self, r: &mut dyn std::io::Read) -> RdpResult<()> { self.0.read(r) }
    fn length(&self) -> u64 { self.0.length() }
    fn visit(&self) -> DataType { self.0.visit() }
    fn options(&self) -> MessageOption { self.0.options() }
}

fn build_comp(s: &Value, v: Option<&Value>) -> Component {
    let mut c = Component::new();
    for (k, f) in s["fields"].as_array().unwrap().iter().enumerate() {
        let name = f["name"].as_str().unwrap().to_string();
        let fv = v.map(|x| &x[k]);
        let opt = &f["opt"];
        let kind = opt["k"].as_str().unwrap_or("none");
        let fs = &f["s"];
        let m: Box<dyn Message> = if kind == "none" { build(fs, fv) } else {
            let target = opt["target"].as_str().unwrap().to_string();
            let add = opt["add"].as_i64().unwrap_or(0);
            let mask = opt["mask"].as_u64().unwrap_or(0);
            let is_size = kind == "size";
            let n = fv.and_then(|x| x.as_u64()).unwrap_or(0);
            match fs["t"].as_str().unwrap_or("") {
                "u8" => { let t2 = target.clone(); Box::new(DynOption::new(n as u8, move |x: &u8| if is_size { MessageOption::Size(t2.clone(), (*x as i64 + add).max(0) as usize) } else if (*x as u64) & mask == 0 { MessageOption::SkipField(t2.clone()) } else { MessageOption::None })) }
                _ => { let t2 = target.clone(); let val = if fs["e"] == "le" { U16::LE(n as u16) } else { U16::BE(n as u16) };
                       Box::new(DynOption::new(val, move |x: &U16| if is_size { MessageOption::Size(t2.clone(), (x.inner() as i64 + add).max(0) as usize) } else if (x.inner() as u64) & mask == 0 { MessageOption::SkipField(t2.clone()) } else { MessageOption::None })) }
            }
        };
        c.insert(name, m);
    }
    c
}

/// the value held by a message, in the JSON form of the plans
fn value_of(s: &Value, m: &dyn Message) -> Value { value_dt(s, m.visit()) }
fn value_dt(s: &Value, d: DataType) -> Value {
    match (s["t"].as_str().unwrap_or(""), d) {
        ("u8", DataType::U8(x)) => json!(x),
        ("u16", DataType::U16(x)) => json!(x),
        ("u32", DataType::U32(x)) => json!(if s["e"] == "le" { x.to_le_bytes().to_vec() } else { x.to_be_bytes().to_vec() }),
        ("bytes", DataType::Slice(x)) | ("rest", DataType::Slice(x)) => json!(x),
        ("check", d) => value_dt(&s["s"], d),
        ("trame", DataType::Trame(t)) => Value::Array(t.iter().enumerate().map(|(k, e)| value_of(&s["items"][k], e.as_ref())).collect()),
        ("opt", DataType::None) => json!([]),
        ("opt", d) => json!([value_dt(&s["s"], d)]),
        ("arr", DataType::Trame(t)) => Value::Array(t.iter().map(|e| value_of(&s["s"], e.as_ref())).collect()),
        ("comp", DataType::Component(c)) => Value::Array(s["fields"].as_array().unwrap().iter().map(|f| value_of(&f["s"], c[f["name"].as_str().unwrap()].as_ref())).collect()),
        _ => json!("?"),
    }
}

fn run_messages(cases: &str, out: &str) -> i32 {
    let f = match std::fs::File::open(cases) { Ok(f) => f, Err(_) => return 2 };
    let mut o = std::io::BufWriter::new(std::fs::File::create(out).unwrap());
    for line in BufReader::new(f).lines() {
        let c: Value = serde_json::from_str(&line.unwrap()).unwrap();
        let shape = c["shape"].clone();
        let value = c["value"].clone();
        let expect_bytes = bytes_of(&c["bytes"]);
        let greedy = c["greedy"].as_bool().unwrap_or(false);
        let r = guarded(|| {
            let m = build(&shape, Some(&value));
            let mut w = Cursor::new(Vec::new());
            let wres = m.write(&mut w).is_ok();
            let written = w.into_inner();
            let length = m.length();
            // read the EXPECTED bytes (followed by a sentinel unless the shape takes everything) into an empty message
            let mut e = build(&shape, None);
            let mut input = expect_bytes.clone();
            if !greedy { input.push(0xA5); }
            let mut cur = Cursor::new(input);
            let rres = e.read(&mut cur).is_ok();
            let used = cur.position();
            let back = if rres { value_of(&shape, e.as_ref()) } else { json!(null) };
            json!({"wres": wres, "written": written, "length": length, "rres": rres, "used": used, "back": back})
        });
        let v = match r { Outcome::Done(v) => v, Outcome::Panic(m) => json!({"panic": m}) };
        writeln!(o, "{}", v).unwrap();
    }
    0
}

// ---------------------------------------------------------------- ASN.1 trees
struct DynAsn(Box<dyn ASN1>);
impl ASN1 for DynAsn {
    fn write_asn1(&self, w: yasna::DERWriter) -> RdpResult<()> { self.0.write_asn1(w) }
    fn read_asn1(&mut self, r: yasna::BERReader) -> RdpResult<()> { self.0.read_asn1(r) }
    fn visit(&self) -> ASN1Type { self.0.visit() }
}

fn tag_of(t: &Value) -> Tag { let n = t["n"].as_u64().unwrap_or(0); if t["c"] == "app" { Tag::application(n) } else { Tag::context(n) } }

fn abuild(s: &Value, with_values: bool) -> Box<dyn ASN1> {
    match s["t"].as_str().unwrap_or("") {
        "int" => { let b = bytes_of(&s["v"]); let n = if with_values && b.len() == 4 { u32::from_be_bytes([b[0], b[1], b[2], b[3]]) } else { 0 }; Box::new(n as Integer) }
        "octets" => Box::new(if with_values { bytes_of(&s["v"]) } else { OctetString::new() }),
        "bool" => Box::new(with_values && s["v"].as_bool().unwrap_or(false)),
        "enum" => Box::new((if with_values { s["v"].as_i64().unwrap_or(0) } else { 0 }) as Enumerate),
        "seq" => { let mut q = Sequence::new(); for (k, c) in s["items"].as_array().unwrap().iter().enumerate() { q.insert(format!("f{}", k), abuild(c, with_values)); } Box::new(q) }
        "seqof" => {
            if with_values { let mut q = SequenceOf::new(); for c in s["items"].as_array().unwrap() { q.inner.push(abuild(c, true)); } Box::new(q) }
            else { let proto = s["items"].as_array().unwrap().get(0).cloned().unwrap_or(json!({"t": "int", "v": [0, 0, 0, 0]})); Box::new(SequenceOf::reader(move || abuild(&proto, false))) }
        }
        "explicit" => Box::new(ExplicitTag::new(tag_of(&s["tag"]), DynAsn(abuild(&s["item"], with_values)))),
        _ => Box::new(ImplicitTag::new(tag_of(&s["tag"]), DynAsn(abuild(&s["item"], with_values)))),
    }
}

fn avalue(s: &Value, a: &dyn ASN1) -> Value {
    match (s["t"].as_str().unwrap_or(""), a.visit()) {
        ("int", ASN1Type::U32(x)) => json!(x.to_be_bytes().to_vec()),
        ("octets", ASN1Type::OctetString(x)) => json!(x),
        ("bool", ASN1Type::Bool(x)) => json!(x),
        ("enum", ASN1Type::Enumerate(x)) => json!(x),
        ("seq", ASN1Type::Sequence(q)) => Value::Array(s["items"].as_array().unwrap().iter().enumerate().map(|(k, c)| avalue(c, q[&format!("f{}", k)].as_ref())).collect()),
        ("seqof", ASN1Type::SequenceOf(q)) => { let proto = &s["items"][0]; Value::Array(q.inner.iter().map(|e| avalue(proto, e.as_ref())).collect()) }
        ("explicit", _) | ("implicit", _) => avalue(&s["item"], a),
        _ => json!("?"),
    }
}

/// the values of a plan tree in the same form avalue() produces
fn aplan(s: &Value) -> Value {
    match s["t"].as_str().unwrap_or("") {
        "seq" | "seqof" => Value::Array(s["items"].as_array().unwrap().iter().map(aplan).collect()),
        "explicit" | "implicit" => aplan(&s["item"]),
        _ => s["v"].clone(),
    }
}

fn run_asn1(cases: &str, out: &str) -> i32 {
    let f = match std::fs::File::open(cases) { Ok(f) => f, Err(_) => return 2 };
    let mut o = std::io::BufWriter::new(std::fs::File::create(out).unwrap());
    for line in BufReader::new(f).lines() {
        let c: Value = serde_json::from_str(&line.unwrap()).unwrap();
        let tree = c["tree"].clone();
        let expect = bytes_of(&c["der"]);
        let r = guarded(|| {
            let m = abuild(&tree, true);
            let der = to_der(m.as_ref());
            let mut e = abuild(&tree, false);
            let rres = from_der(e.as_mut(), &expect).is_ok();
            let back = if rres { avalue(&tree, e.as_ref()) } else { json!(null) };
            json!({"der": der, "rres": rres, "back": back, "want": aplan(&tree)})
        });
        let v = match r { Outcome::Done(v) => v, Outcome::Panic(m) => json!({"panic": m}) };
        writeln!(o, "{}", v).unwrap();
    }
    0
}

// ---------------------------------------------------------------- PER tables and GCC
fn run_per(table: &str, out: &str) -> i32 {
    let f = match std::fs::File::open(table) { Ok(f) => f, Err(_) => return 2 };
    let mut o = std::io::BufWriter::new(std::fs::File::create(out).unwrap());
    for line in BufReader::new(f).lines() {
        let c: Value = serde_json::from_str(&line.unwrap()).unwrap();
        let kind = c["k"].as_str().unwrap_or("").to_string();
        let refb = bytes_of(&c["enc"]);
        let r = guarded(|| -> Value {
            let mut w = Cursor::new(Vec::new());
            let mut input = refb.clone();
            input.push(0xA5);
            let mut cur = Cursor::new(input);
            match kind.as_str() {
                "length" => { let n = c["n"].as_u64().unwrap() as u16; let wr = per::write_length(n).and_then(|t| t.write(&mut w)).is_ok(); let back = per::read_length(&mut cur).ok(); json!({"wres": wr, "written": w.into_inner(), "back": back, "used": cur.position()}) }
                "integer" => { let b = bytes_of(&c["v"]); let n = u32::from_be_bytes([b[0], b[1], b[2], b[3]]); let wr = per::write_integer(n, &mut w).is_ok(); let written = w.into_inner();
                               let back = per::read_integer(&mut cur).ok().map(|x| x.to_be_bytes().to_vec()); let used = cur.position();
                               let own = per::read_integer(&mut Cursor::new(written.clone())).ok().map(|x| x.to_be_bytes().to_vec());
                               json!({"wres": wr, "written": written, "back": back, "used": used, "own": own}) }
                "integer16" => { let v = c["v"].as_u64().unwrap() as u16; let m = c["min"].as_u64().unwrap() as u16; let wr = per::write_integer_16(v, m, &mut w).is_ok(); let back = per::read_integer_16(m, &mut cur).ok(); json!({"wres": wr, "written": w.into_inner(), "back": back, "used": cur.position()}) }
                "oid" => { let oid = bytes_of(&c["oid"]); let wr = per::write_object_identifier(&oid, &mut w).is_ok(); let back = per::read_object_identifier(&oid, &mut cur).ok(); json!({"wres": wr, "written": w.into_inner(), "back": back, "used": cur.position()}) }
                "octets" => { let s = bytes_of(&c["s"]); let m = c["min"].as_u64().unwrap() as usize; let wr = per::write_octet_stream(&s, m, &mut w).is_ok(); let back = per::read_octet_stream(&s, m, &mut cur).is_ok(); json!({"wres": wr, "written": w.into_inner(), "back": back, "used": cur.position()}) }
                "enum" => { let v = c["v"].as_u64().unwrap() as u8; let b = per::write_enumerates(v).ok(); let back = per::read_enumerates(&mut cur).ok(); json!({"wres": b.is_some(), "written": b.map(|x| vec![x]), "back": back, "used": cur.position()}) }
                _ => { let blocks = refb.clone(); let r = rdp::core::gcc::read_conference_create_response(&mut Cursor::new(blocks));
                       match r { Ok(d) => json!({"ok": true, "channels": d.channel_ids, "v5": d.rdp_version == rdp::core::gcc::Version::RdpVersion5plus, "v4": d.rdp_version == rdp::core::gcc::Version::RdpVersion}), Err(_) => json!({"ok": false}) } }
            }
        });
        let v = match r { Outcome::Done(v) => v, Outcome::Panic(m) => json!({"panic": m}) };
        writeln!(o, "{}", v).unwrap();
    }
    0
}

/// every GCC conference create response the reference encoder produces over its parameter space
fn dump_gcc(out: &str) -> i32 {
    use crate::refpeer as rp;
    let mut o = std::io::BufWriter::new(std::fs::File::create(out).unwrap());
    let orders: Vec<Vec<&str>> = vec![vec!["core", "sec", "net"], vec!["net", "core", "sec"], vec!["core", "unk", "net", "sec"], vec!["sec", "net", "msgchannel", "core"], vec!["unk", "core", "unk", "net"]];
    for version in [0x00080001u32, 0x00080004, 0x00080005, 0x0008000f, 0, 0xffffffff].iter() {
        for core_opt in 0..3u8 { for sec in [false, true].iter() { for order in orders.iter() {
            for chans in [vec![], vec![1004u16], vec![1004, 1005], vec![1004, 1005, 1006], vec![0xffff, 0, 1003]].iter() {
                let b = rp::ScBlocks { version: *version, core_opt, requested_protocols: 1, with_security: *sec, order: order.iter().map(|s| s.to_string()).collect(), io_channel: 1003, channels: chans.clone() , max_pdu: 0 };
                let enc = rp::gcc_conference_create_response(&rp::gcc_server_blocks(&b));
                writeln!(o, "{}", json!({"enc": enc})).unwrap();
            }
        } } }
    }
    0
}

pub fn run(args: &[String]) -> i32 {
    let get = |k: &str| args.iter().position(|a| a == k).and_then(|i| args.get(i + 1).cloned());
    let out = get("--out").unwrap_or_default();
    if get("--dump-gcc").is_some() { return dump_gcc(&out); }
    if let Some(c) = get("--messages") { return run_messages(&c, &out); }
    if let Some(c) = get("--asn1") { return run_asn1(&c, &out); }
    if let Some(c) = get("--per") { return run_per(&c, &out); }
    2
}
