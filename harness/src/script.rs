//! Scripted in-memory duplex stream: single threaded, deterministic.
//! The harness keeps a handle (`Script`) on the shared state while the client under test owns
//! the `ScriptStream` end.
use std::cell::RefCell;
use std::collections::VecDeque;
use std::io::{self, Read, Write};
use std::rc::Rc;

/// How `read()` hands out the bytes the peer has sent.
#[derive(Clone, Debug)]
pub enum ReadSched {
    /// as many as the caller asks for (and are available)
    Greedy,
    /// at most n bytes per call
    Cap(usize),
    /// explicit list of chunk sizes (then greedy)
    Chunks(VecDeque<usize>),
}

/// How `write()` accepts bytes.
#[derive(Clone, Debug)]
pub enum WriteSched {
    All,
    /// accept at most n bytes per call
    Cap(usize),
    /// explicit list of caps per call (0 allowed), then All
    Caps(VecDeque<usize>),
}

pub struct Inner {
    pub inq: VecDeque<u8>,
    /// one entry per `write()` call: the bytes accepted by that call
    pub writes: Vec<Vec<u8>>,
    /// number of bytes offered by each write call
    pub offered: Vec<usize>,
    pub rsched: ReadSched,
    pub wsched: WriteSched,
    /// fail the write call that would accept the byte with this absolute index
    pub wfail_at: Option<usize>,
    /// error kind of the scripted failure; kinds a caller might be tempted to retry (WouldBlock, TimedOut) fail ONCE
    pub wfail_kind: io::ErrorKind,
    pub accepted_total: usize,
    pub read_calls: usize,
    /// (asked, got) of every read call since the last take_sys()
    pub sys: Vec<(usize, usize)>,
    pub write_failed: bool,
    pub write_zero: bool,
    pub write_calls: usize,
    pub consumed: usize,
    /// called when the client reads on an empty queue: the peer's turn (may look at writes)
    pub responder: Option<Box<dyn FnMut(&[Vec<u8>]) -> Vec<u8>>>,
    /// guard against endless loops: maximum number of read calls returning 0 bytes
    pub eof_reads: usize,
}

#[derive(Clone)]
pub struct Script(pub Rc<RefCell<Inner>>);

pub struct ScriptStream(pub Rc<RefCell<Inner>>);

impl Script {
    pub fn new() -> (Script, ScriptStream) {
        let inner = Rc::new(RefCell::new(Inner {
            inq: VecDeque::new(),
            writes: Vec::new(),
            offered: Vec::new(),
            rsched: ReadSched::Greedy,
            wsched: WriteSched::All,
            wfail_at: None,
            wfail_kind: io::ErrorKind::BrokenPipe,
            accepted_total: 0,
            read_calls: 0,
            sys: Vec::new(),
            write_failed: false,
            write_zero: false,
            write_calls: 0,
            consumed: 0,
            responder: None,
            eof_reads: 0,
        }));
        (Script(inner.clone()), ScriptStream(inner))
    }
    pub fn push(&self, bytes: &[u8]) {
        self.0.borrow_mut().inq.extend(bytes.iter().copied());
    }
    pub fn take_writes(&self) -> Vec<Vec<u8>> {
        std::mem::replace(&mut self.0.borrow_mut().writes, Vec::new())
    }
    pub fn take_sys(&self) -> Vec<(usize, usize)> {
        std::mem::replace(&mut self.0.borrow_mut().sys, Vec::new())
    }
    pub fn pending(&self) -> usize {
        self.0.borrow().inq.len()
    }
    pub fn consumed(&self) -> usize {
        self.0.borrow().consumed
    }
    pub fn set_responder(&self, f: Option<Box<dyn FnMut(&[Vec<u8>]) -> Vec<u8>>>) {
        self.0.borrow_mut().responder = f;
    }
    pub fn set_rsched(&self, s: ReadSched) {
        self.0.borrow_mut().rsched = s;
    }
    pub fn set_wsched(&self, s: WriteSched) {
        self.0.borrow_mut().wsched = s;
    }
    pub fn set_wfail_at(&self, at: Option<usize>) {
        self.0.borrow_mut().wfail_at = at;
    }
    pub fn set_wfail_kind(&self, kind: &str) {
        self.0.borrow_mut().wfail_kind = match kind {
            "wouldblock" => io::ErrorKind::WouldBlock, "timedout" => io::ErrorKind::TimedOut, "reset" => io::ErrorKind::ConnectionReset,
            "aborted" => io::ErrorKind::ConnectionAborted, "other" => io::ErrorKind::Other, _ => io::ErrorKind::BrokenPipe,
        };
    }
}

impl Read for ScriptStream {
    fn read(&mut self, buf: &mut [u8]) -> io::Result<usize> {
        let mut g = self.0.borrow_mut();
        g.read_calls += 1;
        if g.inq.is_empty() {
            if let Some(mut r) = g.responder.take() {
                let reply = r(&g.writes);
                g.responder = Some(r);
                g.inq.extend(reply.into_iter());
            }
        }
        if g.inq.is_empty() || buf.is_empty() {
            g.eof_reads += 1;
            let asked = buf.len();
            g.sys.push((asked, 0));
            return Ok(0);
        }
        let mut n = buf.len().min(g.inq.len());
        let sched = g.rsched.clone();
        match sched {
            ReadSched::Greedy => {}
            ReadSched::Cap(c) => n = n.min(c.max(1)),
            ReadSched::Chunks(mut q) => {
                if let Some(c) = q.pop_front() {
                    n = n.min(c.max(1));
                }
                g.rsched = ReadSched::Chunks(q);
            }
        }
        for i in 0..n {
            buf[i] = g.inq.pop_front().unwrap();
        }
        g.consumed += n;
        let asked = buf.len();
        g.sys.push((asked, n));
        Ok(n)
    }
}

impl Write for ScriptStream {
    fn write(&mut self, buf: &[u8]) -> io::Result<usize> {
        let mut g = self.0.borrow_mut();
        g.write_calls += 1;
        g.offered.push(buf.len());
        let mut n = buf.len();
        let sched = g.wsched.clone();
        match sched {
            WriteSched::All => {}
            WriteSched::Cap(c) => n = n.min(c),
            WriteSched::Caps(mut q) => {
                if let Some(c) = q.pop_front() {
                    n = n.min(c);
                }
                g.wsched = WriteSched::Caps(q);
            }
        }
        if let Some(at) = g.wfail_at {
            // the byte with absolute index `at` can never be accepted
            if g.accepted_total + n > at {
                let before = at - g.accepted_total;
                if before == 0 {
                    g.write_failed = true;
                    let kind = g.wfail_kind;
                    if kind == io::ErrorKind::WouldBlock || kind == io::ErrorKind::TimedOut { g.wfail_at = None; }
                    return Err(io::Error::new(kind, "scripted write failure"));
                }
                n = before;
            }
        }
        if n == 0 && !buf.is_empty() { g.write_zero = true; }
        g.accepted_total += n;
        g.writes.push(buf[..n].to_vec());
        Ok(n)
    }
    fn flush(&mut self) -> io::Result<()> {
        Ok(())
    }
}
