//! Build a connected client over the scripted stream (no TLS: offered mask 0, selected 0).
use crate::refpeer as rp;
use crate::script::{Script, ScriptStream};
use rdp::core::client::RdpClient;
use rdp::core::gcc::KeyboardLayout;
use rdp::core::{global, mcs, tpkt, x224};
use rdp::model::error::{Error, RdpError, RdpErrorKind, RdpResult};
use rdp::model::link::{Link, Stream};

pub struct SessionCfg {
    pub uid: u16,
    pub width: u16,
    pub height: u16,
    pub name: String,
    pub blocks: rp::ScBlocks,
}

impl Default for SessionCfg {
    fn default() -> Self {
        SessionCfg { uid: 1004, width: 800, height: 600, name: "vh".to_string(), blocks: rp::ScBlocks::default() }
    }
}

/// the reference peer's part of MCS connect: answers according to what the client wrote last
pub fn mcs_responder(cfg_uid: u16, blocks: rp::ScBlocks) -> Box<dyn FnMut(&[Vec<u8>]) -> Vec<u8>> {
    let mut answered = 0usize;
    Box::new(move |writes: &[Vec<u8>]| {
        let mut out = Vec::new();
        while answered < writes.len() {
            let w = &writes[answered];
            answered += 1;
            if w.len() < 8 { continue; }
            let op = w[7];
            if w[5] == 0xe0 {
                out.extend(rp::conn_confirm(2, 0, 0));
            } else if op == 0x7f {
                out.extend(rp::mcs_connect_response(&blocks));
            } else if op >> 2 == 10 {
                out.extend(rp::attach_confirm(cfg_uid));
            } else if op >> 2 == 14 && w.len() >= 12 {
                let chan = u16::from_be_bytes([w[10], w[11]]);
                out.extend(rp::join_confirm(cfg_uid, chan));
            }
        }
        out
    })
}

/// connect x224 (plain) + MCS over the script and assemble an RdpClient (hook verif_from_parts)
pub fn connect_plain(script: &Script, stream: ScriptStream, cfg: &SessionCfg) -> RdpResult<RdpClient<ScriptStream>> {
    script.set_responder(Some(mcs_responder(cfg.uid, cfg.blocks.clone())));
    let link = Link::new(Stream::Raw(stream));
    let x = x224::Client::connect(tpkt::Client::new(link), 0, false, None, false, false)?;
    let mut m = mcs::Client::new(x);
    m.connect(cfg.name.clone(), cfg.width, cfg.height, KeyboardLayout::US)?;
    script.set_responder(None);
    if script.pending() != 0 {
        return Err(Error::RdpError(RdpError::new(RdpErrorKind::Unknown, "harness: unread bytes after connect")));
    }
    let g = global::Client::new(m.get_user_id(), m.get_global_channel_id(), cfg.width, cfg.height, KeyboardLayout::US, &cfg.name);
    Ok(RdpClient::verif_from_parts(m, g))
}
