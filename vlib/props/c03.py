"""C03 - the connection sequence conforms end to end for every conforming server and configuration.
Rdp.tla model-checked; TLC-drawn (configuration, conforming server) plans executed end to end
through Connector::connect over real TLS (+ CredSSP against the independent NTLM server), then
activation(s), inputs, shutdown; every recorded connection validated against Rdp.tla."""
import json
import os
from .. import core, conn, selftest


def corruptions():
    def first(evs, pred):
        for i, e in enumerate(evs):
            if pred(e):
                return i
        return None
    cw = lambda e: e["ev"] == "c_write"
    def swap_erect_attach(evs):
        idx = [i for i, e in enumerate(evs) if cw(e)]
        if len(idx) < 4: return None
        a, b = idx[2], idx[3]
        evs[a]["blob"], evs[b]["blob"] = evs[b]["blob"], evs[a]["blob"]; return evs
    def drop_join(evs):
        idx = [i for i, e in enumerate(evs) if cw(e)]
        if len(idx) < 6: return None
        # remove the second join request and its confirm
        del evs[idx[5]:idx[5] + 2]; return evs
    def info_before_joins(evs):
        idx = [i for i, e in enumerate(evs) if cw(e)]
        if len(idx) < 7: return None
        e = evs.pop(idx[6]); evs.insert(idx[4], e); return evs
    def wrong_channel_tag(evs):
        i = first(evs, lambda e: cw(e) and e["chan"] == "tls")
        if i is None: return None
        evs[i]["chan"] = "raw"; return evs
    def connect_err(evs):
        i = first(evs, lambda e: e["ev"] == "ret" and e.get("api") == "connect")
        if i is None: return None
        evs[i]["res"] = "err"; return evs[:i + 1]
    def no_ultimatum(evs):
        i = first(evs, lambda e: e["ev"] == "shutdown")
        if i is None: return None
        evs[i]["w"] = []; return evs
    def finalize_missing_fontlist(evs):
        i = first(evs, lambda e: e["ev"] == "srv" and len(e["w"]) == 5)
        if i is None: return None
        evs[i]["w"] = evs[i]["w"][:4]; return evs
    return [("swap_erect_attach", swap_erect_attach), ("drop_join", drop_join), ("info_before_joins", info_before_joins), ("wrong_channel_tag", wrong_channel_tag),
            ("connect_err", connect_err), ("no_ultimatum", no_ultimatum), ("finalize_missing_fontlist", finalize_missing_fontlist)]


def licence_table(v, wd):
    """the licensing decision table (Licence.tla, enumerated by Gen_Licence) through the real x224 / mcs / sec connect
    calls: every PDU by which a conforming server ends licensing must let connect succeed (C03); what the client does
    with every other PDU is compared with the model of the implementation and reported as drift, never as a violation"""
    vh = core.build_harness()
    pp = os.path.join(wd, "lic.plans.ndjson")
    r = core.tlc("Gen_Licence", wd=wd, env={"LICPLANS": pp}, timeout=900)
    if r.rc != 0:
        raise core.ToolError("Gen_Licence failed:\n" + core.tail(r.out))
    rows = [json.loads(l) for l in open(pp)]
    trace, blobs = os.path.join(wd, "lic.trace.ndjson"), os.path.join(wd, "lic.blobs.ndjson")
    rc, err = core.run_harness(vh, "setup", ["--plans", pp, "--trace", trace, "--blobs", blobs], timeout=1500)
    if rc != 0:
        raise core.ToolError("setup driver failed on the licence table: " + err[-500:])
    evs = [json.loads(l) for l in open(trace) if '"ev":"setup"' in l.replace('": "', '":"')]
    if len(evs) != len(rows):
        raise core.ToolError("licence table: %d rows, %d results" % (len(rows), len(evs)))
    drift, nreq = {}, 0
    for row, e in zip(rows, evs):
        what = "security flags 0x%04x, bMsgType 0x%02x, preamble flags 0x%02x%s" % (row["sec"], row["mt"], row["pf"], (", dwErrorCode %d, dwStateTransition %d" % (row["code"], row["tr"])) if row["mt"] == 255 else "")
        if row["required"] == "ok":
            nreq += 1
            if e["res"] != "ok":
                v.violation("conn:licence:refused:pf%d" % row["pf"], "a conforming server ends licensing with %s: connect returns %s/%s" % (what, e["res"], e["ek"][:80]), {"row": row, "event": e})
        elif e["res"] == "panic":
            pass        # hostile licensing PDUs are C05's business
        elif e["res"] != row["asbuilt"]:
            k = "mt=%s pf=%s -> %s (model of the implementation: %s)" % ("alert" if row["mt"] == 255 else row["mt"], row["pf"], e["res"], row["asbuilt"])
            drift[k] = drift.get(k, 0) + 1
    if nreq == 0:
        raise core.ToolError("vacuity: the licence table has no row that C03 requires to succeed")
    return {"rows": len(rows), "required_to_succeed": nreq, "drift_from_model_of_implementation": drift}


def run(tier, seed):
    v = core.Verdict("C03", tier, seed)
    wd = core.workdir("C03")
    try:
        mc = conn.model_check(wd)
        nconn = 400 if tier == "quick" else 6000
        _, plans = conn.gen_plans(wd, nconn, [0], seed)
        # user id sweep: boundaries always; every id 1001..65535 in the thorough tier (sampled in quick)
        base = plans[0]
        uids = [u for u in range(1001, 65536) if u != 1003] if tier == "thorough" else [1001, 1002, 1003 + 1, 1007, 0x7fff, 0x8000, 0xfffe, 0xffff] + list(range(1001, 65536, 997))
        for u in uids:
            p = json.loads(json.dumps(plans[u % len(plans)]))
            p["id"] = "uid%d" % u
            p["srv"]["uid"] = u
            plans.append(p)
        # long sessions: many deactivate-all / demand-active cycles, every capability list variant (incl. every set type the
        # client knows, 18 sets per demand-active), share id constant or changing - each demand-active is owed its answer
        k = 0
        for capv in range(8):
            for same in (False, True):
                p = json.loads(json.dumps(plans[(7 * k) % nconn]))
                p["id"] = "react%d" % k
                p["srv"]["activations"] = 9 if capv in (0, 7) else 4
                p["srv"]["capv"] = capv
                p["srv"]["same_share"] = same
                p["srv"]["srcv"] = k        # source descriptor of demand-active / deactivate-all: free text of any length, empty included
                plans.append(p); k += 1
        # the maxMCSPDUsize the server settles on: anything in the range the client offered (0x420 ..= 0xffff)
        for j, mp in enumerate((0x420, 0x421, 4096, 0x7fff, 0x8000, 65528, 65529, 65534, 65535)):
            p = json.loads(json.dumps(plans[(11 * j) % nconn]))
            p["id"] = "maxpdu%d" % mp
            p["srv"].setdefault("blocks", {})["max_pdu"] = mp
            p["srv"]["blocks"].setdefault("version", [4, 0, 8, 0]); p["srv"]["blocks"].setdefault("core_opt", 2); p["srv"]["blocks"].setdefault("with_security", True); p["srv"]["blocks"].setdefault("order", ["core", "sec", "net"])
            plans.append(p)
        # the Client Info PDU at every length around the PER boundary 0x7f / 0x80 / 0x81 (both variants of the PDU)
        for ext in (False, True):
            for n in range(0, 72, 1 if tier == "thorough" or ext else 2):
                p = json.loads(json.dumps(base))
                p["id"] = "ladder-%d-%d" % (ext, n)
                p["cfg"].update({"nla": False, "admin": False, "blank": False, "hash": False, "check": False, "domain": [100], "user": [97 + (i % 26) for i in range(n)], "name": [118, 104]})
                p["srv"]["reply"]["sel"] = [1, 0, 0, 0]
                p["srv"]["account"] = {"domain": p["cfg"]["domain"], "user": p["cfg"]["user"], "password": p["cfg"]["password"]}
                p["srv"]["activations"] = 1
                p["srv"]["blocks"] = {"version": [1 if ext else 4, 0, 8, 0], "core_opt": 2, "with_security": True, "order": ["core", "sec", "net"]}
                plans.append(p)
        st = json.loads(json.dumps(base))
        st["id"] = "selftest"
        st["cfg"].update({"nla": False, "admin": False, "name": [97], "check": False})
        st["srv"]["reply"]["sel"] = [1, 0, 0, 0]
        st["srv"]["activations"] = 1
        plans.append(st)
        trace, blobs, decoded, dec = conn.run_plans(wd, plans, "c03", v=v, key="conn:abort")
        accepted, rejects = core.tv_all("Trace_Rdp", trace, decoded, wd, shards=8, max_rejects=6, overrides=True)
        for r in rejects:
            key, text = conn.classify_reject(r, dec)
            run_id = json.loads(r["run_events"][0]).get("run")
            v.violation("conn:" + key, "run %s: %s" % (run_id, text), {"run": run_id, "events": [x[:3000] for x in r["run_events"]], "tlc": r["tlc_tail"]})
        lines = [l for l in open(trace).read().split("\n") if l.strip()]
        runs = core.split_runs(lines)
        tested = []
        sl = [lines[s:e] for (s, e) in runs if json.loads(lines[s]).get("run") == "selftest"]
        sp = os.path.join(wd, "self.ndjson")
        if sl and not v.violations:       # (after a driver death the run may be missing: the violation is reported, the self-test skipped)
            open(sp, "w").write("\n".join(sl[0]) + "\n")
            if core.tv_once("Trace_Rdp", sp, decoded, wd, overrides=True) is None:
                tested = selftest.run("Trace_Rdp", sl[0], decoded, wd, corruptions(), overrides=True)
        lic = licence_table(v, wd)
        # beyond the listed properties: the configuration is what the client requests (core data, capability sets);
        # the same traces validated again with the extra conjunct CfgEchoOk - mismatches are notes, never violations
        echo = {"runs": accepted, "mismatches": []}
        if not rejects and not v.violations:
            acc2, rej2 = core.tv_all("Trace_Rdp", trace, decoded, wd, shards=8, max_rejects=3, overrides=True, cfg="Trace_Rdp_cfgecho.cfg")
            for r in rej2:
                note = "run %s: %s" % (json.loads(r["run_events"][0]).get("run"), r["event"][:200])
                echo["mismatches"].append(note)
                print("NOTE: configuration echo (not a listed property): " + note)
            echo["runs"] = acc2
            # the extra conjunct is not vacuous: the same run recorded under another configured layout / name must be rejected
            for field in (("layout", "name") if sl else ()):
                evs = [json.loads(x) for x in sl[0]]
                evs[0]["cfg"][field] = ("de" if evs[0]["cfg"]["layout"] != "de" else "us") if field == "layout" else evs[0]["cfg"]["name"] + [120]
                cp = os.path.join(wd, "echo-self.ndjson")
                open(cp, "w").write("\n".join(json.dumps(x, separators=(",", ":")) for x in evs) + "\n")
                if core.tv_once("Trace_Rdp", cp, decoded, wd, overrides=True, cfg="Trace_Rdp_cfgecho.cfg") is None:
                    raise core.ToolError("configuration echo pass is vacuous: a run recorded under another %s was accepted" % field)
        connected = sum(1 for l in lines if '"api":"connect"' in l and '"res":"ok"' in l)
        cov = {"states": mc.distinct, "transitions": mc.generated, "traces_validated_against_impl": accepted,
               "samples": [{"plan": plans[1], "first_events": [json.loads(x) for x in lines[runs[1][0] + 1:runs[1][0] + 5]]}],
               "evaluations": len(plans), "distinct_nontrivial": len({json.dumps([p["cfg"], p["srv"]], sort_keys=True) for p in plans}),
               "rule": "%d (configuration, conforming server) pairs drawn by TLC (Gen_Rdp, RandomElement over class sets: NLA/admin/blank/auto/hash/check, credential and name classes incl. multi-byte and surrogate pairs, "
                       "screen sizes, layouts; selected protocol among those offered, user id, share id, reported version, optional core fields, SC_SECURITY presence, block order incl. unknown blocks, licence variant, capability list variant, "
                       "1-2 activations, error-info) + a user-id sweep of %d values; each executed end to end over real TLS; distinct = distinct (cfg, srv)" % (nconn, len(uids)),
               "connections_established": connected, "licence_table": lic, "configuration_echo": echo, "events_validated": len(lines), "binding_selftest_rejected": tested, "checker_cmd": mc.cmd}
        return v.finish("model_checking", cov, [
            "conforming server: I/O channel 1003, no static channels, user id != 1003, licensing ended at once by the server (new licence, or error alert STATUS_VALID_CLIENT / ST_NO_TRANSITION) under any defined preamble flags, one TLS record per TSRequest / licence PDU, CredSSP version 2 semantics",
            "the synchronize PDU's targetUser is not constrained", "OpenSSL (native-tls) on both ends of the in-process TLS link is trusted"])
    finally:
        core.cleanup(wd)
