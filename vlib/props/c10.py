"""C10 - every bitmap rectangle the server sends reaches the application exactly once.
The expected callbacks are the rectangles WireServer.tla decodes from the bytes the reference
server actually sent; Trace_Activation requires cbs' = those rectangles, in order."""
import json
import os
import random
from .. import core, activation, selftest


def corruptions():
    def first(evs, pred):
        for i, e in enumerate(evs):
            if pred(e):
                return i
        return None
    many = lambda e: e["ev"] == "srv" and len(e["cb"]) >= 2
    def dup(evs):
        i = first(evs, many)
        if i is None: return None
        evs[i]["cb"].append(evs[i]["cb"][-1]); return evs
    def drop_last(evs):
        i = first(evs, many)
        if i is None: return None
        evs[i]["cb"].pop(); return evs
    def reorder(evs):
        i = first(evs, many)
        if i is None: return None
        evs[i]["cb"][0], evs[i]["cb"][1] = evs[i]["cb"][1], evs[i]["cb"][0]
        return evs if evs[i]["cb"][0] != evs[i]["cb"][1] else None
    def field(name, delta=1):
        def f(evs):
            i = first(evs, many)
            if i is None: return None
            c = evs[i]["cb"][0]
            if isinstance(c[name], bool): c[name] = not c[name]
            else: c[name] = (c[name] + delta) % 65536
            return evs
        return f
    def data_byte(evs):
        i = first(evs, lambda e: e["ev"] == "srv" and any(len(c["data"]) > 0 for c in e["cb"]))
        if i is None: return None
        for c in evs[i]["cb"]:
            if c["data"]:
                c["data"][-1] ^= 1; break
        return evs
    def phantom(evs):
        i = first(evs, lambda e: e["ev"] == "srv" and e["state"] == "Active" and len(e["cb"]) == 0)
        j = first(evs, many)
        if i is None or j is None: return None
        evs[i]["cb"] = [evs[j]["cb"][0]]; return evs
    return [("dup", dup), ("drop_last", drop_last), ("reorder", reorder), ("left", field("l")), ("bottom", field("b")), ("width", field("w")),
            ("bpp", field("bpp")), ("comp", field("comp")), ("data_byte", data_byte), ("phantom", phantom)]


def run(tier, seed):
    v = core.Verdict("C10", tier, seed)
    wd = core.workdir("C10")
    rng = random.Random(seed)
    try:
        mc = activation.model_check(wd)
        gen, shapes = activation.generate(wd, 1, module="Gen_FastPath", subst={"MaxUpd": 3 if tier == "quick" else 4})
        if len(shapes) < 1500:
            raise core.ToolError("Gen_FastPath produced only %d shapes" % len(shapes))
        steps = [h[0] for h in shapes]
        rng.shuffle(steps)
        plans = []
        # sequences of 1..4 reads per run
        k = 0
        while k < len(steps):
            n = 1 + (len(plans) % 4)
            plans.append({"id": "g%d" % len(plans), "steps": activation.happy_prefix() + steps[k:k + n]})
            k += n
        # data-length boundaries for one rectangle, with and without compression header, both length forms
        lens = sorted(set([0, 1, 2, 7, 8, 9, 0x7f, 0x80, 0xff, 0x100, 0x3fe0, 0x3fff, 0x4000, 0x7f00, 32700] +
                          (list(range(0, 600)) + list(range(600, 32740, 13)) + list(range(16300, 16500)) + list(range(32600, 32740)) if tier == "thorough" else [rng.randrange(0, 32740) for _ in range(60)])))
        cur = []
        for i, dl in enumerate(lens):
            flags = [0, 0x400, 1, 0x401][i % 4]
            if flags == 1 and dl > 32700:
                dl = 32700
            cur.append({"srv": {"kind": "FastPath", "shape": [{"t": "Bitmap", "n": 1, "dlen": dl, "flags": flags}], "long": True if dl > 100 else bool(i % 2)}})
            if len(cur) == 16:
                plans.append({"id": "len%d" % len(plans), "steps": activation.happy_prefix() + cur}); cur = []
        if cur:
            plans.append({"id": "len%d" % len(plans), "steps": activation.happy_prefix() + cur})
        # "many": more rectangles in one update, and more updates in one PDU, than any fixed small table holds (the largest
        # counts an unfragmented PDU can carry with 18-byte rectangles / 3-byte updates are about 1 800 / 10 000)
        plans.append({"id": "many-rects", "steps": activation.happy_prefix() + [
            {"srv": {"kind": "FastPath", "shape": [{"t": "Bitmap", "n": n, "dlen": 0, "flags": 0}], "long": True}} for n in (255, 256, 257, 1023, 1024, 1025, 1500)]})
        plans.append({"id": "many-updates", "steps": activation.happy_prefix() + [
            {"srv": {"kind": "FastPath", "shape": [{"t": "Other", "code": 3}] * n + [{"t": "Bitmap", "n": 2, "dlen": 3, "flags": 0}], "long": True}} for n in (255, 256, 1023, 1024, 1025, 4000)]})
        # uncompressed rectangles whose rows carry padding to a multiple of four bytes (bitmapLength = height x padded row):
        # the data reaches the application as transmitted, padding included
        padded = []
        for bpp in (8, 15, 16, 24):
            for w in (1, 2, 3, 5, 6, 7):
                for h in (1, 2, 3):
                    row = w * ((bpp + 7) // 8)
                    pad = (row + 3) // 4 * 4
                    if pad != row:
                        for flags in (0, 0x400):
                            padded.append({"l": w, "t": h, "r": w + w - 1, "b": h + h - 1, "w": w, "h": h, "bpp": bpp, "flags": flags, "data": [(7 * i + bpp) % 256 for i in range(h * pad)]})
        for i in range(0, len(padded), 4):
            plans.append({"id": "padded%d" % i, "steps": activation.happy_prefix() + [
                {"srv": {"l": "FPBMP", "updates": [{"t": "Bitmap", "rects": padded[i:i + 2]}], "long": False}}, {"srv": {"l": "FPBMP", "updates": [{"t": "Bitmap", "rects": padded[i + 2:i + 4]}], "long": True}}]})
        plans.append({"id": "selftest", "uid": 1004, "steps": activation.happy_prefix() + [
            {"srv": {"kind": "FastPath", "shape": [{"t": "Other", "code": 5}], "long": False}},
            {"srv": {"kind": "FastPath", "shape": [{"t": "Bitmap", "n": 3, "dlen": 5}, {"t": "Other", "code": 9}, {"t": "Bitmap", "n": 1, "dlen": 3}], "long": False}}]})
        pp = os.path.join(wd, "plans.ndjson")
        activation.write_plans(pp, plans)
        trace, blobs, decoded, dec = activation.run_and_decode(wd, pp, seed, v=v, key="fastpath:abort")
        activation.check_server_blobs(blobs, dec)
        accepted, rejects = core.tv_all("Trace_Activation", trace, decoded, wd, shards=8)
        activation.report_rejects(v, rejects, "fastpath")
        lines = [l for l in open(trace).read().split("\n") if l.strip()]
        runs = core.split_runs(lines)
        tested = []
        if not rejects and not v.violations:
            st = [lines[s:e] for (s, e) in runs if json.loads(lines[s]).get("run") == "selftest"]
            tested = selftest.run("Trace_Activation", st[0], decoded, wd, corruptions())
        fp = [d for d in dec if d.get("kind") == "FastPath"]
        nrects = sum(len(d["rects"]) for d in fp)
        cov = {"states": mc.distinct, "transitions": mc.generated, "traces_validated_against_impl": accepted,
               "samples": [{"server_pdu_decoded_by_spec": {k: fp[3][k] for k in ("updates", "long")} if len(fp) > 3 else None}],
               "evaluations": len(fp), "distinct_nontrivial": len({json.dumps(d, sort_keys=True) for d in fp if d["updates"]}),
               "rule": "every fast-path PDU shape TLC enumerates (0..%d updates, each a bitmap update with 0..3 rectangles or an update of kind orders/synchronize/pointer-hidden/color-pointer/undefined code, both length forms), "
                       "field values boundary-biased random, data lengths from a boundary class, plus %d explicit data lengths; sequences of 1..4 reads per run; distinct = distinct decoded server PDUs with at least one update" % (
                           3 if tier == "quick" else 4, len(lens)),
               "rectangles_delivered_and_checked": nrects, "events_validated": len(lines), "binding_selftest_rejected": tested, "checker_cmd": mc.cmd}
        return v.finish("model_checking", cov, [
            "uncompressed, unfragmented fast-path updates (as negotiated by the client's capabilities)",
            "conformant bitmap data: bitmapLength = 8 + cbCompMainBodySize when the compression header is present",
            "fast-path PDU size limited to 15 bits"])
    finally:
        core.cleanup(wd)
