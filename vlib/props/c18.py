"""C18 - encoders and decoders are mutually inverse and agree with reference codecs.
Reference semantics in TLA+: MsgModel.tla (the library's message algebra as a layout language),
Per.tla, Der.tla, WireServer!DecGccResponse.  TLC completes and evaluates random well-formed shapes
(bytes, length, read-back), evaluates the PER references over complete domains, encodes random ASN.1
trees and decodes every GCC response of the reference encoder; the library must write the same
bytes, report the same length, read them back to the same values consuming exactly that many bytes,
and decode the reference's bytes to the reference's values."""
import json
import os
import random
from .. import core, msggen


def rand_tree(rng, depth):
    k = rng.choice(["int", "octets", "bool", "enum", "seq", "seqof", "explicit", "implicit"] if depth > 0 else ["int", "octets", "bool", "enum"])
    if k == "int":
        v = rng.choice([[0, 0, 0, 0], [0, 0, 0, 1], [0, 0, 0, 127], [0, 0, 0, 128], [0, 0, 0, 255], [0, 0, 1, 0], [0, 0, 255, 255], [0, 1, 0, 0], [127, 255, 255, 255], [128, 0, 0, 0], [255, 255, 255, 255],
                        [rng.randrange(256) for _ in range(4)]])
        return {"t": "int", "v": v}
    if k == "octets":
        n = rng.choice([0, 1, 2, 127, 128, 129, 255, 256, 300])
        return {"t": "octets", "v": [rng.randrange(256) for _ in range(n)]}
    if k == "bool":
        return {"t": "bool", "v": rng.random() < 0.5}
    if k == "enum":
        return {"t": "enum", "v": rng.choice([0, 1, 2, 127, 128, 255, 256, 65535, 70000, -1, -128, -129])}
    if k == "seq":
        return {"t": "seq", "items": [rand_tree(rng, depth - 1) for _ in range(rng.randint(0, 4))]}
    if k == "seqof":
        proto = rand_tree(rng, depth - 1)
        def same(p):
            q = json.loads(json.dumps(p))
            def rev(n):
                if n["t"] == "int": n["v"] = [rng.randrange(256) for _ in range(4)]
                elif n["t"] == "octets": n["v"] = [rng.randrange(256) for _ in range(rng.choice([0, 1, 5]))]
                elif n["t"] == "bool": n["v"] = rng.random() < 0.5
                elif n["t"] == "enum": n["v"] = rng.choice([0, 3, 200])
                elif n["t"] in ("seq",): [rev(c) for c in n["items"]]
                elif n["t"] == "seqof": [rev(c) for c in n["items"]]
                else: rev(n["item"])
            rev(q)
            return q
        return {"t": "seqof", "items": [same(proto) for _ in range(rng.randint(1, 3))]}
    tag = {"c": rng.choice(["ctx", "ctx", "app"]), "n": rng.choice([0, 1, 2, 3, 5, 30])}
    if k == "implicit" and tag["c"] == "app":
        tag["n"] = rng.choice([1, 30, 101, 102])
    return {"t": k, "tag": tag, "item": rand_tree(rng, depth - 1)}


def has_empty_seqof(t):
    return False


def judge_msg(v, c, e, o):
    def k(): return "msg:" + ("panic" if "panic" in o else ("bytes" if o.get("written") != e["bytes"] else ("length" if o.get("length") != e["length"] else ("read" if not o.get("rres") else ("value" if o.get("back") != e["value"] else "consumed")))))
    ok = "panic" not in o and o["wres"] and o["written"] == e["bytes"] and o["length"] == e["length"] and o["rres"] and o["back"] == e["value"] and o["used"] == e["length"]
    if not ok:
        v.violation(k(), "message shape %s with value %s: reference bytes %s length %d; library wrote %s length %s, read back %s consuming %s%s" % (
            json.dumps(c["shape"])[:300], json.dumps(e["value"])[:120], e["bytes"][:40], e["length"], o.get("written", [])[:40] if "written" in o else None, o.get("length"), json.dumps(o.get("back"))[:120], o.get("used"), (" PANIC " + o["panic"]) if "panic" in o else ""),
            {"case": c, "expected": e, "got": o})


def selftest18(cases, exp, outs):
    """corrupted observations (a byte written differently, a length off by one, a field read back differently, one byte
    more consumed, a panic) must be flagged by the comparison"""
    res = []
    idx = [i for i, (e, o) in enumerate(zip(exp, outs)) if e["length"] >= 3 and "panic" not in o and o.get("written") == e["bytes"]][:500:100]
    for i in idx:
        c, e, o = cases[i], exp[i], outs[i]
        w = o["written"]
        for name, o2 in (("byte_changed", dict(o, written=[(w[0] + 1) % 256] + w[1:])), ("length_off_by_one", dict(o, length=o["length"] + 1)),
                         ("value_changed", dict(o, back=["corrupted"])), ("over_consumed", dict(o, used=o["used"] + 1)),
                         ("read_failed", dict(o, rres=False)), ("panic", dict(o, panic="index out of bounds"))):
            pr = core.Probe(); judge_msg(pr, c, e, o2); res.append(("%s#%d" % (name, i), bool(pr.hits)))
    return core.forward_selftest(res)


def run(tier, seed):
    v = core.Verdict("C18", tier, seed)
    wd = core.workdir("C18")
    rng = random.Random(seed)
    try:
        vh = core.build_harness()
        # ---- message algebra
        n = 6000 if tier == "quick" else 300000
        cases = [msggen.case(rng) for _ in range(n)]
        # byte blocks that take "the rest" at and beyond every 16-bit size: what was written is what is read back
        for nb in (255, 256, 32767, 32768, 65534, 65535, 65536, 65537, 70000):
            blk = [(i * 131 + (i >> 8)) % 256 for i in range(nb)]
            cases.append({"shape": {"t": "comp", "fields": [{"name": "f1", "s": {"t": "u16", "e": "le"}, "opt": {"k": "none"}}, {"name": "f2", "s": {"t": "rest"}, "opt": {"k": "none"}}]}, "value": [513, blk], "greedy": True})
            cases.append({"shape": {"t": "trame", "items": [{"t": "u8"}, {"t": "rest"}]}, "value": [9, blk], "greedy": True})
        cin, cexp = os.path.join(wd, "msg.cases.ndjson"), os.path.join(wd, "msg.exp.ndjson")
        with open(cin, "w") as f:
            for c in cases:
                f.write(json.dumps(c, separators=(",", ":")) + "\n")
        r = core.tlc("ExpectModel", wd=wd, env={"CASES": cin, "EXPECTED": cexp}, timeout=3000, xmx="12g")
        if r.rc != 0:
            raise core.ToolError("ExpectModel failed:\n" + core.tail(r.out))
        exp = [json.loads(l) for l in open(cexp)]
        bad_model = [i for i, e in enumerate(exp) if not e["readok"] or e["readv"] != e["value"] or e["used"] != e["length"]]
        if bad_model:
            raise core.ToolError("MsgModel: the reference semantics does not round-trip %d generated cases (generator or spec bug), e.g. %s" % (len(bad_model), json.dumps([cases[bad_model[0]], exp[bad_model[0]]])[:800]))
        hin, hout = os.path.join(wd, "msg.h.ndjson"), os.path.join(wd, "msg.out.ndjson")
        with open(hin, "w") as f:
            for c, e in zip(cases, exp):
                f.write(json.dumps({"shape": c["shape"], "value": e["value"], "bytes": e["bytes"], "greedy": c["greedy"]}, separators=(",", ":")) + "\n")
        rc, err = core.run_harness(vh, "model", ["--messages", hin, "--out", hout], timeout=3000)
        if rc != 0:
            raise core.ToolError("model driver failed: " + err[-800:])
        outs = [json.loads(l) for l in open(hout)]
        for c, e, o in zip(cases, exp, outs):
            judge_msg(v, c, e, o)
        tested = selftest18(cases, exp, outs) if not v.violations else []
        # ---- PER tables, GCC responses, ASN.1 trees
        gcc_f, trees_f, per_f, der_f = [os.path.join(wd, x) for x in ("gcc.ndjson", "trees.ndjson", "per.table.ndjson", "der.out.ndjson")]
        rc, err = core.run_harness(vh, "model", ["--dump-gcc", "x", "--out", gcc_f])
        if rc != 0:
            raise core.ToolError("dump-gcc failed")
        trees = [rand_tree(rng, 3) for _ in range(1500 if tier == "quick" else 20000)]
        # contents at and beyond 64 KiB: definite lengths of three octets (0x83), alone, inside a sequence (the container
        # crosses the boundary before its element does) and under an explicit tag
        for nb in (65535, 65536, 65537, 70000):
            big = {"t": "octets", "v": [(i * 89 + (i >> 8)) % 256 for i in range(nb)]}
            trees.append(big)
            trees.append({"t": "seq", "items": [{"t": "int", "v": [0, 0, 0, 5]}, big]})
            trees.append({"t": "explicit", "tag": {"c": "ctx", "n": 1}, "item": big})
        with open(trees_f, "w") as f:
            for t in trees:
                f.write(json.dumps(t, separators=(",", ":")) + "\n")
        r2 = core.tlc("ExpectCodecs", wd=wd, env={"TREES": trees_f, "GCCS": gcc_f, "PERTABLE": per_f, "DEROUT": der_f}, timeout=3000, xmx="12g")
        if r2.rc != 0:
            raise core.ToolError("ExpectCodecs failed:\n" + core.tail(r2.out))
        per_rows = [json.loads(l) for l in open(per_f)]
        pout = os.path.join(wd, "per.out.ndjson")
        rc, err = core.run_harness(vh, "model", ["--per", per_f, "--out", pout], timeout=3000)
        if rc != 0:
            raise core.ToolError("model --per failed: " + err[-800:])
        pouts = [json.loads(l) for l in open(pout)]
        drift = {}
        for row, o in zip(per_rows, pouts):
            kind = row["k"]
            if "panic" in o:
                v.violation("per:%s:panic" % kind, "%s %s: panic %s" % (kind, {k: row[k] for k in row if k not in ("enc",)}, o["panic"][:100]), {"row": row, "got": o}); continue
            if kind == "gcc":
                if row["ok"] and row["hasCore"] and row["hasNet"] and row["io"] == 1003:
                    want5 = row["version"] == [4, 0, 8, 0]
                    want4 = row["version"] == [1, 0, 8, 0]
                    if not o["ok"]:
                        v.violation("gcc:refused", "a conference create response of the reference encoder (version %s, channels %s) is refused" % (row["version"], row["channels"]), {"row": row, "got": o})
                    elif o["channels"] != row["channels"]:
                        v.violation("gcc:channels", "channel id array %s read as %s" % (row["channels"], o["channels"]), {"row": row, "got": o})
                    elif o["v5"] != want5 or o["v4"] != want4:
                        v.violation("gcc:version", "server core data version %s decoded as RdpVersion5plus=%s RdpVersion=%s (0x00080004 is RDP 5.0+, 0x00080001 is RDP 4.0)" % (row["version"], o["v5"], o["v4"]), {"row": row, "got": o})
                continue
            want_back = {"length": row.get("n"), "integer": row.get("v"), "integer16": row.get("v"), "oid": True, "octets": True, "enum": row.get("v")}[kind]
            # the library decodes the reference encoding to the value, consuming exactly it
            if o.get("back") != want_back or o.get("used") != len(row["enc"]):
                v.violation("per:%s:decode" % kind, "%s: reference encoding %s of %s decoded by the library as %s consuming %s bytes" % (kind, row["enc"], {k: row[k] for k in row if k not in ("enc", "k")}, o.get("back"), o.get("used")), {"row": row, "got": o})
            elif not o.get("wres"):
                v.violation("per:%s:encode" % kind, "%s: the library cannot encode %s" % (kind, {k: row[k] for k in row if k not in ("enc", "k")}), {"row": row, "got": o})
            elif o.get("written") != row["enc"]:
                # non-minimal but decodable encodings are drift, provided the library reads its own output back
                if kind == "integer" and o.get("own") == row["v"]:
                    drift["integer:non-minimal"] = drift.get("integer:non-minimal", 0) + 1
                else:
                    v.violation("per:%s:bytes" % kind, "%s: %s encoded as %s, reference %s" % (kind, {k: row[k] for k in row if k not in ("enc", "k")}, o.get("written"), row["enc"]), {"row": row, "got": o})
        ders = [json.loads(l) for l in open(der_f)]
        aout = os.path.join(wd, "asn1.out.ndjson")
        rc, err = core.run_harness(vh, "model", ["--asn1", der_f, "--out", aout], timeout=3000)
        if rc != 0:
            raise core.ToolError("model --asn1 failed: " + err[-800:])
        aouts = [json.loads(l) for l in open(aout)]
        for d, o in zip(ders, aouts):
            if "panic" in o:
                v.violation("der:panic", "ASN.1 tree %s: panic %s" % (json.dumps(d["tree"])[:200], o["panic"][:100]), {"case": d, "got": o})
            elif o["der"] != d["der"]:
                v.violation("der:bytes", "ASN.1 tree %s: to_der gives %s, reference DER %s" % (json.dumps(d["tree"])[:200], o["der"][:40], d["der"][:40]), {"case": d, "got": o})
            elif not o["rres"] or o["back"] != o["want"]:
                v.violation("der:read", "ASN.1 tree %s: from_der of the reference encoding gives %s" % (json.dumps(d["tree"])[:200], json.dumps(o["back"])[:200]), {"case": d, "got": o})
        nper = len(per_rows)
        cov = {"evaluations": len(cases) + nper + len(ders), "distinct_nontrivial": len({json.dumps([c["shape"], c["value"]], sort_keys=True) for c in cases}) + nper + len({json.dumps(t, sort_keys=True) for t in trees}),
               "rule": "%d random well-formed message shapes (integers of both endiannesses, fixed and open byte blocks, constant-checked fields, records with size-giving fields (+0/+2/-4 offsets) for blobs / nested records / arrays, skippable fields on a flag mask, "
                       "trames, optional trailing fields, arrays) with boundary-biased values, completed and evaluated by TLC (MsgModel.tla); PER: every length 0..32767, every 16-bit integer, 13 boundary + 2000 random 32-bit integers, integer-16 on an 11x5 value/minimum grid, "
                       "972 object identifiers, octet strings of every length 0..140 with minimum 0 and 4, all enumerated; %d ASN.1 trees (random of depth <= 3, and octet strings of 65535..70000 bytes alone / in a sequence / under an explicit tag: three-octet lengths); %d GCC responses (6 versions x optional fields x SC_SECURITY x 5 block orders incl. unknown blocks x 5 channel lists); distinct = distinct cases" % (
                           len(cases), len(ders), sum(1 for r in per_rows if r["k"] == "gcc")),
               "samples": [{"shape": cases[3]["shape"], "value": exp[3]["value"], "bytes": exp[3]["bytes"]}, per_rows[40000]],
               "drift_notes": drift, "binding_selftest_rejected": tested}
        return v.finish("exploration", cov, [
            "agree = each side decodes the other's bytes to the same value and the library round-trips; non-minimal but decodable library encodings (write_integer(255) in two octets) are counted as drift, not violations",
            "PER integer encoders of deployed stacks use 1, 2 or 4 octets; the reference decoder accepts 1..4",
            "u32 fields are carried as 4-byte lists because TLC integers are 32-bit signed; the exhaustive 2^32 sweep of the design was replaced by boundaries + 2000 random values per run"])
    finally:
        core.cleanup(wd)
