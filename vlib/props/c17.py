"""C17 - secrets leave the client only where the chosen mode says they may.
MC: Rdp!ModeTable, NoCredBeforeTls, OnlyNegoOnRaw; CredSSP!ModeTable.  TV: the complete product of
{NLA, restricted admin, blank credentials, auto logon, password vs hash} x credential classes, full
handshakes over TLS / CredSSP; Trace_Rdp (TSpecSecrets) unseals TSCredentials with Ntlm.tla, checks
the mode table on the decoded Client Info / TSCredentials / negotiation request, and searches every
byte the client wrote outside the two allowed containers for the password (UTF-8 and UTF-16LE)."""
import json
import os
from .. import core, conn, selftest


def corruptions(blob_with_secret):
    def first(evs, pred):
        for i, e in enumerate(evs):
            if pred(e):
                return i
        return None
    def leak_in_finalisation(evs):
        i = first(evs, lambda e: e["ev"] == "srv" and len(e["w"]) == 5)
        if i is None or blob_with_secret is None: return None
        evs[i]["w"][1] = blob_with_secret; return evs
    def leak_in_rest(evs, pw):
        i = first(evs, lambda e: e["ev"] == "shutdown")
        if i is None: return None
        evs.insert(i, {"ev": "c_rest", "chan": "tls", "b": [1, 2] + pw + [3], "end": "timeout"}); return evs
    def autologon_mismatch(evs):
        evs[0]["cfg"]["auto"] = not evs[0]["cfg"]["auto"]; return evs
    def admin_not_announced(evs):
        evs[0]["cfg"]["admin"] = not evs[0]["cfg"]["admin"]; return evs
    def blank_ignored(evs):
        if not evs[0]["cfg"]["nla"]: return None
        evs[0]["cfg"]["blank"] = not evs[0]["cfg"]["blank"]; return evs
    return leak_in_finalisation, leak_in_rest, [("autologon_mismatch", autologon_mismatch), ("admin_not_announced", admin_not_announced), ("blank_ignored", blank_ignored)]


def utf16(cps):
    out = []
    for c in cps:
        if c < 0x10000:
            out += [c & 255, c >> 8]
        else:
            v = c - 0x10000
            for u in (0xd800 + (v >> 10), 0xdc00 + (v & 1023)):
                out += [u & 255, u >> 8]
    return out


def run(tier, seed):
    v = core.Verdict("C17", tier, seed)
    wd = core.workdir("C17")
    try:
        mc = conn.model_check(wd)
        mc2 = core.tlc("MC_CredSSP", wd=wd, workers=4, coverage=True, timeout=300)
        core.require_clean_mc(mc2, "MC_CredSSP", ("SendCredentials",))
        _, cplans = conn.gen_plans(wd, 60 if tier == "quick" else 12000, [0], seed)
        plans = list(conn.last_mode_plans) + cplans
        if len(conn.last_mode_plans) < 200:
            raise core.ToolError("Gen_Rdp produced only %d mode plans" % len(conn.last_mode_plans))
        st = json.loads(json.dumps([p for p in conn.last_mode_plans if p["cfg"]["nla"] and not p["cfg"]["admin"] and not p["cfg"]["blank"] and not p["cfg"]["hash"] and p["srv"]["reply"]["sel"][0] == 2][0]))
        st["id"] = "selftest"
        plans.append(st)
        # the mode table does not depend on the order of the builder calls, nor on the password being non-empty
        k2 = 0
        for p in conn.last_mode_plans:
            if k2 >= 48:
                break
            q = json.loads(json.dumps(p))
            q["id"] = "order%d" % k2
            q["cfg"]["auto_first"] = True
            if k2 % 2 == 0:
                q["cfg"]["password"] = []
                q["srv"]["account"]["password"] = []
            plans.append(q); k2 += 1
        # a server that answers the TLS / NLA request by selecting plain RDP security (or a protocol that was not offered):
        # the client must stop there - continuing would put the Client Info PDU, password included, on the clear transport
        k = 0
        for p in conn.last_mode_plans:
            c = p["cfg"]
            if c["admin"] or c["blank"] or c["hash"] or k >= 12:
                continue
            for sel in ([0, 0, 0, 0], [8, 0, 0, 0]) + (([2, 0, 0, 0],) if not c["nla"] else ()):
                q = json.loads(json.dumps(p))
                q["id"] = "downgrade%d" % k
                q["srv"]["reply"]["sel"] = sel
                q["srv"]["mode"] = "nego"
                plans.append(q); k += 1
        # a Connector that connects a second time after being reconfigured behaves as its configuration AT THAT MOMENT says:
        # nothing of the first connection (authentication context, mode, credentials) may survive into the second
        nla_plans = [p for p in conn.last_mode_plans if p["cfg"]["nla"] and p["srv"]["reply"]["sel"][0] == 2 and not p["cfg"]["admin"] and not p["cfg"]["blank"] and not p["cfg"]["hash"]]
        ssl_plans = [p for p in conn.last_mode_plans if not p["cfg"]["nla"] and not p["cfg"]["admin"] and not p["cfg"]["hash"]]
        other_pw = [80, 52, 115, 36, 8364, 119, 48, 114, 100, 33]
        k4 = 0
        def again(first, change, srv_change=None, tag=""):
            nonlocal k4
            q = json.loads(json.dumps(first))
            q["id"] = "again%d%s" % (k4, tag); k4 += 1
            c2 = json.loads(json.dumps(q["cfg"])); c2.update(change)
            s2 = json.loads(json.dumps(q["srv"]))
            s2["account"] = {"domain": c2["domain"], "user": c2["user"], "password": c2["password"]}
            s2["reply"]["sel"] = [2 if c2["nla"] else 1, 0, 0, 0]
            if srv_change: s2.update(srv_change)
            # only the builder calls that change something are made between the two connections (and, every other time,
            # all of them): what the calls NOT made had set stays, what the first connection did leaves no trace
            calls = sorted({{"password": "credentials", "user": "credentials", "domain": "credentials"}.get(f, f) for f in change})
            calls = [x for x in calls if x != "hash"] + (["hash"] if "hash" in calls else [])
            q["then"] = {"cfg": c2, "srv": s2}
            if k4 % 4:
                q["then"]["apply"] = calls
            q["srv"]["activations"] = 0
            plans.append(q)
        for first in nla_plans[:3]:
            again(first, {"hash": True}, tag="-to-hash")
            again(first, {"password": other_pw}, tag="-new-password")
            again(first, {"user": [110, 101, 119, 117], "domain": []}, tag="-new-user")
            again(first, {"admin": True}, tag="-to-admin")
            again(first, {"blank": True}, tag="-to-blank")
            again(first, {"nla": False}, tag="-nla-off")
            again(first, {"auto": not first["cfg"]["auto"]}, tag="-auto")
            again(first, {"hash": True, "password": other_pw}, tag="-hash-new-password")
        # a CHALLENGE that leaves out options the client asked for (no seal, no sign, no extended session security, 56-bit):
        # whatever the server selects, the credentials leave the client sealed - a server cannot talk them into clear text
        for j, first in enumerate(nla_plans[:2] + [p for p in conn.last_mode_plans if p["cfg"]["nla"] and p["srv"]["reply"]["sel"][0] == 2 and p["cfg"]["hash"] and not p["cfg"]["admin"] and not p["cfg"]["blank"]][:1]):
            for name, clear in (("noseal", 0x20), ("nosign", 0x10), ("noseal_nosign", 0x30), ("noess", 0x00080000), ("no128", 0x20000000), ("no56_no128", 0xA0000000), ("noalwayssign", 0x8000)):
                q = json.loads(json.dumps(first))
                q["id"] = "weakflags-%s-%d" % (name, j)
                q["srv"]["ntlm_flags"] = 0xE28A8235 & ~clear
                plans.append(q)
        # the flag byte of the server's negotiation response is the server's business (extended client data, restricted
        # admin supported, ...): whatever it says, the mode table is the client's configuration
        adm = [p for p in conn.last_mode_plans if p["cfg"]["admin"] and p["cfg"]["nla"] and p["srv"]["reply"]["sel"][0] == 2][:4] + \
              [p for p in conn.last_mode_plans if p["cfg"]["blank"] and not p["cfg"]["admin"] and p["cfg"]["nla"] and p["srv"]["reply"]["sel"][0] == 2][:2] + \
              [p for p in conn.last_mode_plans if p["cfg"]["admin"] and p["srv"]["reply"]["sel"][0] == 1][:2]
        for j, first in enumerate(adm):
            for fl in (0x01, 0x07, 0x08, 0x0f, 0x17, 0x1f, 0xf7, 0xff):
                q = json.loads(json.dumps(first)); q["id"] = "rspflags-%d-%d" % (j, fl); q["srv"]["reply"]["flags"] = fl
                plans.append(q)
        # account names in user-principal form (with and without a domain) in every mode
        for j, first in enumerate([p for p in conn.last_mode_plans if p["srv"]["reply"]["sel"][0] == (2 if p["cfg"]["nla"] else 1)][::3][:32]):
            q = json.loads(json.dumps(first)); q["id"] = "upn-%d" % j
            q["cfg"]["user"] = [97, 108, 64, 99, 111, 46, 101, 120]
            if j % 2: q["cfg"]["domain"] = [68, 79, 77]
            q["srv"]["account"] = {"domain": q["cfg"]["domain"], "user": q["cfg"]["user"], "password": q["cfg"]["password"]}
            plans.append(q)
        for first in ssl_plans[:2]:
            again(first, {"nla": True}, tag="-nla-on")
            again(first, {"nla": True, "hash": True}, tag="-nla-hash")
            again(first, {"password": other_pw}, tag="-new-password")
        trace, blobs, decoded, dec = conn.run_plans(wd, plans, "c17", v=v, key="secrets:abort")
        accepted, rejects = core.tv_all("Trace_Rdp", trace, decoded, wd, shards=8, max_rejects=6, overrides=True, extra_env={"BLOBS": blobs}, cfg="Trace_Rdp_secrets.cfg")
        byid = {p["id"]: p for p in plans}
        for r in rejects:
            evs = [json.loads(x) for x in r["run_events"]]
            c = evs[0]["cfg"]
            key, text = conn.classify_reject(r, dec)
            mode = "nla=%d,admin=%d,blank=%d,auto=%d,hash=%d" % (c["nla"], c["admin"], c["blank"], c["auto"], c["hash"])
            v.violation("secrets:%s:%s" % (key, "admin" if c["admin"] else ("blank" if c["blank"] else "plain")), "run %s (%s): %s" % (evs[0]["run"], mode, text),
                        {"plan": byid.get(evs[0]["run"].split("#")[0]), "events": [x[:2500] for x in r["run_events"]], "tlc": r["tlc_tail"]})
        lines = [l for l in open(trace).read().split("\n") if l.strip()]
        runs = core.split_runs(lines)
        tested = []
        if not rejects and not v.violations:
            sl = [lines[s:e] for (s, e) in runs if json.loads(lines[s]).get("run") == "selftest"][0]
            evs = [json.loads(x) for x in sl]
            info = None
            for e in evs:
                if e["ev"] == "c_write" and dec[e["blob"] - 1].get("kind") == "ClientInfo":
                    info = e["blob"]
            lf, lr, cors = corruptions(info)
            pw = utf16(st["cfg"]["password"])
            cors = [("leak_in_finalisation", lf), ("leak_in_rest", lambda e: lr(e, pw))] + cors
            tested = selftest.run("Trace_Rdp", sl, decoded, wd, cors, overrides=True, extra_env={"BLOBS": blobs}, cfg="Trace_Rdp_secrets.cfg")
        modes = {json.dumps([p["cfg"][k] for k in ("nla", "admin", "blank", "auto", "hash")]) for p in plans}
        cov = {"states": mc.distinct + mc2.distinct, "transitions": mc.generated + mc2.generated, "traces_validated_against_impl": accepted,
               "samples": [{"cfg": {k: plans[5]["cfg"][k] for k in ("nla", "admin", "blank", "auto", "hash", "domain", "user", "password")}}],
               "evaluations": len(plans), "distinct_nontrivial": len({json.dumps(p["cfg"], sort_keys=True) for p in plans}),
               "rule": "complete product generated by TLC: {NLA, restricted admin, blank credentials, auto logon, password vs hash} (all %d combinations) x domain {empty, ASCII, surrogate pairs} x user {ASCII, 2-byte} x server selecting SSL or (with NLA) Hybrid, "
                       "each with a distinctive password of 10 code points incl. a 3-byte character, plus %d TLC-drawn connections; every client byte outside Client Info / sealed TSCredentials searched for the password" % (len(modes), len(cplans)),
               "mode_combinations": len(modes), "events_validated": len(lines), "binding_selftest_rejected": tested, "checker_cmd": mc.cmd, "exhaustive": True}
        return v.finish("model_checking", cov, [
            "passwords are >= 6 code points from an alphabet disjoint from every other configured string, so a substring match is meaningful",
            "searched encodings: UTF-8 and UTF-16LE (OEM code pages coincide with UTF-8 for the ASCII part)",
            "in hash mode the sealed TSCredentials carry an empty password; the Client Info PDU carries whatever password the connector was given"])
    finally:
        core.cleanup(wd)
