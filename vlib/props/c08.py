"""C08 - bitmap decompression is total and returns exactly width*height*4 bytes.
Malformed neighbours of every TLC-enumerated conformant encoding (truncation at every point, run
lengths at the line / buffer boundary +-1, undefined order codes, wrong planar header, wrong depth,
zero dimensions, raw data shorter / longer), classified by the reference decoders (Expect.tla):
conformant => exact image, otherwise Err or a buffer of exactly w*h*4 bytes; never a panic, bounded
allocation.  Plus ALL data strings up to a small length for every small geometry, and grammar-aware
random streams (verdict by the same rule, in the harness)."""
import json
import os
import random
import re
from .. import core, codec


def norm(msg):
    """panic message without the numbers that vary from input to input"""
    return re.sub(r"\d+", "#", msg.split("(")[0])[:60]

UNDEF16 = [0xa0, 0xa1, 0xbf, 0xf5, 0xfb, 0xfc, 0xff]


def neighbours(c, rng, tier):
    out = []
    d = c["data"]
    base = {k: c[k] for k in ("w", "h", "bpp", "comp")}
    def add(**kw):
        x = dict(base); x.update(kw)
        if "data" not in x: x["data"] = d
        out.append(x)
    for cut in range(len(d)):
        add(data=d[:cut])
    add(data=d + [0]); add(data=d + [0xfe]); add(data=d + d)
    for i in range(len(d)):
        for delta in (1, -1):
            e = list(d); e[i] = (e[i] + delta) % 256; add(data=e)
    if c["bpp"] == 16:
        for i in range(min(len(d), 6)):
            for u in UNDEF16:
                e = list(d); e[i] = u; add(data=e)
    else:
        for hb in (0x00, 0x11, 0x30, 0x20, 0xff):
            add(data=[hb] + d[1:])
    for (dw, dh) in ((1, 0), (0, 1), (-1, 0), (0, -1)):
        if c["w"] + dw >= 0 and c["h"] + dh >= 0:
            add(w=c["w"] + dw, h=c["h"] + dh)
    add(w=0); add(h=0); add(w=0, h=0)
    for bpp in (8, 15, 24, 33, 16, 32):
        if bpp != c["bpp"]:
            add(bpp=bpp)
    add(comp=not c["comp"])
    return out


def judge(v, c, e, o):
    want = c["w"] * c["h"] * 4
    bound = 4 * want + len(c["data"]) + 4096
    if e["ok"]:
        good = o["res"] == "ok" and o["bytes"] == e["bytes"]
        what = "conformant stream must decode to the reference image"
    else:
        good = (o["res"] == "err") or (o["res"] == "ok" and o["len"] == want)
        what = "malformed input (%s) must yield an error or exactly %d bytes" % (e["why"], want)
    if good and o["peak"] <= bound:
        return
    why = e.get("why", "conformant").split(":")[0].split("(")[0].strip()[:40]
    cls = "%dbpp:%s:%s:%s" % (c["bpp"], "rle" if c["comp"] else "raw", o["res"] if o["res"] != "ok" else ("alloc" if good else "size"), (norm(o["ek"]) if o["res"] == "panic" else why))
    v.violation("total:" + cls, "%dx%d %d bpp %s data %s (%d bytes): %s; got %s/%s, %d bytes, peak allocation %d" % (
        c["w"], c["h"], c["bpp"], "compressed" if c["comp"] else "raw", c["data"][:20], len(c["data"]), what, o["res"], o["ek"][:80], o["len"], o["peak"]),
        {"case": {k: (c[k] if k != "data" else c[k][:5000]) for k in ("w", "h", "bpp", "comp", "data")}, "spec": {k: (e[k] if k != "bytes" else e[k][:64]) for k in e}, "got": {k: (o[k] if k != "bytes" else o[k][:64]) for k in o}})


def selftest8(allc, exps, outs):
    """corrupted observations (a panic, a buffer of another size, an oversized allocation, a wrong pixel of a conformant
    stream) must all be flagged by the comparison"""
    res = []
    mal = [i for i, e in enumerate(exps) if not e["ok"] and outs[i]["res"] in ("ok", "err")][:400:100]
    con = [i for i, e in enumerate(exps) if e["ok"] and outs[i]["res"] == "ok" and outs[i]["len"] > 0][:400:100]
    for i in mal:
        c, e, o = allc[i], exps[i], outs[i]
        want = c["w"] * c["h"] * 4
        for name, o2 in (("panic", dict(o, res="panic", ek="index out of bounds")), ("abort", dict(o, res="abort", ek="")),
                         ("size_plus_one", dict(o, res="ok", len=want + 1, bytes=[0] * (want + 1))),
                         ("oversized_allocation", dict(o, peak=4 * want + len(c["data"]) + 4097))):
            pr = core.Probe(); judge(pr, c, e, o2); res.append(("%s#%d" % (name, i), bool(pr.hits)))
    for i in con:
        c, e, o = allc[i], exps[i], outs[i]
        for name, o2 in (("wrong_pixel", dict(o, bytes=[(o["bytes"][0] + 1) % 256] + o["bytes"][1:])), ("conformant_refused", dict(o, res="err", len=0, bytes=[]))):
            pr = core.Probe(); judge(pr, c, e, o2); res.append(("%s#%d" % (name, i), bool(pr.hits)))
    return core.forward_selftest(res)


def run(tier, seed):
    v = core.Verdict("C08", tier, seed)
    wd = core.workdir("C08")
    rng = random.Random(seed)
    try:
        vh = core.build_harness()
        c16, s16 = codec.gen_rle16(wd, [(1, 1), (2, 1), (1, 2)] + ([(3, 1), (2, 2)] if tier == "thorough" else []))
        c32, s32 = codec.gen_planar(wd, [(1, 1), (2, 1), (1, 2)])
        conf = c16 + c32
        rng.shuffle(conf)
        seeds = conf if tier == "thorough" else conf[:400]
        cases, seen = [], set()
        for c in seeds:
            for n in neighbours(c, rng, tier):
                k = json.dumps([n["w"], n["h"], n["bpp"], n["comp"], n["data"]])
                if k not in seen:
                    seen.add(k); cases.append(n)
        # larger malformed streams: random conformant encodings, then cut / overrun
        for _ in range(60 if tier == "quick" else 1500):
            w, h = rng.choice([(8, 1), (9, 2), (16, 3), (33, 2), (7, 5)])
            if rng.random() < 0.5:
                d = codec.rand_rle16(rng, w, h); bpp = 16
            else:
                d = codec.rand_planar(rng, w, h); bpp = 32
            for (dw, dh) in ((0, 0), (-1, 0), (1, 0), (0, -1), (0, 1)):
                cases.append({"w": max(0, w + dw), "h": max(0, h + dh), "bpp": bpp, "comp": True, "data": d if (dw, dh) != (0, 0) else d[:rng.randrange(len(d) + 1)]})
        # raw bitmaps with data shorter / longer than the image
        for (w, h) in [(0, 0), (1, 1), (2, 2), (3, 1), (1, 2), (3, 2), (5, 3), (7, 8), (16, 16), (300, 300), (256, 255)]:
            for bpp in (16, 32):
                want = w * h * (bpp // 8)
                for delta in (0, -1, 1, 2, 3, 2 * h, 2 * h - 1, -want, want):
                    n = want + delta
                    if 0 <= n <= 400000:
                        cases.append({"w": w, "h": h, "bpp": bpp, "comp": False, "data": [(i * 31 + 7) % 256 for i in range(n)]})
        # very wide / very tall images (the 16-bit dimensions at and around 0x4000, 0x8000, 0xffff) with no, little and
        # exactly one row of data: size arithmetic must be done in a type that holds width * 4 and width * height * 4
        for big_dim in (16383, 16384, 16385, 32767, 32768, 65535):
            for other in (0, 1, 2):
                for (w, h) in ((big_dim, other), (other, big_dim)):
                    for bpp in (16, 32):
                        for comp in (False, True):
                            for data in ([], [0, 0, 0, 0], [1, 2, 3, 4, 5, 6, 7, 8], [(i * 7) % 256 for i in range(min(w * (bpp // 8) * min(h, 1), 300000))]):
                                cases.append({"w": w, "h": h, "bpp": bpp, "comp": comp, "data": data})
        big = [c for c in cases if c["w"] * c["h"] > 4096]
        small = [c for c in cases if c["w"] * c["h"] <= 4096]
        exp = codec.expect(wd, small, "c08")
        outs = codec.run_cases(wd, small + big, "c08")
        nconf = 0
        allc = small + big
        exps = [exp[i] if i < len(small) else {"ok": False, "why": "large image: only totality is checked"} for i in range(len(allc))]
        for c, e, o in zip(allc, exps, outs):
            nconf += 1 if e["ok"] else 0
            judge(v, c, e, o)
        tested = selftest8(allc, exps, outs) if not v.violations else []
        # all short strings, and grammar-aware random streams (rule evaluated in the harness)
        agg = []
        for args in (["--exhaustive", "2" if tier == "quick" else "2", "--maxdim", "3"], ["--random", "100000" if tier == "quick" else "10000000", "--seed", str(seed)]):
            outp = os.path.join(wd, "agg%d.json" % len(agg))
            rc, err = core.run_harness(vh, "codec", args + ["--out", outp], timeout=3000)
            if rc != 0:
                raise core.ToolError("codec driver failed: " + err[-1000:])
            a = json.loads(open(outp).read())
            agg.append(a)
            for off in a["offenders"]:
                v.violation("total:%dbpp:%s:%s:%s" % (off["bpp"], "rle" if off["comp"] else "raw", off["res"] if off["res"] != "ok" else "size", norm(off["ek"]) if off["res"] == "panic" else "short-string"),
                            "%dx%d %d bpp %s data %s: outcome %s/%s with %d bytes (must be an error or exactly %d bytes)" % (off["w"], off["h"], off["bpp"], "compressed" if off["comp"] else "raw", off["data"][:16], off["res"], off["ek"][:80], off["len"], off["w"] * off["h"] * 4),
                            {"case": off})
        # direct calls of the two decoders with both dimensions large (images decompress() could not allocate in the harness)
        outp = os.path.join(wd, "direct.json")
        rc, err = core.run_harness(vh, "codec", ["--direct", "--out", outp], timeout=3000)
        if rc != 0:
            raise core.ToolError("codec driver (direct) failed: " + err[-1000:])
        direct = json.loads(open(outp).read())
        for off in direct["offenders"]:
            v.violation("total:direct:%s:%s:%s" % (off["fn"], off["res"], norm(off["ek"]) if off["res"] == "panic" else "size"),
                        "%s(%d data bytes %s, width %d, height %d, output of %d elements): outcome %s/%s, peak heap %d (must be a result, success only if the buffer holds the image)" % (off["fn"], len(off["data"]), off["data"][:8], off["w"], off["h"], off["outlen"], off["res"], off["ek"][:80], off["peak"]),
                        {"case": off})
        agg.append(direct)
        nall = len(cases) + sum(a["evaluations"] for a in agg)
        cov = {"evaluations": nall, "distinct_nontrivial": len(seen) + sum(a["evaluations"] for a in agg),
               "rule": "malformed neighbours of %d TLC-enumerated conformant encodings (every truncation point, every byte +-1, undefined order codes 0xA0/0xA1/0xBF/0xF5/0xFB/0xFC/0xFF at the first positions, planar header variants, width/height +-1 and 0, "
                       "depth in {8,15,16,24,32,33}, flag flipped), classified by the reference decoders; cut / resized random encodings; raw data of wrong size up to 300x300; ALL data strings of length <= 2 for every (w,h) in 0..3 x 0..3 at 16 and 32 bpp with both flags "
                       "(+ length <= 1 at 8/15/24/33 bpp); %d grammar-aware random streams; %d direct calls of rle_32_decompress / rle_16_decompress with both dimensions in {0,1,2,255,16383..16385,32767,32768,46341,65534,65535}, 6 data strings and output buffers of 0..4096 elements; distinct = distinct (geometry, depth, flag, data)" % (len(seeds), agg[1]["evaluations"], direct["evaluations"]),
               "samples": [cases[5], cases[len(cases) // 2]],
               "conformant_among_neighbours": nconf, "binding_selftest_rejected": tested, "exhaustive_short_strings": {k: agg[0][k] for k in ("evaluations", "ok", "err", "rule_violations")},
               "direct_calls": {k: direct[k] for k in ("evaluations", "ok", "err", "rule_violations")}, "random_streams": {k: agg[1][k] for k in ("evaluations", "ok", "err", "rule_violations")}, "states": sum(s["states"] for s in s16 + s32)}
        return v.finish("fault_enumeration", cov, [
            "that a panic / oversized allocation happened is observed by the harness (catch_unwind, counting allocator); the specification supplies the enumeration of malformed neighbours and the classification conformant / malformed",
            "allocation bound: 4 * (w*h*4) + data length + 4 KiB of live heap during the call",
            "dev profile (overflow checks on)"])
    finally:
        core.cleanup(wd)
