"""C15 - NTLMv2 AUTHENTICATE tokens are accepted by an independent MS-NLMP server.
The independent server is Ntlm.tla (Verify), evaluated by TLC with JDK / hand-written primitives
on every token the real Ntlm object produced for TLC-drawn accounts and challenges."""
import json
import os
from .. import core, ntlm, selftest


def corruptions():
    def f(mut):
        def g(evs):
            for e in evs:
                if e["ev"] == "auth":
                    mut(e); return evs
            return None
        return g
    def flip(field, i):
        def m(e): e[field][i % len(e[field])] ^= 1
        return m
    def wrong_password(e): e["password"] = e["password"] + [120]
    def wrong_user(e): e["user"] = e["user"] + [120]
    return [("nt_proof_bit", f(flip("auth", 90))), ("mic_bit", f(flip("auth", 75))), ("challenge_bit", f(flip("chal", 25))), ("negotiate_bit", f(flip("neg", 13))),
            ("session_key_bit", f(flip("auth", -1))), ("wrong_password", f(wrong_password)), ("wrong_user", f(wrong_user)), ("length_field", f(flip("auth", 12)))]


def run(tier, seed):
    v = core.Verdict("C15", tier, seed)
    wd = core.workdir("C15")
    try:
        mc = core.tlc("MC_NtlmSession", wd=wd, workers=8, coverage=True, overrides=True, timeout=600)
        core.require_clean_mc(mc, "MC_NtlmSession", ("Send", "Tamper"))
        n = 1500 if tier == "quick" else 500000
        plans, _ = ntlm.gen(wd, n, 1, 8, seed)
        plans.append({"id": "selftest", "domain": [100, 111, 109], "user": [117, 115, 101, 114], "password": [112, 119, 100], "mode": "password", "flags": ntlm.FLAGS["default"],
                      "sc": [1, 2, 3, 4, 5, 6, 7, 8], "ti": [[2, [68, 0]], [7, [1, 2, 3, 4, 5, 6, 7, 8]], [1, [83, 0]]], "tname": [83, 0]})
        # names so long that the payload of the AUTHENTICATE message passes 64 KiB while every single field still fits its
        # 16-bit length: the offsets are 32-bit fields and must keep addressing their fields
        for j, (nd, nu) in enumerate([(20000, 12600), (20000, 13000), (30000, 2760), (32760, 32760), (1, 32767), (16384, 16384)]):
            plans.append({"id": "long%d" % j, "domain": [68 + (i % 20) for i in range(nd)], "user": [97 + (i % 26) for i in range(nu)], "password": [112, 119], "mode": "hash" if j % 2 else "password",
                          "flagclass": "default", "flags": ntlm.FLAGS["default"], "sc": [9, 8, 7, 6, 5, 4, 3, 2], "ti": [[2, [68, 0]], [7, [1, 2, 3, 4, 5, 6, 7, 8]]], "tname": [83, 0]})
        # the object that built the token has served another handshake before (the API takes &mut self): what the earlier
        # server negotiated - character set, version, target info - must leave no trace in the second token
        k = 0
        for q in list(plans):
            if q["id"].startswith("a") and k < 160 and q.get("flagclass") is not None:
                for first in ("default", "oem", "noversion"):
                    if first != q["flagclass"] and (k % 3 == 0 or "oem" in (first + q["flagclass"])):
                        r = json.loads(json.dumps(q)); r["id"] = "%s-after-%s" % (q["id"], first); r["reuse"] = True; r["reuse_flags"] = ntlm.FLAGS[first]
                        plans.append(r)
                k += 1
        # pass phrases longer than any fixed buffer (257, 1 000 and 5 000 UTF-16 units, BMP and beyond)
        for j, n in enumerate((255, 256, 257, 1000, 5000)):
            for mode in ("password", "hash"):
                plans.append({"id": "longpw%d-%s" % (n, mode), "domain": [100], "user": [117, 115, 114], "password": [33 + ((7 * i) % 90) if i % 50 else 0x1f511 for i in range(n)], "mode": mode,
                              "flagclass": "default", "flags": ntlm.FLAGS["default"], "sc": [1, 1, 2, 3, 5, 8, 13, 21], "ti": [[2, [68, 0]], [7, [1, 2, 3, 4, 5, 6, 7, 8]]], "tname": [83, 0]})
        # pass phrases with white space at either end (legal, and significant), the empty account
        for j, pw in enumerate(([112, 119, 32], [112, 119, 9], [112, 119, 0x3000], [32, 32, 32], [32, 112], [112, 10], [112, 13, 10], [0xa0], [])):
            for usr in ([117], []):
                for mode in ("password", "hash"):
                    plans.append({"id": "ws%d-%d-%s" % (j, len(usr), mode), "domain": [100] if j % 2 else [], "user": usr, "password": pw, "mode": mode,
                                  "flagclass": "default", "flags": ntlm.FLAGS["default"], "sc": [2, 7, 1, 8, 2, 8, 1, 8], "ti": [[2, [68, 0]], [7, [1, 2, 3, 4, 5, 6, 7, 8]]], "tname": [83, 0]})
        trace = ntlm.run(wd, plans, "c15")
        accepted, rejects = core.tv_all("Trace_Ntlm", trace, "/dev/null", wd, shards=8, max_rejects=5, overrides=True)
        for r in rejects:
            evs = [json.loads(x) for x in r["run_events"]]
            ev = json.loads(r["event"])
            p = [q for q in plans if q["id"] == evs[0]["run"]][0]
            cls = "%s:%s:res=%s" % (p.get("mode"), p.get("flagclass", "default"), ev.get("res"))
            v.violation("ntlm:auth:" + cls, "run %s: AUTHENTICATE token (mode %s, flags %s, domain %s, user %s) is not accepted by Ntlm!Verify: result %s/%s" % (
                evs[0]["run"], p.get("mode"), p.get("flagclass"), p.get("domain"), p.get("user"), ev.get("res"), ev.get("ek")), {"plan": p, "events": [x[:4000] for x in r["run_events"]], "tlc": r["tlc_tail"]})
        lines = [l for l in open(trace).read().split("\n") if l.strip()]
        runs = core.split_runs(lines)
        tested = []
        if not rejects and not v.violations:
            sl = [lines[s:e] for (s, e) in runs if json.loads(lines[s]).get("run") == "selftest"]
            tested = selftest.run("Trace_Ntlm", sl[0], "/dev/null", wd, corruptions(), overrides=True)
        cov = {"states": mc.distinct, "transitions": mc.generated, "traces_validated_against_impl": accepted,
               "samples": [{k: plans[3][k] for k in ("domain", "user", "mode", "flagclass", "sc")}],
               "evaluations": len(plans), "distinct_nontrivial": len({json.dumps([p["domain"], p["user"], p["password"], p["mode"], p.get("flagclass"), p["sc"], p["ti"]], sort_keys=True) for p in plans}),
               "rule": "accounts x challenges drawn by TLC (Gen_Ntlm): domain/user from 9 classes (empty, ASCII, mixed case, 2-byte, 3-byte, non-BMP, 64 long; ASCII only when OEM is negotiated), 6 password classes, password or NT-hash constructor, "
                       "flags with/without VERSION and UNICODE, fixed and random 8-byte challenges, target info = random subset and order of AV ids 1..10 around a timestamp with value lengths 0..400; distinct = distinct (account, mode, flags, challenge, target info)",
               "binding_selftest_rejected": tested, "checker_cmd": mc.cmd}
        return v.finish("model_checking", cov, [
            "MD4, MD5, HMAC-MD5, RC4 and simple upper-casing are Java primitives called by TLC (JDK MessageDigest/Mac; MD4 and RC4 written from the RFCs, known-answer checked); the MS-NLMP composition is TLA+",
            "user names restricted to characters whose simple and full upper-case mappings agree; ASCII names when the OEM character set is negotiated",
            "the verifier takes `temp` from the token (a missing trailing Z(4) is not rejected, as deployed servers do not reject it)"])
    finally:
        core.cleanup(wd)
