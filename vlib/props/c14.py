"""C14 - outbound frames are exact and completely delivered, or refused.
MC: TransportWrite (every accept schedule / failure point).  TV: recorded Link/tpkt/x224 write
calls against an adversarial stream (short writes, zero writes, failures at every byte).
Tables: TLC evaluates the reference framing for every payload length 0..70000 on the three layers."""
import json
import os
import random
from .. import core, selftest

LAYERS = ("link", "tpkt", "x224")
HDR = {"link": 0, "tpkt": 4, "x224": 7}


def tv_plans(tier, rng):
    plans = []
    lens = [0, 1, 2, 3, 4, 5, 8, 16, 0x7b, 0x7c, 0x7f, 0x80, 0xfb, 0xfc, 300]
    if tier == "thorough":
        lens += list(range(6, 64)) + [511, 512, 1000, 1499, 1500, 1501]
    k = 0
    for layer in LAYERS:
        for n in lens:
            flen = n + HDR[layer]
            scheds = [{}, {"cap": 1}, {"cap": 2}, {"cap": 3}, {"cap": 7}, {"cap": 1000},
                      {"caps": [0, 1, 0, 2, 0, 3, 0, 1000]}, {"caps": [0]}, {"caps": [1, 0, 0]},
                      {"caps": [rng.randint(1, 5) for _ in range(flen + 1)]}]
            for sc in scheds:
                w = {"len": n, "salt": k}
                w.update(sc)
                plans.append({"id": "w%d" % k, "mode": "write", "layer": layer, "writes": [w, {"len": 3, "salt": k + 1}]})
                k += 1
            # a write error injected at every byte position (all positions up to 40, then sampled)
            pos = list(range(0, min(flen, 40))) + ([rng.randrange(40, flen) for _ in range(6)] if flen > 40 else [])
            for at in pos:
                for sc in ({}, {"cap": 3}):
                    # every error kind is an error of the transport: reported, and no byte sent twice - also the kinds
                    # a caller might be tempted to retry after (they fail once; a retry from the start would duplicate the
                    # bytes that had already gone out)
                    for kind in (("brokenpipe",) if (at % 3 and tier == "quick") else ("brokenpipe", "wouldblock", "timedout", "reset", "other")):
                        w = {"len": n, "salt": k, "failat": at, "failkind": kind}
                        w.update(sc)
                        # ... and the message handed over after the failed one is emitted as exactly its own frame
                        plans.append({"id": "f%d" % k, "mode": "write", "layer": layer, "writes": [w, {"len": 5, "salt": k + 1}, {"len": 0, "salt": k + 2, "cap": 2}]})
                        k += 1
    # too large for the 16 bit length: must be refused, nothing written (small count: payloads are logged)
    for layer, n in (("tpkt", 65532), ("tpkt", 65535), ("x224", 65529), ("x224", 65536), ("tpkt", 65531), ("x224", 65528), ("link", 66000)):
        plans.append({"id": "big-%s-%d" % (layer, n), "mode": "write", "layer": layer, "writes": [{"len": n, "salt": 1, "cap": 4096}]})
    # shutdown() between two writes (on a clear-text stream it does nothing): what is handed over afterwards is emitted or refused
    for layer in LAYERS:
        for n in (0, 5, 300):
            plans.append({"id": "after-shutdown-%s-%d" % (layer, n), "mode": "write", "layer": layer, "writes": [{"len": 4, "salt": 1}, {"shutdown": True}, {"len": n, "salt": 2}, {"len": n + 1, "salt": 3, "cap": 2}]})
    plans.append({"id": "selftest", "mode": "write", "layer": "tpkt", "writes": [{"payload": [1, 2, 3, 4, 5], "cap": 2}, {"payload": [9], "failat": 2}]})
    return plans


def corruptions():
    def lost_byte(evs):
        evs[1]["accepted"] = evs[1]["accepted"][:-1]; return evs
    def wrong_len_field(evs):
        evs[1]["accepted"][3] ^= 1; return evs
    def duplicated_byte(evs):
        evs[1]["accepted"].insert(5, evs[1]["accepted"][5]); return evs
    def error_swallowed(evs):
        evs[2]["res"] = "ok"; return evs
    def spurious_error(evs):
        evs[1]["res"] = "err"; return evs
    return [("lost_byte", lost_byte), ("wrong_len_field", wrong_len_field), ("duplicated_byte", duplicated_byte),
            ("error_swallowed", error_swallowed), ("spurious_error", spurious_error)]


def table_rows(wt, tier, rng, out):
    rows = [l for l in open(wt) if l.strip()]
    if tier == "thorough":
        keep = rows
    else:
        b = set()
        for c in (0, 1, 2, 3, 4, 0x7b, 0x7c, 0x7f, 0x80, 0xfb, 0xfc, 0x3ffb, 0x3ffc, 0x4000, 0x7fff, 0x8000, 65524, 65528, 65531, 65535, 65536, 70000):
            for d in range(-4, 5):
                if 0 <= c + d <= 70000:
                    b.add(c + d)
        for _ in range(1500):
            b.add(rng.randrange(0, 70001))
        keep = [r for i, r in enumerate(rows) if (i // 3) in b]
    with open(out, "w") as f:
        f.writelines(keep)
    return [json.loads(r) for r in keep]


def run(tier, seed):
    v = core.Verdict("C14", tier, seed)
    wd = core.workdir("C14")
    rng = random.Random(seed)
    try:
        vh = core.build_harness()
        mc = core.tlc("MC_TransportWrite", wd=wd, workers=4, coverage=True, timeout=600)
        core.require_clean_mc(mc, "MC_TransportWrite", ("Serialise", "StreamAccept", "StreamFail", "Again"))
        exp = core.tlc("MC_TransportWrite", cfg="MC_TransportWrite_asimpl.cfg", wd=wd, workers=4, timeout=600)
        plans = tv_plans(tier, rng)
        pp = os.path.join(wd, "plans.ndjson")
        with open(pp, "w") as f:
            for p in plans:
                f.write(json.dumps(p, separators=(",", ":")) + "\n")
        trace = os.path.join(wd, "trace.ndjson")
        # a driver that dies (abort, stack overflow, refused allocation) or does not come back inside the library is an
        # observation about the code: reported as a violation, what was recorded before is still analysed
        from .. import faults as _faults
        _faults.run_with_watchdog(v, vh, "transport", ["--plans", pp, "--trace", trace, "--blobs", os.path.join(wd, "blobs.ndjson")], wd, plans)
        accepted, rejects = core.tv_all("Trace_TransportWrite", trace, "/dev/null", wd, shards=8, max_rejects=4)
        for r in rejects:
            evs = [json.loads(x) for x in r["run_events"]]
            ev = json.loads(r["event"])
            n = len(ev.get("payload", []))
            short = any(a < o for o, a in ev.get("calls", []))
            cls = "toolarge" if n + HDR[evs[0]["layer"]] > 65535 and evs[0]["layer"] != "link" else ("failinj" if ev.get("failed") else ("zero" if ev.get("zero") else ("shortwrite" if short else "plain")))
            key = "write:tv:%s:%s:%s" % (cls, r["what"] or r["kind"], ev.get("res"))
            v.violation(key, "run %s layer %s payload %d bytes, stream calls (offered, accepted) %s: result %s/%s, %d bytes reached the stream; %s" % (
                evs[0]["run"], evs[0]["layer"], n, ev.get("calls", [])[:6], ev.get("res"), ev.get("ek"), len(ev.get("accepted", [])), r["what"] or "no matching action"),
                {"events": [x[:2000] for x in r["run_events"]], "tlc": r["tlc_tail"]})
        lines = [l for l in open(trace).read().split("\n") if l.strip()]
        runs = core.split_runs(lines)
        tested = []
        st = [lines[s:e] for (s, e) in runs if json.loads(lines[s]).get("run") == "selftest"]
        sp = os.path.join(wd, "self.ndjson")
        if st and not v.violations:
            open(sp, "w").write("\n".join(st[0]) + "\n")
        if st and not v.violations and core.tv_once("Trace_TransportWrite", sp, "/dev/null", wd) is None:
            tested = selftest.run("Trace_TransportWrite", st[0], "/dev/null", wd, corruptions())
        # full-domain table
        rt, wt = os.path.join(wd, "rt.ndjson"), os.path.join(wd, "wt.ndjson")
        t = core.tlc("TransportTables", wd=wd, env={"RTABLE": rt, "WTABLE": wt}, timeout=900)
        if t.rc != 0:
            raise core.ToolError("TransportTables failed:\n" + core.tail(t.out))
        sel = os.path.join(wd, "wt.sel.ndjson")
        rows = table_rows(wt, tier, rng, sel)
        meas = os.path.join(wd, "wmeas.ndjson")
        rc, err = core.run_harness(vh, "transport", ["--wtable", sel, "--out", meas], timeout=3000)
        if rc != 0:
            raise core.ToolError("write table run failed: " + err[-2000:])
        ms = [json.loads(l) for l in open(meas)]
        if len(ms) != len(rows):
            raise core.ToolError("write table: %d rows, %d measurements" % (len(rows), len(ms)))
        for r, m in zip(rows, ms):
            if r["refuse"]:
                ok = m["res"] == "err" and m["alen"] == 0
                key = "write:table:toolarge:%s:%s" % (r["layer"], m["res"])
                what = "payload of %d bytes does not fit a 16-bit frame length on layer %s: must be refused with nothing written; got %s" % (r["n"], r["layer"], {k: m[k] for k in ("res", "ek", "alen", "hdr")})
            else:
                ok = m["res"] == "ok" and m["alen"] == r["flen"] and m["hdr"][:len(r["hdr"])] == r["hdr"] and m["content_ok"]
                key = "write:table:%s:%s" % ("shortwrite" if m["sched"] != 0 and m["ncalls"] >= 1 and m["alen"] < r["flen"] else "frame", m["res"])
                what = "payload of %d bytes on layer %s under write schedule %d: expected %d bytes with header %s; got %s" % (r["n"], r["layer"], m["sched"], r["flen"], r["hdr"], {k: m[k] for k in ("res", "ek", "alen", "hdr", "content_ok", "ncalls")})
            if not ok:
                v.violation(key, what, {"row": r, "measured": m})
        cov = {"states": mc.distinct, "transitions": mc.generated, "traces_validated_against_impl": accepted,
               "samples": [{"plan": plans[3], "events": [json.loads(x) for x in lines[runs[3][0]:runs[3][1]]][:3]}],
               "evaluations": len(plans) + len(rows), "distinct_nontrivial": len(plans) + len(rows),
               "rule": "TV: payload lengths %s on link/tpkt/x224 x {all, caps 1,2,3,7,1000, zero-then-progress, zero forever, random caps} and a write error at every byte position (<40, sampled above); "
                       "table: %d (layer, length) rows %s; each case is a distinct (layer, length, schedule, failure point)" % (
                           "0..64 and boundaries up to 1501" if tier == "thorough" else "0..5 and boundaries up to 300", len(rows),
                           "= every length 0..70000" if tier == "thorough" else "= all boundaries +-4 and 1500 seeded lengths in 0..70000"),
               "events_validated": len(lines), "table_rows_compared": len(rows),
               "as_implemented_model_experiment": {"cfg": "MC_TransportWrite_asimpl.cfg (WriteLoop = once)", "violates": exp.violated},
               "binding_selftest_rejected": tested, "checker_cmd": mc.cmd}
        return v.finish("model_checking", cov, [
            "refusal threshold: frame longer than 65535 bytes (payload > 65531 under TPKT, > 65528 under X.224); the link layer has no length field",
            "a stream that answers Ok(0) may legitimately make the write fail (WriteZero) or be retried",
            "payload content in the big table is compared by the harness against a position-dependent pattern; lengths, headers and refusal come from TLC"])
    finally:
        core.cleanup(wd)
