"""C04 - every PDU the client emits is well formed under a strict independent parser.
The strict parser IS the TLA+ wire grammar (WireClient.tla, WireNla.tla): pass A decodes every
distinct frame the client wrote in (a) a configuration sweep of whole connections over TLS / NLA and
(b) activation + input runs; any Bad(reason) is a violation.  MC part: the grammar accepts the
captured vectors of the repository's own unit tests and rejects single-field corruptions of them."""
import json
import os
import random
from .. import core, conn, activation


LAYOUTS = ["ar", "bg", "zh", "cs", "da", "de", "el", "us", "es", "fi", "fr", "he", "hu", "is", "it", "ja", "ko", "nl", "no"]


def sweep_plans(base, rng, tier):
    """names / credentials of every class x sizes, on top of a TLC-drawn plan"""
    classes = {
        "empty": [], "one": [97], "ascii15": list(range(65, 80)), "ascii16": list(range(65, 81)), "ascii17": list(range(65, 82)),
        "ascii32": [97 + i % 26 for i in range(32)], "ascii64": [97 + i % 26 for i in range(64)],
        "two5": [233, 224, 1046, 1103, 945], "two9": [1046] * 9, "two15": [1046] * 15, "two16": [1046] * 16, "two20": [945] * 20,
        "three4": [8364, 26085, 26412, 12354], "three6": [8364] * 6, "three15": [26085] * 15, "three16": [26085] * 16,
        "astral1": [128512], "astral4": [128512, 97, 66560, 120120], "astral7": [128512] * 7, "astral8": [128512] * 8, "astral9": [97] + [128512] * 8,
        "mixed": [97, 233, 8364, 128512, 98, 1046, 26085, 66560, 99], "mixedlong": [97, 233, 8364, 128512] * 12,
        # supplementary planes whose high surrogate is not D8xx (planes 5..16), alone and straddling the 15-unit cut
        "plane5": [0x50000], "plane16": [0x10ffff], "cut14_plane5": [65 + i for i in range(14)] + [0x50000], "cut14_plane16": [65 + i for i in range(14)] + [0x10ffff],
        "cut13_plane16": [65 + i for i in range(13)] + [0x10ffff, 66], "plane9x8": [0x90000] * 8, "plane1_cut14": [65 + i for i in range(14)] + [0x1f600],
        # white space of every kind in front, behind, inside, alone: a fixed-size field keeps its size
        "lead_space": [32, 97, 98], "lead_tab": [9, 97], "lead_nbsp": [0xa0, 97, 98, 99], "lead_ideographic": [0x3000, 0x3000, 26085], "trail_space": [97, 98, 32, 32],
        "inner_space": [97, 32, 98], "trail_nul": [97, 98, 0], "only_nul": [0], "mid_nul": [97, 0, 98], "two_nul": [97, 0, 0], "all_blank": [32, 32, 32], "blank15": [32] * 15, "lead_space16": [32] + [65 + i for i in range(15)], "newline": [10, 97, 13],
    }
    plans = []
    k = 0
    fields = ("name", "domain", "user", "password")
    for f in fields:
        for cn, cps in classes.items():
            for nla in (False, True):
                if tier == "quick" and nla and f == "name" and len(cps) not in (0, 9, 16):
                    continue
                p = json.loads(json.dumps(base))
                p["id"] = "sweep-%s-%s-%d" % (f, cn, nla)
                c = p["cfg"]
                c.update({"nla": nla, "admin": False, "blank": False, "hash": False, "check": False})
                if f == "password" and len(cps) < 1:
                    pass
                c[f] = cps
                p["srv"]["reply"]["sel"] = [2 if nla else 1, 0, 0, 0]
                p["srv"]["account"] = {"domain": c["domain"], "user": c["user"], "password": c["password"]}
                p["srv"]["activations"] = 1
                # the server reports 0x00080001 / 0x00080004 alternately so that both Client Info variants are seen
                p["srv"].setdefault("blocks", {})["version"] = [1 if k % 2 else 4, 0, 8, 0]
                p["srv"]["blocks"].setdefault("core_opt", 2); p["srv"]["blocks"].setdefault("with_security", True); p["srv"]["blocks"].setdefault("order", ["core", "sec", "net"])
                w, h = rng.choice([(0, 0), (1, 1), (800, 600), (4096, 2048), (65535, 65535)])
                c["w"], c["h"] = w, h
                c["layout"] = LAYOUTS[k % len(LAYOUTS)]
                p["srv"]["uid"] = rng.choice([1001, 1002, 1004, 1007, 0x7fff, 0x8000, 0xfffe, 0xffff, rng.choice([u for u in (rng.randrange(1001, 65536), 1005) if u != 1003])])
                plans.append(p)
                k += 1
    # NLA against servers whose CHALLENGE carries target information of odd / unusual sizes (AV pair values are byte strings
    # of any length): the AUTHENTICATE token built from it must still be packed as the grammar says
    nlas = [p for p in plans if p["cfg"]["nla"] and p["id"].startswith("sweep-")][:24]
    for j, q in enumerate(nlas):
        r = json.loads(json.dumps(q))
        r["id"] = "ti-%d" % j
        r["srv"]["ti_extra"] = [[[5, 1]], [[5, 3], [6, 4]], [[9, 7]], [[5, 0]], [[10, 16], [5, 5]], [[8, 48], [9, 1]]][j % 6]
        plans.append(r)
        if j < 6:
            # a CHALLENGE without a timestamp (older servers) or with an empty target information: the client may give up, but
            # whatever token it sends must be well formed
            r2 = json.loads(json.dumps(q)); r2["id"] = "ti-nots-%d" % j
            r2["srv"]["ti_mode"] = ["no_timestamp", "empty", "eol_only"][j % 3]
            plans.append(r2)
    # length ladder: the MCS send-data user data of the Client Info PDU crosses every PER length boundary
    # (0x7f / 0x80 / ...) once per Client Info variant
    for ext in (False, True):
        for n in range(0, 72):
            p = json.loads(json.dumps(base))
            p["id"] = "ladder-%d-%d" % (ext, n)
            c = p["cfg"]
            c.update({"nla": False, "admin": False, "blank": False, "hash": False, "check": False, "domain": [100], "user": [97 + (i % 26) for i in range(n)], "name": [118, 104]})
            p["srv"]["reply"]["sel"] = [1, 0, 0, 0]
            p["srv"]["account"] = {"domain": c["domain"], "user": c["user"], "password": c["password"]}
            p["srv"]["activations"] = 1
            p["srv"]["blocks"] = {"version": [1 if ext else 4, 0, 8, 0], "core_opt": 2, "with_security": True, "order": ["core", "sec", "net"]}
            plans.append(p)
    return plans


def selftest4(wd, rows, dec):
    """single-field corruptions of frames the grammar accepted (TPKT length, last byte dropped, one byte appended, a
    length byte in the middle changed) must be rejected by the same decoding pass"""
    seen, picks = set(), []
    for row, d in zip(rows, dec):
        if row["side"] == "c" and d.get("ok") and d.get("kind") not in seen and len(row["b"]) > 12:
            seen.add(d.get("kind")); picks.append(row)
    muts = []
    for row in picks:
        b = row["b"]
        muts.append(("tpkt_length_plus_one:" + str(len(muts)), dict(row, b=b[:3] + [(b[3] + 1) % 256] + b[4:])))
        muts.append(("last_byte_dropped:" + str(len(muts)), dict(row, b=b[:-1])))
        muts.append(("byte_appended:" + str(len(muts)), dict(row, b=b + [0x41])))
        muts.append(("x224_header_changed:" + str(len(muts)), dict(row, b=b[:4] + [(b[4] + 1) % 256] + b[5:])))
    bp, dp = os.path.join(wd, "self.blobs.ndjson"), os.path.join(wd, "self.decoded.ndjson")
    with open(bp, "w") as f:
        for k, (_, r) in enumerate(muts):
            f.write(json.dumps(dict(r, id=k + 1), separators=(",", ":")) + "\n")
    out = core.pass_a(bp, dp, wd)
    return core.forward_selftest([(n.split(":")[0] + "#" + n.split(":")[1], not d.get("ok")) for (n, _), d in zip(muts, out)])


def run(tier, seed):
    v = core.Verdict("C04", tier, seed)
    wd = core.workdir("C04")
    rng = random.Random(seed)
    try:
        # grammar self-consistency (not vacuous): captured vectors of the repository's tests are accepted,
        # single-field corruptions of them rejected
        mc = core.tlc("MC_Wire", wd=wd, workers=1, timeout=600)
        if mc.rc != 0:
            raise core.ToolError("MC_Wire (grammar self-check) failed:\n" + core.tail(mc.out))
        nconn = 150 if tier == "quick" else 40000
        _, plans = conn.gen_plans(wd, nconn, [0], seed)
        plans += sweep_plans(plans[0], rng, tier)
        trace, blobs, decoded, dec = conn.run_plans(wd, plans, "c04", v=v, key="panic:abort")
        blob_rows = [json.loads(l) for l in open(blobs) if l.strip()]
        # activation / input runs over the scripted stream add every input event kind and id class
        gen, hists = activation.generate(wd, 2, module="Gen_Input")
        aplans = [{"id": "a%d" % k, "steps": activation.happy_prefix() + h} for k, h in enumerate(hists)]
        atrace, ablobs, adecoded, adec = activation.run_and_decode(wd, os.path.join(wd, "aplans.ndjson") if False else _write_plans(wd, aplans), seed)
        ablob_rows = [json.loads(l) for l in open(ablobs) if l.strip()]
        nclient = 0
        kinds = {}
        for rows, ds in ((blob_rows, dec), (ablob_rows, adec)):
            for row, d in zip(rows, ds):
                if row["side"] not in ("c", "d"):
                    continue
                nclient += 1
                if d.get("ok"):
                    k = d.get("kind") + (":" + d["nego"]["kind"] if d.get("kind") == "TsRequest" and d.get("hasNego") else "")
                    kinds[k] = kinds.get(k, 0) + 1
                else:
                    why = d.get("why", "?")
                    v.violation("malformed:" + why.split(":")[0] + ":" + why.split(":")[1].strip()[:40] if ":" in why else "malformed:" + why,
                                "client frame rejected by the strict grammar: %s; frame (%d bytes) starts %s" % (why, len(row["b"]), row["b"][:24]),
                                {"why": why, "frame": row["b"]})
        tested = selftest4(wd, blob_rows, dec) if not v.violations else []
        # a connect that panicked never produced its frame: report it here too (e.g. slicing a name inside a code point)
        for l in open(trace):
            if '"res":"panic"' in l:
                e = json.loads(l)
                v.violation("panic:%s" % e.get("api", e.get("ev")), "client panicked while building / sending a PDU: %s" % e.get("ek"), {"event": e})
        need = ["ConnReq", "ConnectInitial", "ErectDomain", "AttachUser", "ChannelJoin", "ClientInfo", "ConfirmActive", "Sync", "Control", "FontList", "Input", "Ultimatum", "TsRequest:NtlmNegotiate", "TsRequest:NtlmAuthenticate", "TsRequest"]
        missing = [k for k in need if k not in kinds]
        if missing and not v.violations:
            raise core.ToolError("vacuity: no client frame of kind(s) %s was seen" % missing)
        cov = {"states": max(1, mc.distinct), "transitions": max(1, mc.generated), "traces_validated_against_impl": len(plans) + len(aplans),
               "samples": [{"frame_kind": k, "count": n} for k, n in sorted(kinds.items())][:20],
               "evaluations": nclient, "distinct_nontrivial": nclient,
               "rule": "every DISTINCT frame written by the client (the blob table de-duplicates) in %d whole connections (TLC-drawn configurations x conforming servers, plus a sweep of client name / domain / user / password over 23 "
                       "classes: empty, 1..64 code points, 2-byte, 3-byte, surrogate pairs, mixed, at the 15/16/17-unit boundary; screen sizes 0..65535; ids at their boundaries; both reported server versions) and %d activation/input runs, "
                       "decoded by WireClient.tla / WireNla.tla" % (len(plans), len(aplans)),
               "frames_by_kind": kinds, "binding_selftest_rejected": tested, "checker_cmd": mc.cmd}
        return v.finish("model_checking", cov, [
            "WireClient.tla / WireNla.tla are my transcription of MS-RDPBCGR, T.125, T.124, X.691, X.690, MS-NLMP, MS-CSSP; cross-checked against the captured vectors in the repository's tests (MC_Wire)",
            "uncompressedLength of the share data header: three deployed conventions are accepted",
            "zero padding after the disconnect-provider ultimatum is tolerated (noted as drift)",
            "the sealed TSCredentials are opened and parsed under C17 (needs the session keys)"])
    finally:
        core.cleanup(wd)


def _write_plans(wd, plans):
    p = os.path.join(wd, "aplans.ndjson")
    activation.write_plans(p, plans)
    return p
