"""C11 - user input is transmitted exactly once, in order, with exact values.
Every recorded write / try_write call must be an Input step of Activation.tla: in the active
session exactly one input PDU whose decoded (WireClient.tla) event equals the submission."""
import json
import os
import random
from .. import core, activation, selftest

BOUND = [0, 1, 2, 3, 0x7f, 0x80, 0xff, 0x100, 0x101, 0x7ffe, 0x7fff, 0x8000, 0x8001, 0xfffe, 0xffff,
         0xe000, 0xe01d, 0xe038, 0xe048, 0xe0ff, 0xe100, 0xe11d, 0xdfff, 0x1d, 0x38, 0x45, 0x54, 0x5b, 0x15b]   # extended-key prefixes of toolkits


def sweep_plans(tier, rng):
    """value sweeps: each of x, y, code over its domain (boundaries + sample in quick, all in thorough)"""
    vals = list(range(65536)) if tier == "thorough" else sorted(set(BOUND + [rng.randrange(65536) for _ in range(1500)]))
    plans = []
    chunk = 512
    for field in ("x", "y", "code"):
        for c in range(0, len(vals), chunk):
            steps = activation.happy_prefix()
            for k, val in enumerate(vals[c:c + chunk]):
                if field == "code":
                    steps.append({"in": {"api": "write", "dev": "key", "code": val, "down": k % 2 == 0}})
                else:
                    e = {"api": "write" if k % 3 else "try_write", "dev": "ptr", "b": k % 4, "down": (k // 4) % 2 == 0}
                    e[field] = val
                    steps.append({"in": e})
            plans.append({"id": "sweep-%s-%d" % (field, c), "steps": steps})
    return plans, len(vals)


def corruptions():
    def first(evs, pred, start=0):
        for i in range(start, len(evs)):
            if pred(evs[i]):
                return i
        return None
    sent = lambda e: e["ev"] == "input" and len(e["w"]) == 1
    def wrong_x(evs):
        i = first(evs, lambda e: sent(e) and e["e"]["t"] == "ptr")
        if i is None: return None
        evs[i]["e"]["x"] = (evs[i]["e"]["x"] + 1) % 65536; return evs
    def wrong_button(evs):
        i = first(evs, lambda e: sent(e) and e["e"]["t"] == "ptr")
        if i is None: return None
        evs[i]["e"]["b"] = (evs[i]["e"]["b"] + 1) % 4; return evs
    def wrong_press(evs):
        i = first(evs, lambda e: sent(e) and e["e"]["t"] == "key")
        if i is None: return None
        evs[i]["e"]["down"] = not evs[i]["e"]["down"]; return evs
    def dropped_pdu(evs):
        i = first(evs, sent)
        if i is None: return None
        evs[i]["w"] = []; return evs
    def duplicated_pdu(evs):
        i = first(evs, sent)
        if i is None: return None
        evs[i]["w"] = evs[i]["w"] * 2; return evs
    def reordered(evs):
        i = first(evs, sent)
        j = first(evs, lambda e: sent(e) and e["w"] != evs[i]["w"], (i or 0) + 1) if i is not None else None
        if i is None or j is None: return None
        evs[i]["w"], evs[j]["w"] = evs[j]["w"], evs[i]["w"]; return evs
    def bitmap_accepted(evs):
        i = first(evs, lambda e: e["ev"] == "input" and e["e"]["t"] == "bmp")
        if i is None: return None
        evs[i]["res"] = "ok"; return evs
    return [("wrong_x", wrong_x), ("wrong_button", wrong_button), ("wrong_press", wrong_press), ("dropped_pdu", dropped_pdu),
            ("duplicated_pdu", duplicated_pdu), ("reordered", reordered), ("bitmap_accepted", bitmap_accepted)]


def run(tier, seed):
    v = core.Verdict("C11", tier, seed)
    wd = core.workdir("C11")
    rng = random.Random(seed)
    try:
        mc = activation.model_check(wd)
        depth = 3
        gen, hists = activation.generate(wd, depth, module="Gen_Input")
        if len(hists) < 5000:
            raise core.ToolError("Gen_Input produced only %d plans" % len(hists))
        plans = [{"id": "g%d" % k, "steps": activation.happy_prefix() + h} for k, h in enumerate(hists)]
        nsim = 60 if tier == "quick" else 3000
        sim, walks = activation.generate(wd, 6, simulate="num=%d" % nsim, seed=seed, module="Gen_Input")
        for k, h in enumerate(walks):
            plans.append({"id": "walk%d" % k, "steps": activation.happy_prefix() + h})
        # events refused (or dropped by the lenient write) outside the window must leave no trace: submissions before the
        # first activation, between a deactivate-all and the re-activation, then accepted events - each accepted event
        # is one PDU carrying exactly that event
        ins = [{"in": {"api": "write", "dev": "ptr", "x": 7, "y": 9, "b": 1, "down": True}}, {"in": {"api": "try_write", "dev": "key", "code": 48, "down": True}},
               {"in": {"api": "try_write", "dev": "ptr", "x": 8, "y": 1, "b": 0, "down": False}}, {"in": {"api": "write", "dev": "key", "code": 30, "down": False}}]
        hp = activation.happy_prefix()
        for k in range(12 if tier == "quick" else 200):
            pre = [dict(rng.choice(ins)) for _ in range(rng.randint(1, 3))]
            mid = [dict(rng.choice(ins)) for _ in range(rng.randint(1, 3))]
            cut = rng.randint(0, len(hp) - 1)
            steps = pre + hp[:cut] + [dict(rng.choice(ins))] + hp[cut:] + [dict(x) for x in ins[:2]] + [{"srv": {"kind": "DeactivateAll"}}] + mid + hp + [dict(x) for x in ins[2:]]
            plans.append({"id": "refused%d" % k, "steps": steps})
        sw, nvals = sweep_plans(tier, rng)
        plans += sw
        self_plan = {"id": "selftest", "uid": 1004, "steps": activation.happy_prefix() + [
            {"in": {"api": "write", "dev": "ptr", "x": 10, "y": 20, "b": 1, "down": True}},
            {"in": {"api": "write", "dev": "key", "code": 30, "down": True}},
            {"in": {"api": "write", "dev": "bmp"}},
            {"in": {"api": "try_write", "dev": "ptr", "x": 11, "y": 21, "b": 2, "down": False}}]}
        plans.append(self_plan)
        pp = os.path.join(wd, "plans.ndjson")
        activation.write_plans(pp, plans)
        trace, blobs, decoded, dec = activation.run_and_decode(wd, pp, seed, v=v, key="input:abort")
        activation.check_server_blobs(blobs, dec)
        accepted, rejects = core.tv_all("Trace_Activation", trace, decoded, wd, shards=8)
        activation.report_rejects(v, rejects, "input")
        lines = [l for l in open(trace).read().split("\n") if l.strip()]
        runs = core.split_runs(lines)
        tested = []
        if not rejects and not v.violations:
            st = [lines[s:e] for (s, e) in runs if json.loads(lines[s]).get("run") == "selftest"]
            tested = selftest.run("Trace_Activation", st[0], decoded, wd, corruptions())
        n_inputs = sum(1 for l in lines if '"ev":"input"' in l)
        distinct_inputs = len({l for l in lines if '"ev":"input"' in l})
        cov = {"states": mc.distinct, "transitions": mc.generated, "traces_validated_against_impl": accepted,
               "samples": [{"plan_id": plans[7]["id"], "events": [json.loads(x) for x in lines[runs[7][0] + 5:runs[7][0] + 9]]}],
               "evaluations": n_inputs, "distinct_nontrivial": distinct_inputs,
               "rule": "every behaviour of Gen_Input (TLC) with %d steps over {4 buttons x 2 states, key x 2, unsendable kind} x {write, try_write} and 3 server letters, "
                       "%d random walks of 6, and value sweeps of x, y, scancode over %d values each (%s); evaluations = input calls validated, distinct = distinct (call, result, wire) triples" % (
                           depth, len(walks), nvals, "all 65536" if tier == "thorough" else "15 boundaries + 1500 seeded samples"),
               "events_validated": len(lines), "binding_selftest_rejected": tested, "checker_cmd": mc.cmd}
        return v.finish("model_checking", cov, [
            "a button-less pointer event carries MOVE, plus DOWN exactly when it was submitted as pressed (the press state must be encoded)",
            "eventTime is not constrained", "server traffic in these runs is well formed"])
    finally:
        core.cleanup(wd)
