"""C01 - NLA releases credentials only after the server proves the session key.
MC: CredSSP.tla (symbolic terms, whole catalogue of last-round replies).  TV: every catalogue
member, concretised by the independent NTLM server over real TLS, against the real
Connector::connect; Trace_Rdp.tla re-derives the session keys from the wire (Ntlm!Verify), decides
with Ntlm!Unwrap / X509!SubjectPublicKey whether the reply proves the key, and accepts the run only
if (proves and sealed well-formed credentials follow) or (not proves and connect fails with no
further byte from the client)."""
import json
import os
import random
from .. import core, conn, selftest


def base_plan(cfgs, k, ident, final):
    c = dict(cfgs[k % len(cfgs)])
    cps = [83, 51, 99, 114, 8364, 116, 45, 48 + k % 10, 65 + k % 26]
    cfg = {"api": "connector", "mask": 0, "nla": True, "check": False, "admin": c["admin"], "blank": c["blank"], "auto": False, "hash": c["hash"],
           "domain": [100, 111, 109], "user": [117, 115, 101, 114], "password": cps, "name": [118, 104], "w": 800, "h": 600, "layout": "us"}
    srv = {"reply": {"kind": "rsp", "sel": [2, 0, 0, 0], "flags": 0}, "ident": ident, "mode": "full", "uid": 1004,
           "account": {"domain": cfg["domain"], "user": cfg["user"], "password": cps}, "final": final, "activations": 0}
    return {"cfg": cfg, "srv": srv, "inputs": [], "shutdown": False}


def plans_for(tier, rng):
    cfgs = [{"admin": a, "blank": b, "hash": h} for a in (False, True) for b in (False, True) for h in (False, True)]
    # RSA leaves of the test CA, a self-signed RSA certificate, and two Ed25519 leaves whose raw public key begins with
    # 0xff / 0xfe: there "public key + 1" carries into the second byte (RSA keys begin with 0x30 and never carry)
    idents = ["leaf", "leaf2", "selfsigned", "edff", "edfe"]
    finals = [{"kind": "honest"}, {"kind": "padded"}]
    finals += [{"kind": "offset", "k": k} for k in (0, 2, 3, -1, 256, -256, 65536, 255, 257, -255, -257, 511, 65535)]
    finals += [{"kind": "other_cert", "other": o} for o in ("leaf", "leaf2", "selfsigned")]
    finals += [{"kind": k} for k in ("wrong_key", "wrong_direction", "bad_seq", "bad_sig_version", "reflect", "plain_key", "plain_inc", "empty", "absent", "wrong_field", "ber_long")]
    finals += [{"kind": "bad_checksum", "i": i} for i in range(8)]
    finals += [{"kind": "plain_prefix", "n": n} for n in (0, 1, 2, 135, 269, 270)] + [{"kind": "plain_suffix", "n": n} for n in (1, 2, 16)]
    finals += [{"kind": "extended", "n": n} for n in (1, 2, 16, 255)]
    # several bytes of the signature altered at once (a comparison that accumulates differences wrongly - xor instead of
    # or, a sum, a sorted or last-byte-only compare - lets exactly such replies through): the same bit flipped in two
    # checksum bytes, two checksum bytes swapped, a constant checksum, the same bit in two bytes of the sealed value
    pairs = [(i, j) for i in range(8) for j in range(i + 1, 8)]
    finals += [{"kind": "token_xor", "xor": [[4 + i, 1 << b], [4 + j, 1 << b]]} for (i, j) in pairs for b in ((0, 7) if tier == "quick" else range(8))]
    finals += [{"kind": "token_xor", "swap": [4 + i, 4 + j]} for (i, j) in (pairs[::3] if tier == "quick" else pairs)]
    finals += [{"kind": "token_xor", "fill": v} for v in (0, 255)]
    finals += [{"kind": "token_xor", "xor": [[16 + i, 1 << (i % 8)], [17 + 2 * i, 1 << (i % 8)]]} for i in range(0, 120, 8 if tier == "quick" else 1)]
    finals += [{"kind": "token_xor", "xor": [[12, 1], [4 + i, 1]]} for i in range(8)]
    # the CHALLENGE may leave out options the client asked for; whatever it selects, only a server knowing the password
    # can prove the key: forgery attempts under weakened option sets (no extended session security, no key exchange,
    # no 128-bit, no sign / seal)
    weak = []
    # (the key-exchange option is left alone: without it MS-NLMP derives the session key differently, which is C15's
    # business; the client under test always exchanges a key)
    for name, clear in (("noess", 0x00080000), ("no128", 0x20000000), ("nosign", 0x00000010), ("noseal", 0x00000020), ("noess_no128", 0x20080000)):
        weak.append(({"kind": "forge_noess"}, name, 0xE28A8235 & ~clear))
        weak.append(({"kind": "offset", "k": 2}, name, 0xE28A8235 & ~clear))
        weak.append(({"kind": "other_cert", "other": "leaf2"}, name, 0xE28A8235 & ~clear))
    plans = []
    k = 0
    for (f, name, flags) in weak:
        for ci in (0, 3, 5):
            p = base_plan(cfgs, ci, "leaf", f)
            p["id"] = "weak-%s-%s-%d" % (name, f["kind"], ci)
            p["srv"]["ntlm_flags"] = flags
            plans.append(p)
    for f in finals:
        for ident in idents:
            if f.get("kind") == "other_cert" and f["other"] == ident:
                continue
            for rep in range(2 if tier == "quick" else 24):
                p = base_plan(cfgs, k, ident, f)
                p["id"] = "cat%d" % k
                plans.append(p); k += 1
    # one authentication context (the x224 API takes it from the caller) serving two handshakes in a row: the second one
    # draws its own session key, so what the first server learnt proves nothing to the second connection
    for j, (f1, f2) in enumerate([({"kind": "honest"}, {"kind": "honest"}), ({"kind": "offset", "k": 2}, {"kind": "honest"}), ({"kind": "honest"}, {"kind": "wrong_key"}), ({"kind": "honest"}, {"kind": "bad_checksum", "i": 3})]):
        for adm in (False, True):
            p = base_plan([{"admin": adm, "blank": False, "hash": False}], 40 + j, "leaf", f1)
            p["cfg"].update({"api": "x224", "mask": 3})
            p["srv"]["mode"] = "negox"
            p["id"] = "reuse%d-%d" % (j, adm)
            q = json.loads(json.dumps(p))
            q["srv"]["final"] = f2
            # every other pair: the second server negotiates the OEM character set (the first one UNICODE) - what the
            # first handshake negotiated must leave no trace in the second
            if j % 2 == 0:
                q["srv"]["ntlm_flags"] = 0xE28A8234 | 2
            p["then"] = {"cfg": q["cfg"], "srv": q["srv"]}
            plans.append(p)
    # families: every single-bit flip of the honest reply, every truncation of token and of the request
    nbytes = 310        # the honest TSRequest is 0x30 0x82 len ... about 300 bytes with a 2048-bit key
    for i in range(nbytes * 8):
        p = base_plan(cfgs, k, idents[:2][i % 2], {"kind": "bitflip", "i": i})
        p["id"] = "bit%d" % i
        plans.append(p); k += 1
    for n in range(0, 300, 1 if tier == "thorough" else 3):
        p = base_plan(cfgs, k, "leaf", {"kind": "truncated", "n": n}); p["id"] = "trunc%d" % n; plans.append(p); k += 1
        p = base_plan(cfgs, k, "leaf", {"kind": "cut", "n": n}); p["id"] = "cut%d" % n; plans.append(p); k += 1
    return plans


def corruptions_refused():
    def first(evs, pred):
        for i, e in enumerate(evs):
            if pred(e):
                return i
        return None
    def creds_after_bad_reply(evs, donor):
        i = first(evs, lambda e: e["ev"] == "c_rest")
        if i is None: return None
        evs[i] = {"ev": "c_der", "chan": "tls", "blob": donor}; return evs
    def ok_after_bad_reply(evs):
        i = first(evs, lambda e: e["ev"] == "ret")
        if i is None: return None
        evs[i]["res"] = "ok"; return evs
    def bytes_after_bad_reply(evs):
        i = first(evs, lambda e: e["ev"] == "c_rest")
        if i is None: return None
        evs[i]["b"] = [48, 3, 1, 2, 3]; return evs
    return creds_after_bad_reply, [("ok_after_bad_reply", ok_after_bad_reply), ("bytes_after_bad_reply", bytes_after_bad_reply)]


def corruptions_honest():
    def first(evs, pred):
        for i, e in enumerate(evs):
            if pred(e):
                return i
        return None
    def refused_honest(evs):
        i = first(evs, lambda e: e["ev"] == "s_write" and e.get("label") == "TsReqPubKeyAuth")
        if i is None: return None
        return evs[:i + 1] + [{"ev": "c_rest", "chan": "tls", "b": [], "end": "eof"}, {"ev": "ret", "api": "connect", "res": "err", "ek": "PossibleMITM", "server_up": False}]
    def other_certificate(evs):
        i = first(evs, lambda e: e["ev"] == "tls")
        if i is None: return None
        evs[i]["cert"][300] ^= 1; return evs
    def creds_before_proof(evs):
        idx = [i for i, e in enumerate(evs) if e["ev"] == "c_der"]
        j = first(evs, lambda e: e["ev"] == "s_write" and e.get("label") == "TsReqPubKeyAuth")
        if len(idx) < 3 or j is None: return None
        e = evs.pop(idx[2]); evs.insert(j, e); return evs
    return [("refused_honest", refused_honest), ("other_certificate", other_certificate), ("creds_before_proof", creds_before_proof)]


def run(tier, seed):
    v = core.Verdict("C01", tier, seed)
    wd = core.workdir("C01")
    rng = random.Random(seed)
    try:
        mc = core.tlc("MC_CredSSP", wd=wd, workers=4, coverage=True, timeout=300)
        core.require_clean_mc(mc, "MC_CredSSP", ("SendNegotiate", "RecvChallenge", "SendAuthenticate", "SendCredentials"))
        plans = plans_for(tier, rng)
        st_h = base_plan([{"admin": False, "blank": False, "hash": False}], 1, "leaf", {"kind": "honest"}); st_h["id"] = "selftest-honest"
        st_r = base_plan([{"admin": False, "blank": False, "hash": False}], 2, "leaf", {"kind": "offset", "k": 2}); st_r["id"] = "selftest-refused"
        plans += [st_h, st_r]
        trace, blobs, decoded, dec = conn.run_plans(wd, plans, "c01", v=v, key="credssp:abort")
        accepted, rejects = core.tv_all("Trace_Rdp", trace, decoded, wd, shards=8, max_rejects=6, overrides=True)
        byid = {p["id"]: p for p in plans}
        for r in rejects:
            evs = [json.loads(x) for x in r["run_events"]]
            ev = json.loads(r["event"])
            p = byid[evs[0]["run"].split("#")[0]]
            f = evs[0]["srv"]["final"]
            what = "c_der" if ev.get("ev") == "c_der" else ev.get("ev")
            key = "credssp:%s:%s:%s" % (f["kind"], what, ev.get("res", ev.get("end", "")))
            v.violation(key, "run %s (final reply %s, certificate %s, admin=%s blank=%s hash=%s): event %s has no matching action of Rdp.tla / fails an invariant%s" % (
                evs[0]["run"], f, p["srv"]["ident"], p["cfg"]["admin"], p["cfg"]["blank"], p["cfg"]["hash"], r["event"][:200], (" (" + r["what"] + ")") if r["what"] else ""),
                {"plan": p, "events": [x[:2500] for x in r["run_events"]], "tlc": r["tlc_tail"]})
        lines = [l for l in open(trace).read().split("\n") if l.strip()]
        runs = core.split_runs(lines)
        tested = []
        if not rejects and not v.violations:
            sh = [lines[s:e] for (s, e) in runs if json.loads(lines[s]).get("run") == "selftest-honest"][0]
            sr = [lines[s:e] for (s, e) in runs if json.loads(lines[s]).get("run") == "selftest-refused"][0]
            donor = [json.loads(x) for x in sh if '"ev":"c_der"' in x][2]["blob"]
            mk, cors = corruptions_refused()
            cors = [("creds_after_bad_reply", lambda evs: mk(evs, donor))] + cors
            tested = selftest.run("Trace_Rdp", sr, decoded, wd, cors, overrides=True)
            tested += selftest.run("Trace_Rdp", sh, decoded, wd, corruptions_honest(), overrides=True)
        proved = sum(1 for l in lines if '"ev":"c_der"' in l) - 2 * len(runs)
        cov = {"states": mc.distinct, "transitions": mc.generated, "traces_validated_against_impl": accepted,
               "samples": [{"final_reply": plans[7]["srv"]["final"], "certificate": plans[7]["srv"]["ident"], "events": [json.loads(x).get("ev") for x in lines[runs[7][0]:runs[7][1]]]}],
               "evaluations": len(plans), "distinct_nontrivial": len({json.dumps([p["srv"]["final"], p["srv"]["ident"], p["cfg"]["admin"], p["cfg"]["blank"], p["cfg"]["hash"]], sort_keys=True) for p in plans}),
               "rule": "catalogue of last-round replies (honest, numerically equal padded, offsets 0/2/3/-1/+-256/65536/255/257, key of each other certificate, wrong session key, wrong direction, reflection, unsealed key, bad checksum x8, bad sequence, "
                       "bad signature version, empty, absent, wrong field, BER long form, extensions, correctly sealed prefixes of the value and the value followed by extra bytes) x 3 certificates x 8 credential modes; EVERY single-bit flip of the honest TSRequest (%d), truncations of the token and of the request at %s offsets; "
                       "each over a real TLS + NTLMv2 handshake; distinct = distinct (reply, certificate, mode)" % (310 * 8, "all" if tier == "thorough" else "every third"),
               "replies_after_which_credentials_were_sent": max(0, proved), "binding_selftest_rejected": tested, "checker_cmd": mc.cmd}
        return v.finish("model_checking", cov, [
            "CredSSP version 2 semantics (public key + 1); the verdict 'proves' is computed by TLC from the bytes on the wire: strict DER (WireNla), Ntlm!Unwrap under keys derived by Ntlm!Verify from the account's NT hash, X509!SubjectPublicKey of the certificate the TLS peer presented",
            "numerically equal values with extra high-order zero bytes count as the honest value",
            "MD4/MD5/HMAC-MD5/RC4 are Java primitives called by TLC"])
    finally:
        core.cleanup(wd)
