"""C07 - hostile server bytes during NLA never crash the client.
Faults.tla single faults (every byte, every 16/32-bit window at its boundaries, every truncation,
extensions) on the CHALLENGE token, on the TSRequest envelopes of both server rounds and on the
sealed pubKeyAuth token, pairs and random corruption; structured variants (every AV pair id 0..0x10 and
0xffff, missing timestamp, missing end-of-list, empty / absent / doubled token lists, length and
offset fields at their boundaries); all short byte strings at the four parser entries; and a
sample of the same faults through the whole cssp_connect over real TLS.  Outcomes observed by the
harness, accepted by Trace_Faults / Trace_Rdp."""
import json
import os
import random
import re
from .. import core, faults, conn, selftest


def variants():
    out = []
    ids = list(range(0, 0x11)) + [0xffff, 0x100, 0x8000]
    for i in ids:
        out.append({"entry": "challenge", "variant": {"ti": [[i, 4], [7, 8]]}})
        out.append({"entry": "challenge", "variant": {"ti": [[7, 8], [i, 0]]}})
    out.append({"entry": "challenge", "variant": {"ti": [[1, 4], [2, 4]]}})                       # no timestamp
    out.append({"entry": "challenge", "variant": {"ti": []}})                                     # only EOL
    out.append({"entry": "challenge", "variant": {"ti": [], "no_eol": True}})                     # empty target info
    out.append({"entry": "challenge", "variant": {"ti": [[7, 8]], "no_eol": True}})               # no EOL
    out.append({"entry": "challenge", "variant": {"ti": [[7, 0]]}})                               # empty timestamp
    out.append({"entry": "challenge", "variant": {"ti": [[7, 7]]}})
    out.append({"entry": "challenge", "variant": {"ti": [[7, 400], [1, 400], [2, 400]]}})
    # target info so long that the NT response echoing it (16 + 28 + target info) reaches / passes the 16-bit length fields
    # of the AUTHENTICATE message (target info = n + 20 bytes)
    for n in (0x7f00, 0xff00, 0xffbe, 0xffbf, 0xffc0, 0xffd0, 0xffdc, 0xffea, 0xffeb):
        out.append({"entry": "challenge", "variant": {"ti": [[7, 8], [2, n]]}})
        out.append({"entry": "challenge", "variant": {"ti": [[2, n], [7, 8]]}})
    for fl in (0, 1, 0x02000000, 0xE28A8235 & ~0x02000000, 0xffffffff, 0xE28A8234):
        out.append({"entry": "challenge", "variant": {"ti": [[7, 8]], "flags": fl}})
    # (len, maxlen, offset) triples: TargetName at 12, TargetInfo at 40 (offset field at +4)
    for at in (12, 14, 40, 42):
        for val in (0, 1, 2, 0x7fff, 0x8000, 0xffff, 200, 1000):
            out.append({"entry": "challenge", "variant": {"ti": [[7, 8]], "poke16": [[at, val]]}})
    for at in (16, 44):
        for val in (0, 1, 47, 48, 55, 56, 57, 100, 0x7fffffff, 0x80000000, 0xffffffff, 0xfffffff0):
            out.append({"entry": "challenge", "variant": {"ti": [[7, 8]], "poke32": [[at, val]]}})
    for ts in ("empty_tokens", "no_tokens", "two_tokens", "token_not_octets", "big_version"):
        out.append({"entry": "ts_challenge", "variant": {"ts": ts}})
    return out


def run(tier, seed):
    v = core.Verdict("C07", tier, seed)
    wd = core.workdir("C07")
    rng = random.Random(seed)
    try:
        vh = core.build_harness()
        regs_f = os.path.join(wd, "regions.ndjson")
        rc, err = core.run_harness(vh, "nlafault", ["--dump-regions", regs_f])
        if rc != 0:
            raise core.ToolError("dump-regions failed: " + err[-500:])
        regs = [json.loads(l) for l in open(regs_f)]
        pairs, gen = faults.gen(wd, regs, tier == "thorough")
        byid = {r["id"]: r for r in regs}
        plans = []
        for (rid, f) in pairs:
            r = byid[rid]
            plans.append({"entry": r["entry"], "layer": r["layer"], "faults": [f]})
        for r in regs:      # truncations of the full regions
            for k in range(r["len"], r["full_len"]):
                plans.append({"entry": r["entry"], "layer": r["layer"], "faults": [{"op": "trunc", "at": k}]})
        sets = [p for p in plans if p["faults"][0]["op"].startswith("set")]
        for _ in range(4000 if tier == "quick" else 400000):
            a, b = rng.choice(sets), rng.choice(sets)
            if a["entry"] == b["entry"] and a["layer"] == b["layer"]:
                plans.append({"entry": a["entry"], "layer": a["layer"], "faults": [a["faults"][0], b["faults"][0]]})
        for _ in range(3000 if tier == "quick" else 1000000):
            r = rng.choice(regs)
            plans.append({"entry": r["entry"], "layer": r["layer"], "faults": [{"op": "set8", "off": rng.randrange(r["full_len"]), "v": rng.randrange(256)} for _ in range(rng.randint(1, 6))]})
        # absurd lengths in the length field of every element of both TSRequests (every depth), at the parser entries
        for e in ("ts_challenge", "ts_validate"):
            for idx in range(0, 12):
                for lf in ([0x88] + [0xff] * 8, [0x88, 0x7f] + [0xff] * 7, [0x84, 0xff, 0xff, 0xff, 0xff], [0x84, 0x10, 0, 0, 0], [0x80], [0x82, 0xff, 0xff], [0x81, 0]):
                    plans.append({"entry": e, "layer": "all", "faults": [{"op": "derlen", "idx": idx, "bytes": lf}]})
        plans += variants()
        shorts = [[]] + [[a] for a in range(256)] + ([[a, b] for a in range(256) for b in range(256)] if tier == "thorough" else [[rng.randrange(256), rng.randrange(256)] for _ in range(2000)])
        for s in shorts:
            for e in ("challenge", "ts_challenge", "ts_validate", "unwrap"):
                plans.append({"entry": e, "raw": s})
        for e in ("ts_challenge", "ts_validate"):
            for n in (70, 600, 4000, 16000, 32700):
                plans.append({"entry": e, "raw": [0x30, 0x80] * n})
                plans.append({"entry": e, "raw": [0x30, 0x80, 0xa0, 0x80] * (n // 2)})
        for e in ("ts_challenge", "ts_validate"):
            for k2 in (16, 24, 28, 32, 40, 48, 56, 60, 63, 64):
                for unit in ([0x30, 0x80], [0x30, 0x80, 0xa0, 0x80]):
                    plans.append({"entry": e, "raw": unit * (k2 * 2 // len(unit))})
            # identifier octets in long / non-minimal / primitive form in front of absurd lengths
            for tg in ([0x30], [0x3f, 0x10], [0x3f, 0x80, 0x10], [0x1f, 0x80, 0x10], [0x1f, 0x10], [0xbf, 0x80, 0x00], [0x3f, 0x80]):
                for lf in ([0x88] + [0xff] * 8, [0x84, 0xff, 0xff, 0xff, 0xff], [0x80], [20], [0x89] + [0xff] * 9):
                    plans.append({"entry": e, "raw": tg + lf + [0xa0, 3, 2, 1, 2] + [0x41] * 20})
                    for nz in (13, 200, 201):
                        plans.append({"entry": e, "raw": tg + lf + [0] * nz})
        for i, p in enumerate(plans):
            p["id"] = "n%d" % i
        plans.append({"id": "selftest", "entry": "challenge", "layer": "all", "faults": [{"op": "set8", "off": 3, "v": 0}]})
        pp = os.path.join(wd, "plans.ndjson")
        with open(pp, "w") as f:
            for p in plans:
                f.write(json.dumps(p, separators=(",", ":")) + "\n")
        trace, blobs = os.path.join(wd, "trace.ndjson"), os.path.join(wd, "blobs.ndjson")
        faults.run_with_watchdog(v, vh, "nlafault", ["--plans", pp, "--trace", trace, "--blobs", blobs], wd, plans)
        accepted, rejects = core.tv_all("Trace_Faults", trace, "/dev/null", wd, shards=8, max_rejects=15)
        pid = {p["id"]: p for p in plans}
        for r in rejects:
            ev = json.loads(r["event"])
            run_id = json.loads(r["run_events"][0]).get("run")
            p = pid.get(run_id, {})
            ekn = re.sub(r"\d+", "#", ev.get("ek", "").split("(")[0])[:60]
            cls = "%s:%s:%s" % (p.get("entry"), ev.get("res"), ekn if ev.get("res") == "panic" else "alloc")
            v.violation("nla:" + cls, "plan %s: entry %s with %s: %s/%s, peak allocation %s for %s bytes" % (
                run_id, p.get("entry"), {k: p[k] for k in p if k not in ("id", "entry")}, ev.get("res"), ev.get("ek", "")[:100], ev.get("peak"), ev.get("sent")), {"plan": p, "event": ev})
        lines = [l for l in open(trace).read().split("\n") if l.strip()]
        runs = core.split_runs(lines)
        tested = []
        if not rejects and not v.violations:
            sl = [lines[s:e] for (s, e) in runs if json.loads(lines[s]).get("run") == "selftest"][0]
            def panic(evs): evs[1]["res"] = "panic"; return evs
            def alloc(evs): evs[1]["peak"] = 10 ** 9; return evs
            tested = selftest.run("Trace_Faults", sl, "/dev/null", wd, [("panic", panic), ("alloc", alloc)])
        # the same kinds of fault through the whole cssp_connect over real TLS (x224 API, Hybrid selected)
        cplans = []
        base_cfg = {"api": "x224", "mask": 3, "nla": True, "check": False, "admin": False, "blank": False, "auto": False, "hash": False,
                    "domain": [100], "user": [117], "password": [112, 119, 100, 49, 50, 51], "name": [97], "w": 800, "h": 600, "layout": "us"}
        base_srv = {"reply": {"kind": "rsp", "sel": [2, 0, 0, 0], "flags": 0}, "ident": "leaf", "mode": "negox", "uid": 1004,
                    "account": {"domain": [100], "user": [117], "password": [112, 119, 100, 49, 50, 51]}}
        sample = rng.sample([p for p in plans if p.get("entry") == "ts_challenge" and p.get("layer") in ("all", "token") and "faults" in p], 250 if tier == "quick" else 5000)
        for i, p in enumerate(sample):
            srv = dict(base_srv)
            if p["layer"] == "all":
                srv["challenge_faults"] = p["faults"]
            else:
                srv["challenge_faults"] = [dict(f, off=f["off"] + 23) if "off" in f else f for f in p["faults"]]
            cplans.append({"id": "t%d" % i, "cfg": base_cfg, "srv": srv})
        for i in range(250 if tier == "quick" else 5000):
            srv = dict(base_srv)
            srv["final"] = {"kind": "faulted", "faults": [rng.choice(sets)["faults"][0]]}
            cplans.append({"id": "u%d" % i, "cfg": base_cfg, "srv": srv})
        # the outer DER length of both server TSRequests re-encoded in every definite long form, announcing the honest
        # size, off-by-one sizes and sizes no message can have: a reader that sizes a buffer by the announced length
        # before the bytes have arrived asks for memory out of proportion to what was received
        def lenforms(n):
            out = []
            for v in (n, n + 1, n - 1, 0, 0xffff, 0x10000, 0x7fffffff, 0x10000000, 0xffffffff):
                for k in (1, 2, 3, 4):
                    if v < 256 ** k:
                        out.append([0x80 + k] + [(v >> (8 * (k - 1 - i))) & 255 for i in range(k)])
            return out + [[0x80], [0x88] + [0xff] * 8, [0xff]]
        # ... and the same absurd lengths planted in the length field of EVERY element of the structure, at every depth
        for target in ("challenge_faults", "final"):
            for idx in range(1, 12):
                for lf in ([0x88] + [0xff] * 8, [0x84, 0xff, 0xff, 0xff, 0xff], [0x84, 0x10, 0, 0, 0], [0x80], [0x82, 0xff, 0xff]):
                    srv = dict(base_srv)
                    f = [{"op": "derlen", "idx": idx, "bytes": lf}]
                    if target == "final":
                        srv["final"] = {"kind": "faulted", "faults": f}
                    else:
                        srv["challenge_faults"] = f
                    cplans.append({"id": "nest-%s-%d-%d" % (target[:5], idx, len(lf)), "cfg": base_cfg, "srv": srv})
        for target in ("challenge_faults", "final"):
            for j, lf in enumerate(lenforms(300)):          # the honest requests are 0x30 0x82 hi lo ... (between 256 and 65535 bytes)
                srv = dict(base_srv)
                f = [{"op": "splice", "at": 1, "del": 3, "bytes": lf}]
                if target == "final":
                    srv["final"] = {"kind": "faulted", "faults": f}
                else:
                    srv["challenge_faults"] = f
                cplans.append({"id": "len-%s-%d" % (target[:5], j), "cfg": base_cfg, "srv": srv})
        # a reply announcing more than it delivers (or cut short), and the server hanging up right behind it
        for target in ("challenge", "final"):
            for mode in ("notify", "abrupt"):
                for j, f in enumerate(([{"op": "splice", "at": 1, "del": 3, "bytes": [0x82, 0xff, 0xff]}], [{"op": "splice", "at": 1, "del": 3, "bytes": [0x84, 0, 1, 0, 0]}],
                                       [{"op": "trunc", "at": 2}], [{"op": "trunc", "at": 4}], [{"op": "trunc", "at": 40}], [{"op": "trunc", "at": 1}], [])):
                    srv = dict(base_srv)
                    srv["close_after"] = target; srv["close_mode"] = mode
                    if target == "final":
                        srv["final"] = {"kind": "faulted", "faults": f}
                    else:
                        srv["challenge_faults"] = f
                    cplans.append({"id": "hup-%s-%s-%d" % (target[:5], mode, j), "cfg": base_cfg, "srv": srv})
        ctrace, cblobs, cdecoded, cdec = conn.run_plans(wd, cplans, "c07tls", v=v, key="nla:cssp_connect:abort")
        tls_out = {}
        cur_run = None
        cbyid = {p["id"]: p for p in cplans}
        for l in open(ctrace):
            if '"ev":"reset"' in l:
                cur_run = json.loads(l).get("run")
            if '"api":"connect"' in l:
                e = json.loads(l)
                e["run"] = cur_run
                e["plan_srv"] = {k: val for k, val in cbyid.get(cur_run, {}).get("srv", {}).items() if k in ("challenge_faults", "final", "close_after", "close_mode")}
                tls_out[e["res"]] = tls_out.get(e["res"], 0) + 1
                if e.get("maxreq", 0) > 1 << 20:
                    v.violation("nla:cssp_connect:alloc", "cssp_connect over TLS: a single allocation of %d bytes was requested while the server had sent less than 2 KiB (largest legitimate buffer: 64 KiB)" % e["maxreq"], {"event": e})
                if e["res"] not in ("ok", "err"):
                    v.violation("nla:cssp_connect:%s:%s" % (e["res"], re.sub(r"\d+", "#", e.get("ek", "").split("(")[0])[:60]), "cssp_connect over TLS with a faulted server TSRequest: %s/%s" % (e["res"], e.get("ek", "")[:120]), {"event": e})
        outcomes = {}
        for l in lines:
            if '"ev":"nla"' in l:
                e = json.loads(l)
                k = "%s:%s" % (e["entry"], e["res"])
                outcomes[k] = outcomes.get(k, 0) + 1
        cov = {"evaluations": len(plans) + len(cplans), "distinct_nontrivial": len({json.dumps({k: p[k] for k in p if k != "id"}, sort_keys=True) for p in plans}) + len(cplans),
               "rule": "single faults of Faults!Descs (TLC: %d descriptors) on the NTLM CHALLENGE, the TSRequest envelopes of both server rounds and the sealed token, truncations, pairs, random corruption; %d structured variants (AV ids 0..0x10/0xffff, "
                       "missing timestamp / end-of-list, flag sets, (len, maxlen, offset) boundaries, token list shapes); all byte strings of length <= %s at 4 entries; %d whole cssp_connect runs over TLS with faulted replies; distinct = distinct plans" % (
                           len(pairs), len(variants()), "2" if tier == "thorough" else "1 (+2000 of length 2)", len(cplans)),
               "samples": [plans[9], plans[-20]], "outcomes_by_entry": outcomes, "cssp_connect_outcomes": tls_out, "binding_selftest_rejected": tested}
        return v.finish("fault_enumeration", cov, [
            "panic / hang / abort / allocation are observed by the harness (catch_unwind, watchdog, socket timeouts, counting allocator); the specification supplies the enumeration and the acceptance rule",
            "allocation bound: 256 KiB + 64 x bytes received", "dev profile (overflow checks on)"])
    finally:
        core.cleanup(wd)
