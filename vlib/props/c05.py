"""C05 - hostile server bytes during connection setup never crash the client.
Every single fault of Faults.tla on every region of every server reply of the setup conversation
(X.224 connection confirm; MCS connect response: frame / BER / GCC / data blocks; attach-user and
channel-join confirms; licence: frame / user data / licensing packet, both variants), pairs of
faults, injected into the real x224 / mcs / sec connect calls; all byte strings up to a small length
at the parser entry points.  Outcomes are observed by the harness and accepted by Trace_Faults."""
import json
import os
import random
import re
from .. import core, faults, selftest


def run(tier, seed):
    v = core.Verdict("C05", tier, seed)
    wd = core.workdir("C05")
    rng = random.Random(seed)
    try:
        vh = core.build_harness()
        regs_f = os.path.join(wd, "regions.ndjson")
        rc, err = core.run_harness(vh, "setup", ["--dump-regions", regs_f])
        if rc != 0:
            raise core.ToolError("dump-regions failed: " + err[-500:])
        regs = [json.loads(l) for l in open(regs_f)]
        pairs, gen = faults.gen(wd, regs, tier == "thorough")
        byid = {r["id"]: r for r in regs}
        plans = []
        for i, (rid, f) in enumerate(pairs):
            r = byid[rid]
            plans.append({"id": "f%d" % i, "stage": r["stage"], "layer": r["layer"], "faults": [f], "uid": rng.choice([1004, 1001, 65535])})
        sets = [p for p in plans if p["faults"][0]["op"].startswith("set")]
        for k in range(4000 if tier == "quick" else 300000):
            a = rng.choice(sets)
            b = rng.choice(sets)
            if a["stage"] == b["stage"] and a["layer"] == b["layer"]:
                plans.append({"id": "p%d" % k, "stage": a["stage"], "layer": a["layer"], "faults": [a["faults"][0], b["faults"][0]], "uid": 1004})
        # seeded random corruption
        for k in range(2000 if tier == "quick" else 1000000):
            r = rng.choice(regs)
            fs = []
            for _ in range(rng.randint(1, 6)):
                fs.append({"op": "set8", "off": rng.randrange(max(1, r["len"])), "v": rng.randrange(256)})
            plans.append({"id": "r%d" % k, "stage": r["stage"], "layer": r["layer"], "faults": fs, "uid": 1004})
        # short / odd frames in place of each reply: the framing layer's own length arithmetic (TPKT length 0..8, fast-path
        # short and long length forms announcing less than their own header, first bytes that start neither kind of frame)
        k = 0
        for st in ("cc", "cresp", "attach", "join", "licence"):
            for b0 in (0, 1, 2, 3, 4, 0x7f, 0x80, 0xfc, 0xff):
                for b1 in (0, 1, 2, 3, 4, 0x7f, 0x80, 0x81, 0x82, 0xff):
                    for b2 in (0, 1, 2, 3, 4, 5, 7, 8, 0x7f, 0x80, 0xff):
                        for tail in ([], [0, 0, 0, 0], [b2] * 20):
                            if tier == "quick" and st not in ("cc", "attach") and (k % 3):
                                k += 1; continue
                            plans.append({"id": "s%d" % k, "stage": st, "layer": "frame", "faults": [{"op": "trunc", "at": 0}, {"op": "append", "bytes": [b0, b1, b2] + tail}], "uid": 1004})
                            k += 1
        # the outer BER length of the MCS connect response in every definite long form (honest size, off by one, sizes no
        # message can have, more length octets than a size can need) and the indefinite form
        n0 = [r for r in regs if r["stage"] == "cresp" and r["layer"] == "ber"][0]["len"] - 4
        forms = []
        for val in (n0, n0 + 1, n0 - 1, 0, 0xffff, 0x10000, 0x7fffffff, 0xffffffff):
            for kk in (1, 2, 3, 4):
                if val < 256 ** kk:
                    forms.append([0x80 + kk] + [(val >> (8 * (kk - 1 - i))) & 255 for i in range(kk)])
        forms += [[0x80], [0x88] + [0xff] * 8, [0x88, 0, 0, 0, 0, 0, 0, 0, n0 & 255], [0xff], [0x85, 1, 0, 0, 0, 0]]
        for j, lf in enumerate(forms):
            plans.append({"id": "berlen%d" % j, "stage": "cresp", "layer": "berlen", "faults": [{"op": "trunc", "at": 0}, {"op": "append", "bytes": lf}], "uid": 1004})
        # every value of the first MCS byte (PDU type and, for the disconnect ultimatum, the top bits of the reason) with
        # both values of the bit that continues the reason in the next byte, in place of every reply that is an MCS PDU
        for r in regs:
            if r["layer"] != "mcs":
                continue
            for b0 in range(256):
                for b1 in (0x00, 0x80):
                    plans.append({"id": "mcs0-%s-%d-%d" % (r["stage"], b0, b1), "stage": r["stage"], "layer": "mcs", "faults": [{"op": "set8", "off": 0, "v": b0}, {"op": "set8", "off": 1, "v": b1}], "uid": 1004})
        for st in ("licence", "licence_new"):
            for b0 in range(256):
                for b1 in (0x00, 0x80):
                    plans.append({"id": "mcs0-%s-%d-%d" % (st, b0, b1), "stage": st, "layer": "frame", "faults": [{"op": "set8", "off": 7, "v": b0}, {"op": "set8", "off": 8, "v": b1}], "uid": 1004})
        # nesting as deep as a frame can hold: indefinite-length constructed elements (2 bytes a level) and definite ones
        # (4 bytes a level) in place of the connect response - the reader's recursion has to be bounded by depth, not by input
        def nest_def(levels):
            inner = []
            for _ in range(levels):
                n = len(inner)
                inner = [0x30, 0x82, n >> 8, n & 255] + inner if n < 65536 else inner
            return inner
        for j, body in enumerate([[0x30, 0x80] * n for n in (70, 600, 4000, 16000, 24000, 32700)] + [[0x7f, 0x66, 0x80] + [0x30, 0x80] * n for n in (4000, 16000, 32700)] + [nest_def(n) for n in (70, 700, 8000, 16000)] +
                                 [[0x7f, 0x66, 0x82, (7990 * 4) >> 8, (7990 * 4) & 255] + nest_def(7990)]):
            plans.append({"id": "nest%d" % j, "stage": "cresp", "layer": "ber", "faults": [{"op": "trunc", "at": 0}, {"op": "append", "bytes": body}], "uid": 1004})
        # identifier octets in every form (X.690 8.1.2): the usual two-octet application tag, the same tag number with
        # non-minimal continuation octets, as a primitive element, other classes, a tag cut short - each followed by every
        # length form of the list above (the honest length, sizes no message can have, 2^64 - 1, the indefinite form)
        tags = [[0x7f, 0x66], [0x5f, 0x66], [0x7f, 0x80, 0x66], [0x5f, 0x80, 0x66], [0x7f, 0x80, 0x80, 0x80, 0x66], [0x5f, 0x80, 0x80, 0x66], [0x1f, 0x66], [0x3f, 0x66], [0xbf, 0x66], [0xff, 0x66],
                [0x7f, 0xe6, 0x00], [0x7f, 0xff, 0xff, 0xff, 0xff, 0x7f], [0x7f, 0x80], [0x7f], [0x1f, 0x80, 0x80]]
        for ti, tg in enumerate(tags):
            for j, lf in enumerate(forms + [[90], [0x81, 90], [0x88, 0, 0, 0, 0, 0, 0, 0, 90], [0x89] + [0xff] * 9, [0x84, 0x7f, 0xff, 0xff, 0xff]]):
                plans.append({"id": "tag%d-%d" % (ti, j), "stage": "cresp", "layer": "ber", "faults": [{"op": "trunc", "at": 0}, {"op": "append", "bytes": tg + lf + [(7 * i) % 256 for i in range(90)]}], "uid": 1004})
                # ... and followed by zero bytes (end-of-contents octets: whatever a scanner that lost its place takes for
                # the length, what follows still looks like well-formed elements to it), even and odd counts
                if len(lf) >= 5:
                    for nz in (93, 200, 201, 1000):
                        plans.append({"id": "tagz%d-%d-%d" % (ti, j, nz), "stage": "cresp", "layer": "ber", "faults": [{"op": "trunc", "at": 0}, {"op": "append", "bytes": tg + lf + [0] * nz}], "uid": 1004})
        # exponential work: k nested indefinite-length elements for k below the depth limit (a reader that walks both the
        # nested content and the same bytes again as siblings doubles its work at every level)
        for k2 in (16, 24, 28, 32, 40, 48, 56, 60, 63, 64):
            for unit in ([0x30, 0x80], [0x30, 0x80, 0xa0, 0x80]):
                plans.append({"id": "exp%d-%d" % (k2, len(unit)), "stage": "cresp", "layer": "ber", "faults": [{"op": "trunc", "at": 0}, {"op": "append", "bytes": unit * (k2 * 2 // len(unit))}], "uid": 1004})
        # licensing error alerts in every combination of error code x state transition, with error blobs of every small size
        # (even, odd, empty) and of 255 / 1 000 bytes - every length field consistent with the bytes really sent
        def le16(x): return [x & 255, (x >> 8) & 255]
        def le32(x): return [x & 255, (x >> 8) & 255, (x >> 16) & 255, (x >> 24) & 255]
        for code in (1, 2, 3, 4, 6, 7, 8, 0xb, 0xc, 5, 0):
            for tr in (1, 2, 3, 4, 0):
                for nb in (0, 1, 2, 3, 4, 5, 8, 9, 255, 1000):
                    for btype in (4, 0):
                        if btype == 0 and nb not in (0, 3):
                            continue
                        blob = [(65 + i) % 256 if i % 2 == 0 else 0 for i in range(nb)]
                        body = le32(code) + le32(tr) + le16(btype) + le16(nb) + blob
                        pkt = le16(0x0080) + le16(0) + [0xff, 0x03] + le16(4 + len(body)) + body
                        plans.append({"id": "lic-%d-%d-%d-%d" % (code, tr, nb, btype), "stage": "licence", "layer": "user", "faults": [{"op": "trunc", "at": 0}, {"op": "append", "bytes": pkt}], "uid": 1004})
        # a server that gives the user the id of the I/O channel (1003) - and answers the joins consistently: nothing a
        # conforming server does (the conformance checks exclude it), something a hostile one may
        for st in ("attach", "join", "licence", "licence_new"):
            plans.append({"id": "uid1003-%s" % st, "stage": st, "layer": "frame", "faults": [], "uid": 1003})
        for j, q in enumerate(rng.sample([x for x in plans if x["id"].startswith("f")], 300)):
            plans.append(dict(q, id="uid1003-f%d" % j, uid=1003))
        plans.append({"id": "selftest", "stage": "attach", "layer": "mcs", "faults": [{"op": "set8", "off": 1, "v": 1}], "uid": 1004})
        pp = os.path.join(wd, "plans.ndjson")
        with open(pp, "w") as f:
            for p in plans:
                f.write(json.dumps(p, separators=(",", ":")) + "\n")
        trace, blobs = os.path.join(wd, "trace.ndjson"), os.path.join(wd, "blobs.ndjson")
        faults.run_with_watchdog(v, vh, "setup", ["--plans", pp, "--trace", trace, "--blobs", blobs], wd, plans)
        accepted, rejects = core.tv_all("Trace_Faults", trace, "/dev/null", wd, shards=8, max_rejects=15)
        pid = {p["id"]: p for p in plans}
        for r in rejects:
            ev = json.loads(r["event"])
            run_id = json.loads(r["run_events"][0]).get("run")
            p = pid.get(run_id, {})
            ekn = re.sub(r"\d+", "#", ev.get("ek", "").split("(")[0])[:50]
            cls = "%s:%s:%s:%s" % (p.get("stage"), p.get("layer"), ev.get("res"), ekn if ev.get("res") == "panic" else "alloc")
            v.violation("setup:" + cls, "plan %s: %s reply (layer %s) with faults %s: the connect call gave %s/%s, peak allocation %s for %s bytes received" % (
                run_id, p.get("stage"), p.get("layer"), p.get("faults"), ev.get("res"), ev.get("ek", "")[:90], ev.get("peak"), ev.get("sent")), {"plan": p, "event": ev})
        lines = [l for l in open(trace).read().split("\n") if l.strip()]
        runs = core.split_runs(lines)
        tested = []
        if not rejects and not v.violations:
            sl = [lines[s:e] for (s, e) in runs if json.loads(lines[s]).get("run") == "selftest"][0]
            def panic(evs): evs[1]["res"] = "panic"; return evs
            def alloc(evs): evs[1]["peak"] = 10 ** 9; return evs
            tested = selftest.run("Trace_Faults", sl, "/dev/null", wd, [("panic", panic), ("alloc", alloc)])
        # parser entry points with every short input
        outp = os.path.join(wd, "entries.json")
        rc, err = core.run_harness(vh, "setup", ["--entries", "2" if tier == "quick" else "3", "--out", outp], timeout=3000)
        if rc != 0:
            v.violation("setup:entries:abort", "the driver died while enumerating short inputs at the parser entries: " + err[-300:], {})
            ent = {"evaluations": 0, "offenders": []}
        else:
            ent = json.loads(open(outp).read())
        for off in ent["offenders"]:
            v.violation("setup:entry:" + off["kind"][:80], "%s on input %s: %s" % (off["entry"], off["data"], off["what"][:120]), {"case": off})
        outcomes = {}
        stages = {}
        for l in lines:
            if '"ev":"setup"' in l:
                e = json.loads(l)
                outcomes[e["res"]] = outcomes.get(e["res"], 0) + 1
                stages[e["stage"]] = stages.get(e["stage"], 0) + 1
        cov = {"evaluations": len(plans) + ent["evaluations"], "distinct_nontrivial": len({json.dumps([p["stage"], p["layer"], p["faults"]], sort_keys=True) for p in plans}) + ent["evaluations"],
               "rule": "every single fault of Faults!Descs (TLC: %d descriptors: every byte with %s values, every 16-bit LE/BE window with 31 boundary values, every 32-bit window with 12, every truncation point, extensions) on %d regions of the 6 setup replies, "
                       "pairs of faults, seeded random multi-byte corruption, each through the real connect calls; + all byte strings of length <= %s at 9 parser entries (gcc::read_conference_create_response, license::client_connect, per::read_*); "
                       "distinct = distinct (stage, layer, faults)" % (len(pairs), "all 256" if tier == "thorough" else "32 boundary", len(regs), "3" if tier == "thorough" else "2"),
               "samples": [plans[17], plans[len(pairs) + 5]], "outcomes": outcomes, "runs_by_stage": stages, "parser_entry_evaluations": ent["evaluations"], "binding_selftest_rejected": tested}
        return v.finish("fault_enumeration", cov, [
            "panic / hang / abort / allocation are observed by the harness (catch_unwind, watchdog, counting allocator); the specification supplies the fault enumeration and the acceptance rule",
            "allocation bound: 256 KiB + 64 x bytes received", "dev profile (overflow checks on)"])
    finally:
        core.cleanup(wd)
