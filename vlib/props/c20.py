"""C20 - the GUI receive thread keeps up with the server and stops with the session.
GuiThread.tla (PlusCal): TLC checks NoStall, ForwardedInOrder, StopsWithSession, KeepsUp for the
required design and, as a documented experiment, for the constants that describe the code as read.
Binding: the real launch_rdp_thread (binary source included) over real TLS against scenario scripts
derived from the model's scripts; each recorded run must be a behaviour of the required design
(Trace_GuiThread.tla, Rx / Gui steps composed as silent steps)."""
import json
import os
import random
from .. import core

GUI = os.path.join(core.ROOT, "harness-gui")
MODES = ["ultimatum", "notify", "abrupt", "bad_rdp", "bad_io"]


def scenarios(tier, rng):
    packs = {
        "one_per_record": [{"rec": [["bmp", 1]]}, {"rec": [["bmp", 2]]}],
        "two_in_one": [{"rec": [["bmp", 1], ["bmp", 2]]}],
        "three_in_one": [{"rec": [["bmp", 1], ["bmp", 2], ["bmp", 3]]}],
        "split": [{"rec": [["part1", 1]], "nowait": True}, {"pause": 30}, {"rec": [["part2", 1], ["bmp", 2]]}],
        "mixed": [{"rec": [["bmp", 1]]}, {"rec": [["bmp", 2], ["bmp", 3]]}, {"rec": [["bmp", 4]]}],
        "none": [],
        # one PDU carrying three rectangles: all three are forwarded, in wire order
        "multi_rect": [{"rec": [["bmp3", 1]]}, {"rec": [["bmp", 4]]}, {"rec": [["bmp3", 5]]}],
        # a burst the server does not wait on, the end of the session right behind it: everything sent before the end
        # is still forwarded, then the thread stops
        "burst": [{"rec": [["bmp", 1]], "nowait": True}, {"rec": [["bmp", 2]], "nowait": True}, {"rec": [["bmp3", 3]], "nowait": True}, {"rec": [["bmp", 6]], "nowait": True}],
        # silence between records: the thread has to stay blocked in its wait, however long, and pick up what comes next
        "paused": [{"rec": [["bmp", 1]]}, {"pause": 700}, {"rec": [["bmp", 2]]}, {"pause": 1300}, {"rec": [["bmp", 3]]}],
        # an update of a kind the library does not implement in front of the bitmap update of the same PDU
        "other_then_bitmap": [{"rec": [["obmp", 1], ["bmp", 2]]}, {"rec": [["obmp", 3]]}],
    }
    out = []
    k = 0
    # data decrypted before the thread exists; activation performed by the thread itself with the whole finalisation and
    # the first bitmaps in one TLS record
    specials = {
        "preload": {"preload": [["ctl", "errinfo"], ["bmp", 1]], "steps": [{"observe": 1}, {"rec": [["bmp", 2]]}]},
        "preload_only": {"preload": [["ctl", "errinfo"], ["bmp", 1]], "steps": [{"observe": 1}, {"pause": 100}]},
        "late_activation": {"late_activation": True, "steps": [{"rec": [["ctl", "da"]]}, {"rec": [["ctl", "sync"], ["ctl", "coop"], ["ctl", "granted"], ["ctl", "fontmap"], ["bmp", 1], ["bmp", 2]]}, {"rec": [["bmp", 3]]}]},
        "reactivation": {"steps": [{"rec": [["bmp", 1]]}, {"rec": [["ctl", "deact"], ["ctl", "da"]], "nowait": True}, {"pause": 200},
                                   {"rec": [["ctl", "sync"], ["ctl", "coop"], ["ctl", "granted"], ["ctl", "fontmap"], ["bmp", 2]]}]},
    }
    for pn, sp in specials.items():
        if pn == "reactivation":
            continue        # a demand-active in the same record as the deactivate-all is outside the class the client handles (see Activation.tla)
        for m in ("ultimatum", "abrupt"):
            st = json.loads(json.dumps(sp["steps"])) + [{"end": m}]
            sc = {"id": "sp%d" % k, "pack": pn, "mode": m, "input": 0, "steps": st}
            for key in ("preload", "late_activation"):
                if key in sp:
                    sc[key] = sp[key]
            out.append(sc); k += 1
    # the PDU that ends the session in the SAME record as PDUs in front of it, the server silent afterwards (socket open)
    for pn, pre, withp in (("end_in_record", [], [["bmp", 1]]), ("end_in_record_3", [{"rec": [["bmp", 1]]}], [["bmp", 2], ["bmp3", 3]]), ("end_in_record_ctl", [], [["ctl", "errinfo"]])):
        for m in ("in_record_ultimatum", "in_record_bad_rdp", "in_record_bad_io"):
            out.append({"id": "ir%d" % k, "pack": pn, "mode": m, "input": 0, "steps": json.loads(json.dumps(pre)) + [{"end": m, "with": withp}]}); k += 1
    # the same packings on a session reached through NLA (Hybrid selected): the layers below are the same TLS link
    for pn in ("two_in_one", "three_in_one", "multi_rect", "mixed"):
        for m in ("ultimatum", "abrupt"):
            out.append({"id": "nla%d" % k, "pack": pn + "_nla", "nla": True, "mode": m, "input": 0, "steps": json.loads(json.dumps(packs[pn])) + [{"end": m}]}); k += 1
    out.append({"id": "nla%d" % k, "pack": "end_in_record_nla", "nla": True, "mode": "in_record_ultimatum", "input": 0, "steps": [{"end": "in_record_ultimatum", "with": [["bmp", 1], ["bmp", 2]]}]}); k += 1
    # a GUI thread that takes the shared mutex as often as it can while records of 250 PDUs arrive: the receive thread may
    # have to WAIT for the mutex, never conclude from a busy mutex that nothing is pending
    # (4 records: TLC prints the accepted behaviour, whose states hold the whole list of forwarded bitmaps; the thorough
    # tier repeats every scenario ten times)
    out.append({"id": "busy%d" % k, "pack": "contended", "mode": "ultimatum", "input": 0, "quiet_ms": 1500,
                "steps": [{"busy": True}] + [{"rec": [["bmps", 1 + 250 * r, 250]]} for r in range(4)] + [{"end": "ultimatum"}]}); k += 1
    # the session ends in the middle of a PDU of more than 16 KiB (a reader that collects large PDUs piecewise must notice
    # the end of the stream there too), with and without a complete PDU in front
    for m in ("notify", "abrupt"):
        for pre in ([], [{"rec": [["bmp", 1]]}]):
            out.append({"id": "cut%d" % k, "pack": "cut_in_big_pdu", "mode": m, "input": 0, "steps": json.loads(json.dumps(pre)) + [{"rec": [["part1", 7, "big"]], "nowait": True}, {"pause": 50}, {"end": m}]}); k += 1
    for pn, steps in packs.items():
        for m in MODES:
            for inp in ([0] if tier == "quick" and pn not in ("two_in_one", "mixed") else [0, 5]):
                st = json.loads(json.dumps(steps))
                if inp:
                    st.insert(0, {"input": inp})
                # the session may also end between two records (protocol points)
                st.append({"end": m})
                out.append({"id": "sc%d" % k, "pack": pn, "mode": m, "input": inp, "steps": st})
                k += 1
    reps = 1 if tier == "quick" else 10
    seeded = []
    for r in range(reps):
        for s in out:
            t = json.loads(json.dumps(s))
            t["id"] = "%s-r%d" % (s["id"], r)
            if r > 0:   # randomised pauses between the steps
                st = []
                for x in t["steps"]:
                    if rng.random() < 0.5:
                        st.append({"pause": rng.randrange(0, 40)})
                    st.append(x)
                t["steps"] = st
            seeded.append(t)
    return seeded


def sent_so_far(r):
    evs = [json.loads(x) for x in r["run_events"]]
    return [i for e in evs[:r["event_index_in_run"] + 1] if e["ev"] == "srv_record" for p in e["pdus"] if p[0] in ("bmp", "part2", "bmp3", "obmp") for i in ([p[1], p[1] + 1, p[1] + 2] if p[0] == "bmp3" else [p[1]])]


def selftest20(wd, lines):
    """binding self-test: corrupted copies of an accepted run (a forwarded bitmap missing / out of order / never sent,
    the thread reported finished while the session is alive) must be rejected by Trace_GuiThread"""
    runs = core.split_runs(lines)
    base = None
    for (s, e) in runs:
        evs = [json.loads(x) for x in lines[s:e]]
        q = [x for x in evs if x["ev"] == "quiet"]
        if any(x["ev"] == "joined" for x in evs) and q and len(q[-1]["fwd"]) >= 2 and sum(1 for x in evs if x["ev"] == "srv_record") == 2:
            base = evs; break
    if base is None:
        raise core.ToolError("binding self-test: no accepted run with two records and a clean end found")
    def mut(f):
        evs = json.loads(json.dumps(base)); return f(evs)
    def fwd_missing(evs):
        for x in evs:
            if x["ev"] == "quiet": x["fwd"] = x["fwd"][:-1] if x["fwd"] else x["fwd"]
        return evs
    def fwd_reordered(evs):
        q = [x for x in evs if x["ev"] == "quiet"][-1]; q["fwd"] = [q["fwd"][1], q["fwd"][0]] + q["fwd"][2:]; return evs
    def fwd_phantom(evs):
        q = [x for x in evs if x["ev"] == "quiet"][-1]; q["fwd"] = q["fwd"] + [99]; return evs
    def joined_while_alive(evs):
        i = next(k for k, x in enumerate(evs) if x["ev"] == "quiet"); evs.insert(i + 1, {"ev": "joined", "clean": True}); return evs
    def duplicate_forward(evs):
        q = [x for x in evs if x["ev"] == "quiet"][-1]; q["fwd"] = q["fwd"] + [q["fwd"][-1]]; return evs
    names = [("fwd_missing", fwd_missing), ("fwd_reordered", fwd_reordered), ("fwd_phantom", fwd_phantom), ("joined_while_alive", joined_while_alive), ("duplicate_forward", duplicate_forward)]
    tp = os.path.join(wd, "selftest.trace.ndjson")
    with open(tp, "w") as f:
        for n, fn in names:
            evs = mut(fn); evs[0]["run"] = "self-" + n
            for x in evs:
                f.write(json.dumps(x, separators=(",", ":")) + "\n")
    acc, rej = core.tv_runs_reach("Trace_GuiThread", tp, wd)
    rejected = {json.loads(r["run_events"][0]).get("run")[5:] for r in rej}
    return core.forward_selftest([(n, n in rejected) for n, _ in names])


def run(tier, seed):
    v = core.Verdict("C20", tier, seed)
    wd = core.workdir("C20")
    rng = random.Random(seed)
    try:
        vg = core.build_harness(crate=GUI, binname="vhgui")
        mc = core.tlc("MC_GuiThread", cfg="MC_GuiThread_tls_aware_any_error.cfg", wd=wd, workers=4, coverage=True, timeout=600)
        core.require_clean_mc(mc, "MC_GuiThread")
        exps = {}
        for name in ("raw_rdp_error_only", "raw_any_error", "tls_aware_rdp_error_only"):
            e = core.tlc("MC_GuiThread", cfg="MC_GuiThread_%s.cfg" % name, wd=wd, workers=4, timeout=600)
            exps[name] = e.violated
        scs = scenarios(tier, rng)
        sp, trace = os.path.join(wd, "scenarios.ndjson"), os.path.join(wd, "trace.ndjson")
        with open(sp, "w") as f:
            for s in scs:
                f.write(json.dumps(s, separators=(",", ":")) + "\n")
        rc, out = core.sh([vg, "rx", "--scenarios", sp, "--trace", trace], timeout=3000, stdout=open(os.devnull, "w"))
        if rc != 0:
            raise core.ToolError("rx driver failed rc=%s" % rc)
        txt = open(trace).read()
        if '"ev":"harness_error"' in txt:
            raise core.ToolError("rx driver reported a harness error: " + [l for l in txt.split("\n") if "harness_error" in l][0][:300])
        accepted, rejects = core.tv_runs_reach("Trace_GuiThread", trace, wd)
        byid = {s["id"]: s for s in scs}
        for r in rejects:
            ev = json.loads(r["event"])
            run_id = json.loads(r["run_events"][0]).get("run")
            s = byid.get(run_id, {})
            if ev.get("ev") == "not_joined":
                key = "gui:nojoin:%s" % ev.get("mode")
                what = "the receive thread did not finish within the deadline after the session ended by '%s' (packing %s)" % (ev.get("mode"), s.get("pack"))
            elif ev.get("ev") == "quiet":
                key = ("gui:order:%s" if sorted(ev.get("fwd", [])) == sorted(sent_so_far(r)) and ev.get("fwd") != sent_so_far(r) else "gui:stall:%s") % s.get("pack")
                evs = [json.loads(x) for x in r["run_events"]]
                sent = [i for e in evs[:r["event_index_in_run"] + 1] if e["ev"] == "srv_record" for p in e["pdus"] if p[0] in ("bmp", "part2", "bmp3", "obmp") for i in ([p[1], p[1] + 1, p[1] + 2] if p[0] == "bmp3" else [p[1]])]
                what = "with the server silent only bitmaps %s of %s sent were forwarded (packing %s): a PDU already received waits for further server traffic" % (ev.get("fwd"), sent, s.get("pack"))
            else:
                key = "gui:%s:%s" % (ev.get("ev"), r["what"] or "noaction")
                what = "event %s is no behaviour of the required design" % r["event"][:200]
            v.violation(key, "scenario %s: %s" % (run_id, what), {"scenario": s, "events": r["run_events"], "tlc": r["tlc_tail"]})
        lines = [l for l in txt.split("\n") if l.strip()]
        tested = selftest20(wd, lines) if not v.violations else []
        cov = {"states": mc.distinct, "transitions": mc.generated, "traces_validated_against_impl": accepted,
               "samples": [{"scenario": scs[7], "events": [json.loads(x) for x in lines[:6]]}],
               "evaluations": len(scs), "distinct_nontrivial": len({json.dumps(s["steps"], sort_keys=True) for s in scs}),
               "rule": "packings {one PDU per TLS record, two / three per record, one PDU split over two records, mixed, none, one PDU with three rectangles, a burst with the end right behind it, one per record with 0.7 s / 1.3 s of server silence in between} x end modes {ultimatum, close_notify, abrupt close, undecodable PDU of the library's error kind, of an io kind} x {with, without concurrent input writes}"
                       + ("" if tier == "quick" else " x 10 repetitions with seeded random pauses") + "; distinct = distinct scenarios",
               "as_implemented_model_experiments": exps, "binding_selftest_rejected": tested, "events_validated": len(lines), "checker_cmd": mc.cmd}
        return v.finish("model_checking", cov, [
            "liveness (StopsWithSession, KeepsUp) is checked by TLC on the model under weak fairness of Rx and Gui, no fairness of the server (it may pause for ever); on the implementation it is observed through deadlines: 400 ms without progress = quiet, 1.5 s to join after the end",
            "TLS records = one write of the reference server (OpenSSL emits one record per write below 16 KiB)",
            "an undecodable PDU of the io kind = a TPKT frame too short for the X.224 header"])
    finally:
        core.cleanup(wd)
