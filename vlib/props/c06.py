"""C06 - hostile server bytes during an active session never crash the client.
Faults.tla enumerates every single fault (every byte value / every 16- and 32-bit window at its
boundary values / every truncation point / extensions) of every region of every kind of server PDU;
each is injected in each of the six activation states of a fresh RdpClient.  The harness observes
the outcome (catch_unwind, counting allocator, watchdog); Trace_Activation (THostile) accepts the run
only if the outcome is Ok/Err with bounded allocation and the client either ignored the PDU or
behaved as for SOME well-formed PDU, and the well-formed PDUs that follow are still handled per
Activation.tla."""
import json
import os
import random
from .. import core, activation, selftest

PREFIX = {"WaitDemandActive": [], "WaitSync": ["DA"], "WaitCoop": ["DA", "SYNC"], "WaitGranted": ["DA", "SYNC", "COOP"],
          "WaitFontMap": ["DA", "SYNC", "COOP", "GRANTED"], "Active": ["DA", "SYNC", "COOP", "GRANTED", "FONTMAP"]}
FOLLOW = ["DA", "SYNC", "COOP", "GRANTED", "FONTMAP", "FPBMP", "DEACT"]


def letter(l):
    return {"srv": {"l": l}}


def gen_faults(wd, vh, full):
    regs_raw = os.path.join(wd, "regions.raw.ndjson")
    rc, err = core.run_harness(vh, "activation", ["--dump-regions", regs_raw])
    if rc != 0:
        raise core.ToolError("dump-regions failed: " + err[-500:])
    raw = [json.loads(l) for l in open(regs_raw)]
    # nested regions repeat the same bytes: inner layers get the full catalogue once ("user" = MCS user data, "fp"),
    # the outer headers get it on their own bytes, every layer gets its truncations / extensions (they differ by re-framing)
    regions, meta = [], {}
    for r in raw:
        if r["layer"] in ("user", "fp"):
            ln = r["len"]
        elif r["layer"] == "frame":
            ln = min(r["len"], 16)
        else:
            ln = 0
        rid = len(regions) + 1
        regions.append({"id": rid, "len": ln})
        meta[rid] = dict(r, full_len=r["len"])
    rf = os.path.join(wd, "regions.ndjson")
    with open(rf, "w") as f:
        for r in regions:
            f.write(json.dumps(r) + "\n")
    cfg = os.path.join(wd, "Gen_Faults.cfg")
    open(cfg, "w").write(open(os.path.join(core.SPEC, "Gen_Faults.cfg")).read().replace("Full = FALSE", "Full = %s" % ("TRUE" if full else "FALSE")))
    out = os.path.join(wd, "faultplans.ndjson")
    r = core.tlc("Gen_Faults", cfg=cfg, wd=wd, env={"REGIONS": rf, "FAULTPLANS": out}, timeout=2400, xmx="12g")
    if r.rc != 0:
        raise core.ToolError("Gen_Faults failed:\n" + core.tail(r.out))
    plans = []
    for l in open(out):
        p = json.loads(l)
        m = meta[p["region"]]
        f = p["fault"]
        plans.append({"base": m["base"], "layer": m["layer"], "fault": f, "kind": m["kind"]})
    # truncations / extensions of every layer (TLC's catalogue for a region of the full length, length-changing ops only)
    for rid, m in meta.items():
        for k in range(m["full_len"]):
            plans.append({"base": m["base"], "layer": m["layer"], "fault": {"op": "trunc", "at": k}, "kind": m["kind"]})
        for n in (1, 2, 255, 1500):
            plans.append({"base": m["base"], "layer": m["layer"], "fault": {"op": "extend", "n": n}, "kind": m["kind"]})
    return plans, r


def run(tier, seed):
    v = core.Verdict("C06", tier, seed)
    wd = core.workdir("C06")
    rng = random.Random(seed)
    try:
        vh = core.build_harness()
        mc = activation.model_check(wd)
        faults, gen = gen_faults(wd, vh, tier == "thorough")
        total_faults = len(faults)
        seen = set()
        uniq = []
        for f in faults:
            k = json.dumps(f, sort_keys=True)
            if k not in seen:
                seen.add(k); uniq.append(f)
        faults = uniq
        budget = 45000 if tier == "quick" else 150000
        plans = []
        states = list(PREFIX)
        # every fault in the state that consumes that kind of PDU + a rotating other state; all states in thorough
        natural = {"DA": "WaitDemandActive", "SYNC": "WaitSync", "COOP": "WaitCoop", "GRANTED": "WaitGranted", "FONTMAP": "WaitFontMap"}
        k = 0
        for f in faults:
            sts = states if tier == "thorough" else list({natural.get(f["kind"], "Active"), "Active", states[k % 6]})
            for st in sts:
                plans.append((st, [f]))
            k += 1
        if len(plans) > budget:
            rng.shuffle(plans)
            lenops = [p for p in plans if p[1][0]["fault"]["op"] in ("trunc", "extend")]
            rel = [p for p in plans if p[1][0]["fault"]["op"] == "add8"]
            rest = [p for p in plans if p[1][0]["fault"]["op"] not in ("trunc", "extend", "add8")]
            nl, nr = min(len(lenops), budget // 3), min(len(rel), budget // 5)
            plans = lenops[:nl] + rel[:nr] + rest[:budget - nl - nr]
        # structured variants (Gen_Variants.tla): every defined value (and neighbours) of the enumerated fields, products
        # of the bitmap rectangle fields, update codes x flag bits - well-framed but unusual PDUs, in the active state and
        # in one handshake state
        vf = os.path.join(wd, "variants.ndjson")
        rv = core.tlc("Gen_Variants", wd=wd, env={"VARIANTS": vf}, timeout=900)
        if rv.rc != 0:
            raise core.ToolError("Gen_Variants failed:\n" + core.tail(rv.out))
        variants = [json.loads(l) for l in open(vf)]
        for i, m in enumerate(variants):
            f = {"base": m, "layer": "frame", "fault": {"op": "none"}, "kind": m["l"]}
            plans.append(("Active", [f]))
            plans.append((states[i % 5], [f]))
        # reflection: the client's own frames (confirm active, synchronize, control, font list, input, ultimatum) sent back to
        # it as server traffic - PDU kinds a server never sends, perfectly formed
        for n in range(48):
            f = {"base": {"l": "REFLECT", "n": n}, "layer": "frame", "fault": {"op": "none"}, "kind": "REFLECT"}
            plans.append(("Active", [f]))
            plans.append((states[n % 6], [f]))
        # trains: several well-formed share control PDUs in one MCS user data, in every state (C12 validates their effect in
        # the active state; here: whatever stands in a train, in whatever state, the client survives it)
        tl = [{"kind": "Sync"}, {"kind": "Control", "action": 4}, {"kind": "Control", "action": 2}, {"kind": "FontMap"}, {"kind": "ErrInfo"}, {"kind": "UnknownData", "t2": 38},
              {"kind": "UnknownData", "t2": 2}, {"kind": "SlowBitmap"}, {"kind": "UnknownControl", "ptype": 26}, {"kind": "DeactivateAll"}, {"kind": "DemandActive", "shareId": [7, 7, 7, 7]}]
        trains = [[a, b] for a in tl for b in tl] + [[dict(rng.choice(tl)) for _ in range(rng.randint(3, 5))] for _ in range(40 if tier == "quick" else 2000)]
        for n, items in enumerate(trains):
            f = {"base": {"train": items}, "layer": "frame", "fault": {"op": "none"}, "kind": "TRAIN"}
            plans.append(("Active", [f]))
            plans.append((states[n % 6], [f]))
        # faults on the totalLength of EVERY position of a train (values that make position + length pass 0x10000, 0xffff)
        for ti_, items in enumerate(([{"kind": "ErrInfo"}, {"kind": "Sync"}, {"kind": "ErrInfo"}], [{"kind": "Sync"}, {"kind": "Control", "action": 4}], [{"kind": "UnknownData", "t2": 38}, {"kind": "ErrInfo"}, {"kind": "Sync"}])):
            for off in range(0, 70, 2 if tier == "quick" else 1):
                for val in (0xffff, (0x10000 - off) & 0xffff, (0x10000 - off - 1) & 0xffff, (0x10000 - off + 1) & 0xffff, 0x8000, 0xfffe - off):
                    f = {"base": {"train": items}, "layer": "user", "fault": {"op": "set16le", "off": off, "v": val & 0xffff}, "kind": "TRAIN"}
                    plans.append(("Active", [f]))
        # pairs of faults within one message
        for _ in range(3000 if tier == "quick" else 200000):
            a = rng.choice(faults)
            same = [f for f in (rng.choice(faults) for _ in range(8)) if f["base"] == a["base"] and f["layer"] == a["layer"] and f["fault"]["op"].startswith("set")]
            if same and a["fault"]["op"].startswith("set"):
                plans.append((rng.choice(states), [a, same[0]]))
        # all byte strings up to 2 at the PDU parser entries (as MCS user data, as a whole frame, as fast-path body)
        shorts = [[]] + [[a] for a in range(256)] + ([[a, b] for a in range(256) for b in range(256)] if tier == "thorough" else [[rng.randrange(256), rng.randrange(256)] for _ in range(3000)])
        raw_plans = []
        for s in shorts:
            for (base, layer) in (({"l": "SYNC"}, "user"), ({"l": "FPOTHER", "updates": [{"t": "Other", "code": 5}], "long": False}, "fp"), ({"l": "SYNC"}, "sc"), ({"l": "SYNC"}, "data")):
                raw_plans.append({"base": base, "layer": layer, "replace": s})
        # fast-path frames whose header announces the optional parts (secure checksum 0x40, encrypted 0x80, both) with bodies
        # too short to hold them, every first byte of that kind x body lengths 0..12
        for b0 in (0x40, 0x80, 0xc0, 0x44, 0x41, 0xfc):
            for nb in range(0, 13):
                body = [3, 0, 0, 5, 0, 0, 1, 4, 0, 1, 0, 0][:nb]
                raw_plans.append({"base": {"l": "SYNC"}, "layer": "frame", "replace": [b0, nb + 2] + body, "state": "Active"})
                raw_plans.append({"base": {"l": "SYNC"}, "layer": "frame", "replace": [b0, 0x80, nb + 3] + body, "state": "Active" if nb % 2 else states[nb % 6]})
        out_plans = []
        for i, (st, fs) in enumerate(plans):
            steps = [letter(l) for l in PREFIX[st]]
            h = {"base": fs[0]["base"], "layer": fs[0]["layer"], "faults": [f["fault"] for f in fs]}
            steps.append({"hostile": h})
            steps += [letter(l) for l in FOLLOW[:3 + i % 5]] + [{"in": {"api": "try_write", "dev": "key"}}]
            out_plans.append({"id": "f%d" % i, "uid": 1004, "steps": steps})
        for i, rp in enumerate(raw_plans):
            st = rp.get("state", states[i % 6])
            steps = [letter(l) for l in PREFIX[st]]
            steps.append({"hostile": {"base": rp["base"], "layer": rp["layer"], "faults": [{"op": "trunc", "at": 0}, {"op": "append", "bytes": rp["replace"]}]}})
            steps += [letter(l) for l in FOLLOW[:4]]
            out_plans.append({"id": "s%d" % i, "uid": 1004, "steps": steps})
        out_plans.append({"id": "selftest", "uid": 1004, "steps": [letter(l) for l in PREFIX["WaitCoop"]] + [{"hostile": {"base": {"l": "COOP"}, "layer": "data", "faults": [{"op": "set16le", "off": 0, "v": 9}]}}] + [letter("COOP"), letter("GRANTED"), letter("FONTMAP")]})
        pp = os.path.join(wd, "plans.ndjson")
        activation.write_plans(pp, out_plans)
        trace, blobs, decoded = [os.path.join(wd, x) for x in ("trace.ndjson", "blobs.ndjson", "decoded.ndjson")]
        marker = os.path.join(wd, "progress")
        try:
            rc, err = core.run_harness(vh, "activation", ["--plans", pp, "--trace", trace, "--blobs", blobs, "--seed", str(seed)], timeout=1500, env={"VH_PROGRESS": marker})
        except core.ToolError:
            cur = open(marker).read().strip() if os.path.exists(marker) else "?"
            p = [x for x in out_plans if x["id"] == cur]
            v.violation("hostile:hang", "the client did not return (watchdog) while processing plan %s" % cur, {"plan": p[:1]})
            rc = 0
        if rc != 0:
            cur = open(marker).read().strip() if os.path.exists(marker) else "?"
            p = [x for x in out_plans if x["id"] == cur]
            v.violation("hostile:abort", "the driver process died (rc %s: abort / stack overflow / refused allocation) while processing plan %s: %s" % (rc, cur, err[-300:]), {"plan": p[:1]})
        if v.violations:
            # a killed driver may have stopped in the middle of a line: keep what is complete, without the run in flight
            core.keep_complete_lines(trace, drop_last_run=True)
            core.keep_complete_lines(blobs)
        dec = core.pass_a(blobs, decoded, wd)
        accepted, rejects = core.tv_all("Trace_Activation", trace, decoded, wd, shards=8, max_rejects=12)
        byid = {p["id"]: p for p in out_plans}
        for r in rejects:
            ev = json.loads(r["event"])
            run_id = json.loads(r["run_events"][0]).get("run")
            p = byid.get(run_id, {})
            h = [s["hostile"] for s in p.get("steps", []) if "hostile" in s]
            kind = h[0]["base"].get("l") if h else "?"
            ekn = __import__("re").sub(r"\d+", "#", ev.get("ek", "").split("(")[0])[:50]
            if ev.get("ev") == "hostile":
                cls = "%s:%s:%s:%s" % (kind, h[0]["layer"] if h else "?", ev.get("res"), ekn if ev.get("res") == "panic" else ("alloc" if ev.get("peak", 0) > 4 * 65536 + 64 * ev.get("sent", 0) else "effect"))
            else:
                cls = "%s:after:%s:%s" % (kind, ev.get("ev"), ev.get("res"))
            v.violation("hostile:" + cls, "run %s: after %s the hostile %s PDU (layer %s, faults %s) gave %s/%s in state %s, peak allocation %s for %s bytes sent: no behaviour of Activation.tla (event %s)" % (
                run_id, [s["srv"]["l"] for s in p.get("steps", []) if "srv" in s][:len(p.get("steps", [])) and 6], kind, h[0]["layer"] if h else "?", h[0].get("faults") if h else "?", ev.get("res"), ev.get("ek", "")[:80], ev.get("state"), ev.get("peak"), ev.get("sent"), r["event"][:160]),
                {"plan": p, "events": [x[:1500] for x in r["run_events"]], "tlc": r["tlc_tail"]})
        lines = [l for l in open(trace).read().split("\n") if l.strip()]
        runs = core.split_runs(lines)
        tested = []
        if not rejects and not v.violations:
            def first(evs, pred):
                for i, e in enumerate(evs):
                    if pred(e): return i
                return None
            def panic(evs):
                i = first(evs, lambda e: e["ev"] == "hostile"); evs[i]["res"] = "panic"; return evs
            def alloc(evs):
                i = first(evs, lambda e: e["ev"] == "hostile"); evs[i]["peak"] = 10 ** 8; return evs
            def state_jump(evs):
                i = first(evs, lambda e: e["ev"] == "hostile"); evs[i]["state"] = "Active"; return evs
            def phantom_cb(evs):
                i = first(evs, lambda e: e["ev"] == "hostile"); evs[i]["cb"] = [{"l": 0, "t": 0, "r": 0, "b": 0, "w": 1, "h": 1, "bpp": 32, "comp": False, "data": [1]}]; return evs
            sl = [lines[s:e] for (s, e) in runs if json.loads(lines[s]).get("run") == "selftest"][0]
            tested = selftest.run("Trace_Activation", sl, decoded, wd, [("panic", panic), ("alloc", alloc), ("state_jump", state_jump), ("phantom_cb", phantom_cb)])
        outcomes = {}
        for l in lines:
            if '"ev":"hostile"' in l:
                e = json.loads(l)
                k = e["res"]
                outcomes[k] = outcomes.get(k, 0) + 1
        cov = {"evaluations": len(out_plans), "distinct_nontrivial": len({json.dumps(p["steps"], sort_keys=True) for p in out_plans}),
               "structured_variants": len(variants), "rule": "single faults from Faults!Descs (TLC: %d descriptors over %d regions of 11 reference PDUs: every byte with %s values, every 16-bit window LE and BE with 31 boundary values, every 32-bit window with 12 boundary values, every truncation point, extensions 1/2/255/1500) "
                       "x activation states (%s), pairs of faults, all byte strings of length <= %s at 4 parser entries; each followed by well-formed PDUs; distinct = distinct step sequences" % (
                           total_faults, len(set(json.dumps(f["base"]) + f["layer"] for f in faults)), "all 256" if tier == "thorough" else "32 boundary", "all six" if tier == "thorough" else "the consuming state, Active and one rotating state", "2" if tier == "thorough" else "1 (+3000 of length 2)"),
               "samples": [out_plans[11], out_plans[len(out_plans) // 2]],
               "hostile_outcomes": outcomes, "runs_accepted": accepted, "states": mc.distinct, "transitions": mc.generated, "binding_selftest_rejected": tested}
        return v.finish("fault_enumeration", cov, [
            "that a panic / hang / abort / oversized allocation happened is observed by the harness (catch_unwind, watchdog, counting allocator); the specification supplies the enumeration and the acceptance of everything the client does after the hostile message",
            "allocation bound: 256 KiB (four nested 16-bit length fields) + 64 x bytes received in the hostile frame (live heap growth during the call)",
            "dev profile (overflow checks on)"])
    finally:
        core.cleanup(wd)
