"""C12 - activation state machine: one finalisation per demand-active, input gated.
MC (Activation.tla, all histories) -> Gen (all server sequences of length N, an input attempt of
every kind after every step) -> harness (real RdpClient) -> TV (Trace_Activation)."""
import hashlib
import json
import os
from .. import core, activation, selftest


IN_STEPS = [{"in": i} for i in activation.INPUTS]     # shared by all plans (several 100 000 of them in the thorough tier)


def with_inputs(hist, k):
    steps = list(IN_STEPS)
    for m in hist:
        steps.append({"srv": m})
        steps.extend(IN_STEPS)
    if k % 7 == 0:
        steps.append({"shutdown": True})
    return steps


def corruptions():
    def first(evs, pred):
        for i, e in enumerate(evs):
            if pred(e):
                return i
        return None
    def wrong_state(evs):
        i = first(evs, lambda e: e["ev"] == "srv" and e["state"] == "WaitSync")
        if i is None: return None
        evs[i]["state"] = "WaitCoop"; return evs
    def drop_write(evs):
        i = first(evs, lambda e: e["ev"] == "srv" and len(e["w"]) == 5)
        if i is None: return None
        evs[i]["w"] = evs[i]["w"][:4]; return evs
    def swap_writes(evs):
        i = first(evs, lambda e: e["ev"] == "srv" and len(e["w"]) == 5)
        if i is None: return None
        w = evs[i]["w"]; w[1], w[2] = w[2], w[1]; return evs
    def input_claims_ok(evs):
        i = first(evs, lambda e: e["ev"] == "input" and e["api"] == "write" and e["res"] == "err")
        if i is None: return None
        evs[i]["res"] = "ok"; return evs
    def input_bytes_outside_window(evs):
        i = first(evs, lambda e: e["ev"] == "input" and e["state"] != "Active" and e["e"]["t"] != "bmp")
        j = first(evs, lambda e: e["ev"] == "srv" and len(e["w"]) == 5)
        if i is None or j is None: return None
        evs[i]["w"] = [evs[j]["w"][1]]; return evs
    def dup_callback(evs):
        i = first(evs, lambda e: e["ev"] == "srv" and len(e["cb"]) >= 1)
        if i is None: return None
        evs[i]["cb"] = evs[i]["cb"] + [evs[i]["cb"][-1]]; return evs
    def early_active(evs):
        i = first(evs, lambda e: e["ev"] == "srv" and e["state"] == "WaitFontMap")
        if i is None: return None
        evs[i]["state"] = "Active"; return evs
    def ultimatum_swallowed(evs):
        i = first(evs, lambda e: e["ev"] == "srv" and e.get("ek") == "Disconnect")
        if i is None: return None
        evs[i]["res"] = "ok"; evs[i]["ek"] = ""; return evs
    def offchannel_advances(evs):
        i = first(evs, lambda e: e["ev"] == "srv" and e.get("ek") == "Disconnect")
        j = None if i is None else max(k for k in range(i) if evs[k]["ev"] == "srv")
        if j is None: return None
        evs[j]["state"] = "WaitCoop"; return evs
    def train_deactivate_missed(evs):
        # the train [error info, deactivate-all, synchronize] received in the active state: the window must close
        i = first(evs, lambda e: e["ev"] == "srv" and len(e["cb"]) >= 1)
        j = None if i is None else next((k for k in range(i + 1, len(evs)) if evs[k]["ev"] == "srv"), None)
        if j is None or evs[j]["state"] != "WaitDemandActive": return None
        evs[j]["state"] = "Active"; return evs
    return [("train_deactivate_missed", train_deactivate_missed), ("ultimatum_swallowed", ultimatum_swallowed), ("offchannel_advances", offchannel_advances), ("wrong_state", wrong_state), ("drop_write", drop_write), ("swap_writes", swap_writes),
            ("input_claims_ok", input_claims_ok), ("input_bytes_outside_window", input_bytes_outside_window),
            ("dup_callback", dup_callback), ("early_active", early_active)]


HAPPY = [{"kind": "DemandActive", "shareId": [1, 0, 0, 0]}, {"kind": "Sync"}, {"kind": "Control", "action": 4},
         {"kind": "Control", "action": 2}, {"kind": "FontMap"},
         {"kind": "FastPath", "updates": [{"t": "Bitmap"}], "rects": [{"l": 0, "t": 0, "r": 1, "b": 1, "w": 2, "h": 2, "bpp": 32, "comp": False, "data": [1, 2, 3, 4]}]},
         {"train": [{"kind": "ErrInfo"}, {"kind": "DeactivateAll"}, {"kind": "Sync"}]}, {"kind": "DemandActive", "shareId": [255, 255, 255, 255]},
         {"kind": "Sync", "channel": 1004}, {"kind": "SrvUltimatum"}]


def run(tier, seed):
    v = core.Verdict("C12", tier, seed)
    wd = core.workdir("C12")
    try:
        mc = activation.model_check(wd)
        # unbounded: TLAPS proves the window agreement, the stage correspondence and the delivery / input gates
        # inductive for arbitrary constants (ActivationProofs.tla)
        nproved = core.tlaps("ActivationProofs", wd)
        depth = 3 if tier == "quick" else 4
        gen, hists = activation.generate(wd, depth)
        if len(hists) < 1000:
            raise core.ToolError("Gen_Activation produced only %d plans" % len(hists))
        plans = [{"id": "g%d" % k, "steps": with_inputs(h, k)} for k, h in enumerate(hists)]
        # the straight-line happy path with reactivation, and random long walks of the model
        plans.append({"id": "happy", "uid": 1004, "steps": with_inputs(HAPPY, 0)})
        nsim = 40 if tier == "quick" else 3000
        sim, walks = activation.generate(wd, 60, simulate="num=%d" % nsim, seed=seed)
        for k, h in enumerate(walks):
            plans.append({"id": "walk%d" % k, "steps": with_inputs(h, k)})
        # trains: several slow-path PDUs in one MCS user data, received in the active state (SrvTrain); the window
        # must close on a deactivate-all wherever it stands in the train
        import random as _random
        trng = _random.Random(seed)
        tl = [{"kind": "Sync"}, {"kind": "Control", "action": 4}, {"kind": "Control", "action": 2}, {"kind": "Control", "action": 1}, {"kind": "FontMap"},
              {"kind": "ErrInfo"}, {"kind": "UnknownData", "t2": 38}, {"kind": "UnknownControl", "ptype": 26}, {"kind": "UnknownControl"}, {"kind": "DeactivateAll"}, {"kind": "SlowBitmap"}, {"kind": "DemandActive", "shareId": [7, 7, 7, 7]}]
        for k in range(60 if tier == "quick" else 1500):
            n = trng.choice([2, 2, 3, 4])
            items = [dict(trng.choice(tl)) for _ in range(n)]
            if trng.random() < 0.6:
                items[trng.randrange(n)] = {"kind": "DeactivateAll"}
            seen_deact = False
            for i, it in enumerate(items):           # class: no demand-active after a deactivate-all of the same train
                if it["kind"] == "DeactivateAll": seen_deact = True
                elif it["kind"] == "DemandActive" and seen_deact: items[i] = {"kind": "Sync"}
            # ... and no deactivate-all behind a PDU of an unknown type (the implementation drops the rest of the train there)
            seen_unk = False
            for i, it in enumerate(items):
                if it["kind"] == "UnknownControl": seen_unk = True
                elif it["kind"] == "DeactivateAll" and seen_unk: items[i] = {"kind": "ErrInfo"}
            if k % 5 == 0:     # slow-path bitmap updates on both sides of the deactivate-all: nothing may be delivered behind it
                items = [{"kind": "SlowBitmap"}][:trng.randint(0, 1)] + [{"kind": "DeactivateAll"}] + [{"kind": "SlowBitmap"} for _ in range(trng.randint(1, 2))]
            after = [dict(trng.choice(tl[:11])) for _ in range(trng.randint(0, 2))]
            plans.append({"id": "train%d" % k, "steps": with_inputs(HAPPY[:5] + [{"train": items}] + after + HAPPY[:5], k)})
        # long sessions: the activation cycle repeated many times, the share id constant (xrdp / FreeRDP style) or changing,
        # every capability list variant - each demand-active received while awaiting activation is owed its answer
        bmp = HAPPY[5]
        for k, (same, capv) in enumerate([(s_, c_) for s_ in (True, False) for c_ in (0, 7, 4, 1)]):
            steps = []
            for cyc in range(10):
                sid = [1, 0, 0, 0] if same else [cyc + 1, cyc, 0, 0]
                steps += [{"kind": "DemandActive", "shareId": sid, "capv": capv}] + HAPPY[1:5] + [bmp, {"kind": "DeactivateAll"}]
            plans.append({"id": "cycles%d" % k, "steps": with_inputs(steps, 1)})
        # every pduType2 value a data PDU can carry (the four the automaton knows excepted), in every state: all of them are
        # "unknown data PDU" - none advances the handshake, none opens or closes the window
        for st in range(6):
            for t2 in range(256):
                if t2 in (31, 20, 40, 47):
                    continue
                if tier == "quick" and st not in (4, 5) and t2 % 3:
                    continue
                plans.append({"id": "t2-%d-%d" % (st, t2), "steps": with_inputs(HAPPY[:st] + [{"kind": "UnknownData", "t2": t2}] + HAPPY[st:6], 1)})
        pp = os.path.join(wd, "plans.ndjson")
        activation.write_plans(pp, plans)
        trace, blobs, decoded, dec = activation.run_and_decode(wd, pp, seed, v=v, key="activation:abort")
        sides = activation.blob_sides(blobs)
        bad_srv = [i for i, d in enumerate(dec) if sides[i] == "s" and not d.get("ok")]
        if bad_srv:
            raise core.ToolError("reference peer produced %d frames the server grammar rejects: %s" % (len(bad_srv), dec[bad_srv[0]]))
        accepted, rejects = core.tv_all("Trace_Activation", trace, decoded, wd, shards=8)
        for r in rejects:
            ev = json.loads(r["event"])
            run_id = json.loads(r["run_events"][0]).get("run")
            key = "activation:%s:%s:%s" % (r["kind"], ev.get("ev"), ev.get("state"))
            v.violation(key, "recorded run %s is not a behaviour of Activation (first unmatched event #%d: %s)%s" % (
                run_id, r["event_index_in_run"], r["event"][:300], (" invariant " + r["what"]) if r["what"] else ""),
                {"run": run_id, "events": r["run_events"], "tlc": r["tlc_tail"]})
        # binding self-test on the happy-path run
        lines = [l for l in open(trace).read().split("\n") if l.strip()]
        runs = core.split_runs(lines)
        happy = [lines[s:e] for (s, e) in runs if json.loads(lines[s]).get("run") == "happy"]
        tested = []
        if not rejects and not v.violations:
            tested = selftest.run("Trace_Activation", happy[0], decoded, wd, corruptions())
        nev = len(lines)
        samples = [{"plan": plans[5], "first_events": [json.loads(x) for x in lines[runs[5][0]:runs[5][0] + 6]]}]
        cov = {"states": mc.distinct, "transitions": mc.generated,
               "traces_validated_against_impl": accepted,
               "samples": samples,
               "evaluations": len(plans), "distinct_nontrivial": len({hashlib.md5(json.dumps(p["steps"], sort_keys=True).encode()).digest() for p in plans}),
               "rule": "every behaviour of the Activation model with %d server steps (TLC, exhaustive over one message per letter plus parameter variants) "
                       "+ %d random walks of 60 steps, an input attempt of each of 5 kinds after every step; distinct = distinct step sequences" % (depth, len(walks)),
               "events_validated": nev, "gen_states": gen.distinct, "mc_actions": {k: list(x) for k, x in mc.actions.items()},
               "binding_selftest_rejected": tested, "tlaps_obligations_proved": nproved,
               "checker_cmd": mc.cmd, "exhaustive": True,
               "explanation": "MC: Activation.tla has no history variable, so the invariants hold for server/user histories of every length; TLAPS (ActivationProofs.tla) proves WindowAgreement, AdvanceOnlyOnExpected, BitmapsInWindow and the input gate inductive for arbitrary constant sets. "
                              "TV: every recorded run must be a behaviour of the same module, with client output decoded by WireClient.tla."}
        return v.finish("model_checking", cov, [
            "well-formed server PDUs only (hostile bytes are C06)",
            "one PDU per frame, one frame per read call",
            "the result (Ok/Err) of a read that ignores a PDU is left free; the result of input attempts is not",
            "a deactivate-all during the handshake may either be ignored or restart the handshake (property silent)"])
    finally:
        core.cleanup(wd)
