"""C19 - painting a bitmap into the window buffer is memory-safe and exact.
Blit.tla is the reference; TLC enumerates ALL geometries for small windows (window size, rectangle
in / out of range / inverted, image size) and attaches, for rectangles inside the window with a
sufficient image, the exact list of (destination, source) writes.  The real fast_bitmap_transfer
(included from the binary's source) runs on a window buffer followed by guard words; result buffer,
guards and outcome are compared with the specification's expectation."""
import json
import os
import random
from .. import core

GUI = os.path.join(core.ROOT, "harness-gui")


def gen(wd, maxw, maxh, maxc, maxi):
    cfg = os.path.join(wd, "Gen_Blit.cfg")
    open(cfg, "w").write("INIT Init\nNEXT Next\nCONSTANTS\n  MaxW = %d\n  MaxH = %d\n  MaxC = %d\n  MaxI = %d\nCHECK_DEADLOCK FALSE\n" % (maxw, maxh, maxc, maxi))
    out = os.path.join(wd, "blit.ndjson")
    r = core.tlc("Gen_Blit", cfg=cfg, wd=wd, env={"BLITCASES": out}, timeout=2400, xmx="12g")
    if r.rc != 0:
        raise core.ToolError("Gen_Blit failed:\n" + core.tail(r.out))
    return [json.loads(l) for l in open(out)], r


def bg(p):
    return 0x70000000 + p


def judge(v, c, o, stats):
    n = c["Wd"] * c["Hd"]
    geo = "window %dx%d rect (%d,%d)-(%d,%d) image %dx%d %dbpp%s ddelta %d" % (c["Wd"], c["Hd"], c["l"], c["t"], c["r"], c["b"], c["w"], c["h"], c.get("bpp", 32), " rle" if c.get("comp") else "", c.get("ddelta", 0))
    cls = "inside" if c["inside"] else ("inverted" if (c["r"] < c["l"] or c["b"] < c["t"]) else "outside")
    if o["res"] == "panic":
        v.violation("blit:panic:%s:%s" % (cls, o["ek"].split("(")[0][:40]), "%s: panic '%s'" % (geo, o["ek"][:100]), {"case": c, "got": o})
        return
    if not o["guard_ok"]:
        v.violation("blit:oob-write:%s" % cls, "%s: words behind the window buffer were overwritten (or the buffer length changed)" % geo, {"case": c, "got": o})
        return
    stats[cls + ":" + o["res"]] = stats.get(cls + ":" + o["res"], 0) + 1
    if o["res"] == "ok":
        # Blit!OkPermitted: success is allowed only when every copied row lies inside both buffers (TLC's verdict for
        # the announced image size; the same formula on the length the real decoder produced otherwise)
        n = o.get("decoded_len", c["w"] * c["h"])
        if "okp" in c and n == c["w"] * c["h"] and not c.get("ddelta") and c.get("bpp", 32) == 32:
            permitted = c["okp"]
        else:
            cols = c["r"] - c["l"] + 1
            permitted = c["l"] <= c["r"] and c["t"] <= c["b"] and all((c["t"] + i) * c["Wd"] + c["l"] + cols <= c["Wd"] * c["Hd"] and i * c["w"] + cols <= n for i in range(c["b"] - c["t"] + 1))
        if not permitted:
            v.violation("blit:ok-outside-envelope:%s" % cls, "%s: the paint succeeded although a copied row does not lie inside both buffers (decoded image %d pixels): out-of-bounds read or write" % (geo, n), {"case": c, "got": o})
            return
    if c["inside"] and o["res"] == "ok" and o["decoded_len"] == c["w"] * c["h"] and isinstance(o["decoded"], list):
        dec = o["decoded"]
        exp = {}
        for wr in c["writes"]:
            exp[wr["dst"]] = dec[wr["src"]]
        want = sorted([p, val] for p, val in exp.items() if val != bg(p))
        got = sorted(o["changed"])
        if want != got:
            v.violation("blit:pixels:inside", "%s: the buffer after a successful paint differs from Blit!Paint (expected %d changed pixels %s, got %s)" % (geo, len(want), want[:6], got[:6]), {"case": c, "got": o, "expected_changed": want})
    elif c["inside"] and o["res"] == "ok" and o["decoded_len"] != c["w"] * c["h"]:
        # decode produced another size than the announced image: success is acceptable only if nothing outside the image was read;
        # the painter's own bounds test (against the decoded length) is what the spec's envelope requires
        need = (c["b"] - c["t"]) * c["w"] + (c["r"] - c["l"] + 1)
        if o["decoded_len"] < need:
            v.violation("blit:oob-read:inside", "%s: paint succeeded although the decoded image has only %d pixels (%d needed)" % (geo, o["decoded_len"], need), {"case": c, "got": o})


def selftest19(allc, outs):
    """corrupted observations of in-window paints must be flagged: a wrong / missing / extra pixel, overwritten guard
    words, a panic"""
    res = []
    idx = [i for i, (c, o) in enumerate(zip(allc, outs)) if c["inside"] and not c.get("big") and o["res"] == "ok" and o.get("decoded_len") == c["w"] * c["h"] and len(o.get("changed", [])) >= 1 and not c.get("ddelta")][:300:60]
    for i in idx:
        c, o = allc[i], outs[i]
        ch = o["changed"]
        free = next(p for p in range(c["Wd"] * c["Hd"] + 1) if p not in [x[0] for x in ch])
        muts = [("wrong_pixel", dict(o, changed=[[ch[0][0], (ch[0][1] + 1) % 2 ** 32]] + ch[1:])), ("missing_pixel", dict(o, changed=ch[1:])),
                ("guard_overwritten", dict(o, guard_ok=False)), ("panic", dict(o, res="panic", ek="attempt to subtract with overflow"))]
        if free < c["Wd"] * c["Hd"]:
            muts.append(("extra_pixel", dict(o, changed=ch + [[free, 12345]])))
        for name, o2 in muts:
            pr = core.Probe(); judge(pr, c, o2, {}); res.append(("%s#%d" % (name, i), bool(pr.hits)))
    return core.forward_selftest(res)


def run(tier, seed):
    v = core.Verdict("C19", tier, seed)
    wd = core.workdir("C19")
    rng = random.Random(seed)
    try:
        vg = core.build_harness(crate=GUI, binname="vhgui")
        cases, r = gen(wd, 3, 3, 4, 4) if tier == "quick" else gen(wd, 4, 4, 5, 5)
        # data-length variants and depths on a boundary-biased subset; random large geometries
        extra = []
        sub = [c for c in cases if c["inside"]] + rng.sample(cases, min(len(cases), 4000))
        for c in sub:
            for dd in (-1, 1, -(c["w"] * c["h"] * 4), 4 * c["w"], 8 * c["w"]):
                d = dict(c); d["ddelta"] = dd; extra.append(d)
            d = dict(c); d["bpp"] = 16; extra.append(d)
        for _ in range(300 if tier == "quick" else 20000):
            Wd, Hd = rng.choice([1, 2, 64, 800, 4096]), rng.choice([1, 2, 48, 600, 4096])
            if Wd * Hd > 2000000:
                Wd = 64
            w, h = rng.choice([0, 1, 2, 64, 65, 300]), rng.choice([0, 1, 2, 64, 65, 300])
            pick = lambda m: rng.choice([0, 1, m - 1, m, m + 1, 65535, rng.randrange(0, m + 2)])
            l, t, rr, b = pick(Wd), pick(Hd), pick(Wd), pick(Hd)
            ins = l <= rr and t <= b and rr < Wd and b < Hd and rr - l + 1 <= w and b - t + 1 <= h
            extra.append({"Wd": Wd, "Hd": Hd, "l": l, "t": t, "r": rr, "b": b, "w": w, "h": h, "inside": ins, "writes": [], "big": True})
        allc = cases + extra
        cin, cout = os.path.join(wd, "cases.ndjson"), os.path.join(wd, "out.ndjson")
        with open(cin, "w") as f:
            for c in allc:
                f.write(json.dumps({k: c[k] for k in c if k != "writes"}, separators=(",", ":")) + "\n")
        rc, out = core.sh([vg, "blit", "--cases", cin, "--out", cout], timeout=3000)
        if rc != 0:
            # an abort (e.g. a wild memcpy) kills the process: find the case in flight
            done = sum(1 for _ in open(cout)) if os.path.exists(cout) else 0
            c = allc[min(done, len(allc) - 1)]
            v.violation("blit:abort", "the driver process died (rc %s) while painting case #%d %s" % (rc, done, {k: c[k] for k in c if k != "writes"}), {"case": {k: c[k] for k in c if k != "writes"}, "output": out[-1500:]})
            outs = [json.loads(l) for l in open(cout)] if os.path.exists(cout) else []
        else:
            outs = [json.loads(l) for l in open(cout)]
        stats = {}
        for c, o in zip(allc, outs):
            if c.get("big"):
                c = dict(c); c["inside"] = False      # large geometries: safety only (no write list attached)
            judge(v, c, o, stats)
        tested = selftest19(allc, outs) if not v.violations else []
        ninside = sum(1 for c in cases if c["inside"])
        cov = {"evaluations": len(outs), "distinct_nontrivial": len({json.dumps({k: c[k] for k in c if k != "writes"}, sort_keys=True) for c in allc}),
               "rule": "ALL geometries enumerated by TLC (Gen_Blit): window %s, rectangle coordinates 0..%d each (in range, out of range, inverted), image sizes 0..%d square = %d cases, %d of them inside the window with their exact write lists; "
                       "+ data-length variants (-1, +1, empty) and 16 bpp on the inside cases and a sample; + random large geometries up to 4096 with coordinates at 0, max-1, max, max+1, 65535; distinct = distinct case records" % (
                           "1..3 x 1..3" if tier == "quick" else "1..4 x 1..4", 4 if tier == "quick" else 5, 4 if tier == "quick" else 5, len(cases), ninside),
               "samples": [{k: c[k] for k in c} for c in cases if c["inside"]][3:5],
               "outcomes_by_class": stats, "binding_selftest_rejected": tested}
        return v.finish("exploration", cov, [
            "TLA+ cannot observe memory: out-of-bounds WRITES are seen through guard words placed behind the window buffer (same allocation) and through the 'nothing else changed' comparison; out-of-bounds READS are seen only when they change the result or fault",
            "for rectangles inside the window a failure (Err) is accepted, as the property allows; a success must be pixel exact",
            "the decoded image the painter sees is obtained from the real decoder (BitmapEvent::decompress), so C19 does not depend on C08/C09"])
    finally:
        core.cleanup(wd)
