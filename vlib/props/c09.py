"""C09 - decompressed bitmaps are pixel-exact.
The reference decoders are TLA+ (Rle16.tla from MS-RDPBCGR 2.2.9.1.1.3.1.2.4, Planar.tla from
MS-RDPEGDI 2.2.2.5.1, Pixels.tla).  TLC enumerates EVERY conformant encoding of tiny images (all
order kinds and forms / all plane segmentations) together with the image it denotes, and computes the
expected image of random conformant encodings of larger images; BitmapEvent::decompress must return
exactly those bytes."""
import json
import os
import random
from .. import core, codec


def judge(v, c, o):
    if o["res"] == "ok" and o["bytes"] == c["expect"]:
        return 0
    cls = "%dbpp:%s:%s" % (c["bpp"], "rle" if c["comp"] else "raw", "res=" + o["res"] if o["res"] != "ok" else ("size" if o["len"] != len(c["expect"]) else "pixels"))
    first = next((i for i in range(min(len(o["bytes"]), len(c["expect"]))) if o["bytes"][i] != c["expect"][i]), -1)
    v.violation("pixel:" + cls, "%dx%d %d bpp %s, %d data bytes %s: expected %d bytes, got %s/%s %d bytes, first difference at byte %d" % (
        c["w"], c["h"], c["bpp"], "compressed" if c["comp"] else "raw", len(c["data"]), c["data"][:24], len(c["expect"]), o["res"], o["ek"], o["len"], first),
        {"case": {k: c[k] for k in ("w", "h", "bpp", "comp", "data")}, "expected": c["expect"][:4096], "got": o})
    return 1


def selftest9(wd, cases, outs, raw):
    """corrupted observations must be flagged; and changing one input byte of a raw bitmap must change what the real
    decoder returns (the observation really is a function of the code under test)"""
    okc = [i for i, c in enumerate(cases) if len(c["expect"]) >= 8 and outs[i]["res"] == "ok"]
    idx = [i for i in okc if cases[i]["h"] == 1][:60:20] + [i for i in okc if cases[i]["h"] > 1][:60:20]
    res = []
    for i in idx:
        c, o = cases[i], outs[i]
        for name, f in (("pixel_changed", lambda x: dict(x, bytes=[(x["bytes"][0] + 1) % 256] + x["bytes"][1:])),
                        ("row_order", lambda x: dict(x, bytes=x["bytes"][4 * c["w"]:] + x["bytes"][:4 * c["w"]]) if c["h"] > 1 and x["bytes"][4 * c["w"]:] + x["bytes"][:4 * c["w"]] != x["bytes"] else None),
                        ("one_byte_short", lambda x: dict(x, bytes=x["bytes"][:-1], len=x["len"] - 1)),
                        ("claims_error", lambda x: dict(x, res="err", bytes=[], len=0))):
            o2 = f(o)
            if o2 is None:
                continue
            pr = core.Probe()
            judge(pr, c, o2)
            res.append(("%s#%d" % (name, i), bool(pr.hits)))
    rawc = [c for c in raw if not c["comp"] and len(c["data"]) >= 2 and c["w"] * c["h"] > 0][:3]
    mut = []
    for c in rawc:
        d = dict(c); d["data"] = [(c["data"][0] + 1) % 256] + c["data"][1:]
        mut.append(d)
    if mut:
        mouts = codec.run_cases(wd, mut, "c09self")
        for k, (c, o) in enumerate(zip(mut, mouts)):
            pr = core.Probe()
            judge(pr, c, o)          # c still carries the expectation of the unmodified input
            res.append(("input_byte_changed#%d" % k, bool(pr.hits)))
    return core.forward_selftest(res)


def run(tier, seed):
    v = core.Verdict("C09", tier, seed)
    wd = core.workdir("C09")
    rng = random.Random(seed)
    try:
        dims16 = [(1, 1), (2, 1), (1, 2), (3, 1), (2, 2), (1, 3)] if tier == "quick" else [(1, 1), (2, 1), (1, 2), (3, 1), (2, 2), (1, 3), (4, 1), (1, 4)]
        c16, s16 = codec.gen_rle16(wd, dims16)
        if tier == "thorough":
            c16b, s16b = codec.gen_rle16(wd, [(2, 1), (1, 2), (3, 1)], palette="{4660, 63519}", masks="{165, 255, 0}", maximg=2)
            c16 += c16b; s16 += s16b
        dims32 = [(1, 1), (2, 1), (1, 2)]
        c32, s32 = codec.gen_planar(wd, dims32, vals="{0, 200}" if tier == "quick" else "{0, 3, 200}")
        if tier == "thorough":
            c32b, s32b = codec.gen_planar(wd, [(2, 2), (3, 1), (1, 3)], vals="{7}")
            c32 += c32b; s32 += s32b
        # random conformant encodings of larger images: expectation computed by TLC
        rnd = []
        nrand = 150 if tier == "quick" else 40000
        for k in range(nrand):
            w = rng.choice([1, 2, 3, 7, 8, 9, 15, 16, 17, 31, 33, 40, 64])
            h = rng.choice([1, 2, 3, 4, 5, 8, 16]) if w <= 33 else rng.choice([1, 2, 3])
            if k % 2 == 0:
                rnd.append({"w": w, "h": h, "bpp": 16, "comp": True, "data": codec.rand_rle16(rng, w, h)})
            else:
                rnd.append({"w": w, "h": h, "bpp": 32, "comp": True, "data": codec.rand_planar(rng, w, h)})
        # uncompressed bitmaps: row flip, byte order, every 5-6-5 colour value
        for blk in range(16):
            data = []
            for p in range(blk * 4096, (blk + 1) * 4096):
                data += [p & 255, p >> 8]
            rnd.append({"w": 64, "h": 64, "bpp": 16, "comp": False, "data": data})
        # uncompressed rows hold a multiple of four bytes (MS-RDPBCGR 2.2.9.1.1.3.1.2.2): at 16 bpp the conformant class has
        # even widths only (servers pad the width field); odd widths belong to C08 (totality)
        for (w, h) in [(1, 1), (2, 3), (5, 4), (16, 2), (0, 0), (3, 0), (0, 2)]:
            w16 = w + (w % 2)
            rnd.append({"w": w16, "h": h, "bpp": 16, "comp": False, "data": [rng.randrange(256) for _ in range(2 * w16 * h)]})
            rnd.append({"w": w, "h": h, "bpp": 32, "comp": False, "data": [rng.randrange(256) for _ in range(4 * w * h)]})
        # seed-independent families: every segment form / every order form at the boundaries of its length encodings
        nsys = len(rnd)
        rnd += codec.systematic_planar() + codec.systematic_rle16()
        nsys = len(rnd) - nsys
        exp = codec.expect(wd, rnd, "rnd")
        kept = []
        dropped = 0
        for c, e in zip(rnd, exp):
            if e["ok"]:
                c["expect"] = e["bytes"]; kept.append(c)
            else:
                dropped += 1
        if dropped > len(rnd) // 3:
            raise core.ToolError("random encoder: %d of %d streams are not conformant according to the specification, e.g. %s" % (dropped, len(rnd), [e for e in exp if not e["ok"]][0]))
        cases = c16 + c32 + kept
        outs = codec.run_cases(wd, cases, "c09")
        nbad = 0
        for c, o in zip(cases, outs):
            nbad += judge(v, c, o)
        tested = selftest9(wd, cases, outs, kept) if not v.violations else []
        states = sum(s["states"] for s in s16 + s32)
        cov = {"states": states, "transitions": states, "traces_validated_against_impl": len(cases) - nbad,
               "samples": [{k: c16[37][k] for k in ("w", "h", "bpp", "data", "expect")}, {k: c32[11][k] for k in ("w", "h", "bpp", "data", "expect")}],
               "evaluations": len(cases), "distinct_nontrivial": len({json.dumps([c["w"], c["h"], c["bpp"], c["comp"], c["data"]]) for c in cases}),
               "rule": "EVERY conformant interleaved-RLE encoding of images %s (all order kinds in regular / lite / mega-mega / explicit-run forms, set variants, dithered runs, FG/BG masks, white/black; palette of one colour + black/white in quick) "
                       "and EVERY planar segmentation of images %s, enumerated by TLC with the image each denotes; %d random conformant encodings of images up to 64x16 (all long-run forms) and raw bitmaps incl. all 65536 colour values, "
                       "their expected images computed by TLC (Expect.tla); distinct = distinct (geometry, depth, data)" % (dims16, dims32, len(kept)),
               "exhaustive_tiny": {"rle16": s16, "planar": s32}, "systematic_form_cases": nsys, "binding_selftest_rejected": tested, "random_dropped_as_nonconformant": dropped, "exhaustive": True}
        return v.finish("model_checking", cov, [
            "conformant RLE encoders do not let an order straddle the end of the first scanline (the two published decoder semantics coincide on this class)",
            "uncompressed bitmaps: rows hold a multiple of four bytes, so at 16 bpp only even widths are in the conformant class",
            "planar streams use format header 0x10 (RLE, alpha plane, no subsampling); other headers belong to C08",
            "exact rounding of 5-6-5 to 8-8-8 is round(255*v/max); TLC checked that it equals the implementation's constants for all 32+64 channel values"])
    finally:
        core.cleanup(wd)
