"""C16 - NTLM session security seals per MS-NLMP, round-trips, and rejects tampering.
MC: NtlmSession.tla with the real primitives (every message order of <= 3 messages in both
directions, every single-bit flip).  TV: the real security interface (from build_security_interface
after a real handshake, and NTLMv2SecurityInterface::new with mirrored keys) against Ntlm!Wrap /
Ntlm!Unwrap: sealed output byte-identical, conforming input unsealed, altered input rejected."""
import json
import os
import random
from .. import core, ntlm, selftest


def corruptions():
    def first(evs, pred):
        for i, e in enumerate(evs):
            if pred(e):
                return i
        return None
    def token_bit(evs):
        i = first(evs, lambda e: e["ev"] == "wrap" and len(e["token"]) > 16)
        if i is None: return None
        evs[i]["token"][-1] ^= 1; return evs
    def checksum_bit(evs):
        i = first(evs, lambda e: e["ev"] == "wrap")
        if i is None: return None
        evs[i]["token"][5] ^= 1; return evs
    def seq_skipped(evs):
        i = first(evs, lambda e: e["ev"] == "wrap")
        if i is None: return None
        evs[i]["token"][12] ^= 1; return evs
    def tamper_accepted(evs):
        i = first(evs, lambda e: e["ev"] == "unwrap" and e["res"] == "err")
        if i is None: return None
        evs[i]["res"] = "ok"; return evs
    def wrong_plain(evs):
        i = first(evs, lambda e: e["ev"] == "unwrap" and e["res"] == "ok" and len(e["plain"]) > 0)
        if i is None: return None
        evs[i]["plain"][0] ^= 1; return evs
    def valid_rejected(evs):
        i = first(evs, lambda e: e["ev"] == "unwrap" and e["res"] == "ok")
        if i is None: return None
        evs[i]["res"] = "err"; evs[i]["plain"] = []; return evs
    def reordered_wraps(evs):
        idx = [i for i, e in enumerate(evs) if e["ev"] == "wrap"]
        if len(idx) < 2: return None
        evs[idx[0]], evs[idx[1]] = evs[idx[1]], evs[idx[0]]; return evs
    return [("token_bit", token_bit), ("checksum_bit", checksum_bit), ("seq_skipped", seq_skipped), ("tamper_accepted", tamper_accepted),
            ("wrong_plain", wrong_plain), ("valid_rejected", valid_rejected), ("reordered_wraps", reordered_wraps)]


def run(tier, seed):
    v = core.Verdict("C16", tier, seed)
    wd = core.workdir("C16")
    rng = random.Random(seed)
    try:
        mc = core.tlc("MC_NtlmSession", wd=wd, workers=8, coverage=True, overrides=True, timeout=600)
        core.require_clean_mc(mc, "MC_NtlmSession", ("Send", "Tamper"))
        nsess, maxlen = (160, 64) if tier == "quick" else (1500, 1024)
        _, plans = ntlm.gen(wd, 1, nsess, maxlen, seed)
        for k, p in enumerate(plans):
            s2c = [s for s in p["steps"] if s["dir"] == "s2c"]
            for j, s in enumerate(s2c):
                if s["len"] <= (64 if tier == "quick" else 128):
                    s["tamper"] = "bits" if (k + j) % 3 == 0 else "some"
                else:
                    s["tamper"] = "some"
        # every length 0..n once, alternating directions, on both kinds of object
        lens = list(range(0, maxlen + 1))
        for kind in ("key", "handshake"):
            base = {"steps": [{"dir": "c2s" if i % 2 == 0 else "s2c", "len": n, "tamper": "none"} for i, n in enumerate(lens)]}
            if kind == "key":
                base["exported"] = [rng.randrange(256) for _ in range(16)]
            else:
                base.update({"domain": [100], "user": [117], "password": [112, 119], "mode": "password", "flags": ntlm.FLAGS["default"], "sc": [9] * 8, "ti": [[7, [0] * 8]], "tname": []})
            base["id"] = "lens-" + kind
            plans.append(base)
        # long messages (around 1 KiB, 2 KiB, 4 KiB, 16 KiB: block sizes an implementation of the cipher might work in), in both
        # directions, short ones in between: the key stream is continuous across messages whatever their length
        for kind in ("key", "handshake"):
            seq = [1023, 3, 1024, 1025, 0, 2047, 2048, 2049, 7, 4096, 4097, 16384, 1, 16385, 5000]
            base = {"steps": [{"dir": "c2s" if (i // 2) % 2 == 0 else "s2c", "len": n, "tamper": "some" if n < 3000 else "none"} for i, n in enumerate(seq + seq[::-1])]}
            if kind == "key":
                base["exported"] = [rng.randrange(256) for _ in range(16)]
            else:
                base.update({"domain": [100], "user": [117], "password": [112, 119], "mode": "hash", "flags": ntlm.FLAGS["default"], "sc": [7] * 8, "ti": [[7, [0] * 8]], "tname": []})
            base["id"] = "long-" + kind
            plans.append(base)
        # the same Ntlm object used for a second handshake: the security context must come from the second session key
        for k, p in enumerate([q for q in plans if "exported" not in q and "steps" in q][:12]):
            q = json.loads(json.dumps(p)); q["id"] = "reuse%d" % k; q["reuse"] = True
            plans.append(q)
        plans.append({"id": "selftest", "exported": list(range(16)), "steps": [{"dir": "c2s", "len": 5, "tamper": "none"}, {"dir": "s2c", "len": 4, "tamper": "some"},
                                                                               {"dir": "c2s", "len": 0, "tamper": "none"}, {"dir": "s2c", "len": 9, "tamper": "none"}]})
        trace = ntlm.run(wd, plans, "c16")
        accepted, rejects = core.tv_all("Trace_Ntlm", trace, "/dev/null", wd, shards=8, max_rejects=5, overrides=True)
        for r in rejects:
            evs = [json.loads(x) for x in r["run_events"]]
            ev = json.loads(r["event"])
            what = ev.get("ev")
            cls = "%s:res=%s:%s" % (what, ev.get("res"), "fresh" if ev.get("fresh") else "live")
            v.violation("seal:" + cls, "run %s: %s event is not what Ntlm.tla computes in the state reached (result %s/%s, %d-byte %s)" % (
                evs[0]["run"], what, ev.get("res"), ev.get("ek"), len(ev.get("token", [])), "token"), {"events": [x[:1500] for x in r["run_events"][:40]], "event": r["event"], "tlc": r["tlc_tail"]})
        lines = [l for l in open(trace).read().split("\n") if l.strip()]
        runs = core.split_runs(lines)
        tested = []
        if not rejects and not v.violations:
            sl = [lines[s:e] for (s, e) in runs if json.loads(lines[s]).get("run") == "selftest"]
            tested = selftest.run("Trace_Ntlm", sl[0], "/dev/null", wd, corruptions(), overrides=True)
        nwrap = sum(1 for l in lines if '"ev":"wrap"' in l)
        nun = sum(1 for l in lines if '"ev":"unwrap"' in l)
        ntam = sum(1 for l in lines if '"fresh":true' in l)
        cov = {"states": mc.distinct, "transitions": mc.generated, "traces_validated_against_impl": accepted,
               "samples": [json.loads(x) for x in lines[runs[2][0] + 1:runs[2][0] + 4]],
               "evaluations": nwrap + nun, "distinct_nontrivial": len({l for l in lines if '"ev":"wrap"' in l or '"ev":"unwrap"' in l}),
               "rule": "%d sessions drawn by TLC (half on the object from build_security_interface after a real NEGOTIATE/CHALLENGE/AUTHENTICATE exchange, half on NTLMv2SecurityInterface::new with mirrored keys), 1..8 messages of length 0..%d in random directions, "
                       "plus every length 0..%d once on both objects; for server->client messages every single-bit flip (exhaustive on one message in three, every 13th bit otherwise), every truncation up to 40 bytes, extensions by 1, 2, 16 bytes; "
                       "distinct = distinct wrap/unwrap events" % (nsess, maxlen, maxlen),
               "sealed_messages_compared_bytewise": nwrap, "unseal_calls": nun, "altered_messages": ntam, "binding_selftest_rejected": tested, "checker_cmd": mc.cmd}
        return v.finish("model_checking", cov, [
            "MD5, HMAC-MD5, RC4 are Java primitives called by TLC; MS-NLMP sealing / signing and key derivation are TLA+ (Ntlm.tla)",
            "altered messages are tried on an equivalent interface rebuilt from the derived session key and advanced by the valid messages received so far (a rejected message desynchronises the implementation's cipher stream, which the property does not forbid)"])
    finally:
        core.cleanup(wd)
