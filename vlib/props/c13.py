"""C13 - inbound deframing is exact under arbitrary fragmentation.
MC: TransportRead (stepwise reader under every delivery schedule == reference deframer).
TV: recorded tpkt/x224 read calls appended to the model state; the module's invariants
ExactFrames / NoOverConsumption / RejectConsumes are evaluated by TLC on every state.
Tables: TLC evaluates the reference header interpretation over ALL 65536 TPKT lengths, all short
and long fast-path lengths x first bytes; the implementation's outcome for each is compared."""
import json
import os
import random
from .. import core, selftest


def schedules(n, rng, extra_random=2):
    out = [{}, {"cap": 1}, {"cap": 2}, {"cap": 3}]
    for k in range(1, min(n, 12)):
        out.append({"chunks": [k]})
    for k in range(1, min(n, 7)):
        out.append({"chunks": [k, 1]})
    for _ in range(extra_random):
        out.append({"chunks": [rng.randint(1, 4) for _ in range(n)]})
    return out


def x224ify(stream):
    """for the X.224 layer slow-path payloads must carry the data header; return None if not applicable"""
    return None


def rand_frame(rng):
    k = rng.random()
    n = rng.choice([0, 1, 2, 3, 5, 8, 124, 125, 126, 127, 128, 129, 255, 256, 300])
    body = [rng.choice([3, 0, 0x80, rng.randrange(256)]) for _ in range(n)]
    if k < 0.45:
        if n >= 3:
            body[0:3] = [2, 0xf0, 0x80]
        return [3, 0, (n + 4) >> 8, (n + 4) & 255] + body
    first = rng.choice([0, 4, 0x40, 0x80, 0xc0, 0xfc, 0x3c, 1, 2, 7, 0x43, 0x83, 0xc3, 0xff, rng.choice([b for b in range(256) if b != 3])])
    if k < 0.75 and n + 2 < 128:
        return [first, n + 2] + body
    return [first, 0x80 | ((n + 3) >> 8), (n + 3) & 255] + body


def corruptions():
    def first(evs, pred):
        for i, e in enumerate(evs):
            if pred(e):
                return i
        return None
    okp = lambda e: e["ev"] == "read" and e["res"] == "ok" and len(e["payload"]) > 0
    def payload_byte(evs):
        i = first(evs, okp)
        if i is None: return None
        evs[i]["payload"][0] ^= 1; return evs
    def over_consumed(evs):
        i = first(evs, okp)
        if i is None: return None
        evs[i]["consumed"] += 1; return evs
    def wrong_kind(evs):
        i = first(evs, okp)
        if i is None: return None
        evs[i]["kind"] = "fp" if evs[i]["kind"] == "raw" else "raw"; return evs
    def wrong_sec(evs):
        i = first(evs, lambda e: e["ev"] == "read" and e["res"] == "ok" and e["kind"] == "fp")
        if i is None: return None
        evs[i]["sec"] = (evs[i]["sec"] + 1) % 4; return evs
    def dropped_frame(evs):
        i = first(evs, okp)
        if i is None: return None
        del evs[i]; return evs
    def reject_accepted(evs):
        i = first(evs, lambda e: e["ev"] == "read" and e["res"] == "err" and e["ek"] == "InvalidSize")
        if i is None: return None
        evs[i]["res"] = "ok"; evs[i]["kind"] = "raw"; evs[i]["sec"] = 0; evs[i]["payload"] = []; return evs
    def swallowed_next(evs):
        i = first(evs, lambda e: e["ev"] == "read" and e["res"] == "ok" and len(e["payload"]) == 0)
        if i is None or i + 1 >= len(evs) or evs[i + 1]["ev"] != "read": return None
        evs[i]["payload"] = evs[0]["stream"][evs[i]["consumed"]:]
        evs[i]["consumed"] = len(evs[0]["stream"])
        return evs[:i + 1]
    return [("payload_byte", payload_byte), ("over_consumed", over_consumed), ("wrong_kind", wrong_kind), ("wrong_sec", wrong_sec),
            ("dropped_frame", dropped_frame), ("reject_accepted", reject_accepted), ("swallowed_next", swallowed_next)]


def compare_read_table(v, table, meas, layer):
    rows = [json.loads(l) for l in open(table)]
    ms = [json.loads(l) for l in open(meas)]
    if len(rows) != len(ms):
        raise core.ToolError("read table: %d rows but %d measurements" % (len(rows), len(ms)))
    bad = 0
    for r, m in zip(rows, ms):
        hdr = r["hdr"]
        cls = "tpkt" if hdr[0] == 3 else ("fp-short" if hdr[1] < 128 else "fp-long")
        if r["st"] == "frame":
            want_plen = r["plen"] - (3 if layer == "x224" and hdr[0] == 3 else 0)
            if layer == "x224" and hdr[0] == 3 and r["plen"] < 3:
                continue            # no X.224 data header fits: not a conformant frame at this layer
            ok = (m["res"] == "ok" and m["kind"] == r["kind"] and m["sec"] == r["sec"] and m["plen"] == want_plen
                  and m["consumed"] == r["hlen"] + r["plen"] and m["content_ok"] and m.get("follow_ok") and m.get("consumed2") == r["hlen"] + r["plen"] + 10)
            what = "frame with declared payload length %d: got %s" % (r["plen"], {k: m.get(k) for k in ("res", "ek", "kind", "sec", "plen", "consumed", "content_ok", "follow_ok", "consumed2")})
            key = "deframe:%s:%s:plen=%s" % (layer, cls, "0" if r["plen"] == 0 else "pos")
        else:
            ok = m["res"] == "err" and m["consumed"] == r["hlen"]
            what = "declared length shorter than the header must be rejected after %d header bytes: got %s" % (r["hlen"], {k: m.get(k) for k in ("res", "ek", "consumed")})
            key = "deframe:%s:%s:reject" % (layer, cls)
        if m["res"] == "panic":
            key += ":panic"
        if not ok:
            bad += 1
            v.violation(key, "header %s (%s layer): %s" % (hdr, layer, what), {"layer": layer, "hdr": hdr, "expected": r, "measured": m})
    return len(rows), bad


def run(tier, seed):
    v = core.Verdict("C13", tier, seed)
    wd = core.workdir("C13")
    rng = random.Random(seed)
    try:
        vh = core.build_harness()
        mc = core.tlc("MC_TransportRead", wd=wd, workers=8, coverage=True, timeout=900)
        core.require_clean_mc(mc, "MC_TransportRead", ("Call", "StreamDeliver", "StreamEof", "ReadHdr", "ReadExt", "ReadFpExt", "ReadBody"))
        exp = core.tlc("MC_TransportRead", cfg="MC_TransportRead_asimpl.cfg", wd=wd, workers=8, timeout=900)
        streams_f = os.path.join(wd, "streams.ndjson")
        g = core.tlc("Gen_TransportRead", wd=wd, env={"STREAMS": streams_f}, timeout=600)
        if g.rc != 0:
            raise core.ToolError("Gen_TransportRead failed:\n" + core.tail(g.out))
        streams = [json.loads(l)["stream"] for l in open(streams_f)]
        plans = []
        for si, s in enumerate(streams):
            for k, sc in enumerate(schedules(len(s), rng, 1 if tier == "quick" else 6)):
                if tier == "quick" and k >= 4 and (si + k) % 3:
                    continue
                p = {"id": "m%d-%d" % (si, k), "mode": "read", "layer": "tpkt", "stream": s}
                p.update(sc)
                plans.append(p)
        nrand = 1500 if tier == "quick" else 400000
        for i in range(nrand):
            fs = [rand_frame(rng) for _ in range(rng.randint(1, 4))]
            s = [b for f in fs for b in f]
            if rng.random() < 0.2:
                s = s[:rng.randint(0, len(s))]
            layer = "x224" if all(f[0] != 3 or (len(f) >= 7 and f[4:7] == [2, 0xf0, 0x80]) for f in fs) and rng.random() < 0.5 else "tpkt"
            if layer == "x224" and rng.random() < 0.35:
                # one slow-path frame that is not an X.224 data TPDU (wrong header byte): refused, the rest must still come out
                raws = [f for f in fs if f[0] == 3]
                if raws:
                    f = rng.choice(raws)
                    f[4 + rng.randrange(3)] = rng.choice([0, 0x80, 0xf0, 2, 3, 0xe0, 0xd0])
                    if f[4:7] == [2, 0xf0, 0x80]:
                        f[6] = 0
                    s = [b for f in fs for b in f]
            p = {"id": "r%d" % i, "mode": "read", "layer": layer, "stream": s}
            p.update(rng.choice(schedules(len(s), rng, 2)))
            plans.append(p)
        # X.224 layer, deterministic: data TPDU, a frame that is not one (each header byte in turn), data TPDUs again
        for j, bad in enumerate(([3, 0xf0, 0x80], [2, 0xe0, 0x80], [2, 0xf0, 0], [2, 0xf0, 0x81], [0, 0, 0])):
            s = [3, 0, 0, 9, 2, 0xf0, 0x80, 1, 2] + [3, 0, 0, 9] + bad + [7, 7] + [3, 0, 0, 8, 2, 0xf0, 0x80, 5] + [3, 0, 0, 9] + bad + [8, 8] + [3, 0, 0, 7, 2, 0xf0, 0x80]
            for sc in ({}, {"cap": 1}, {"chunks": [5, 6, 2]}):
                p = {"id": "x%d-%d" % (j, len(plans)), "mode": "read", "layer": "x224", "stream": s}
                p.update(sc); plans.append(p)
        plans.append({"id": "selftest", "mode": "read", "layer": "tpkt", "cap": 2,
                      "stream": [3, 0, 0, 7, 9, 8, 7, 0x40, 4, 1, 2, 0, 2, 3, 0, 0, 3, 3, 0, 0, 5, 1]})
        pp = os.path.join(wd, "plans.ndjson")
        with open(pp, "w") as f:
            for p in plans:
                f.write(json.dumps(p, separators=(",", ":")) + "\n")
        trace = os.path.join(wd, "trace.ndjson")
        # a driver that dies (abort, stack overflow, refused allocation) or does not come back inside the library is an
        # observation about the code: reported as a violation, what was recorded before is still analysed
        from .. import faults as _faults
        _faults.run_with_watchdog(v, vh, "transport", ["--plans", pp, "--trace", trace, "--blobs", os.path.join(wd, "blobs.ndjson")], wd, plans)
        accepted, rejects = core.tv_all("Trace_TransportRead", trace, "/dev/null", wd, shards=8)
        for r in rejects:
            evs = [json.loads(x) for x in r["run_events"]]
            ev = json.loads(r["event"])
            zero = any(e["ev"] == "read" and e["res"] == "ok" for e in evs) and ev.get("ev") == "read"
            stream = evs[0]["stream"]
            # classify by what the reference says about the frame the failing read was at
            key = "deframe:tv:%s:%s:%s" % (evs[0]["layer"], r["what"] or r["kind"], ev.get("res"))
            if ev.get("res") == "panic":
                key += ":panic"
            v.violation(key, "run %s (stream %s, schedule %s): %s at event %s" % (evs[0]["run"], stream[:40], evs[0]["sched"], r["what"] or "no matching action", r["event"][:200]),
                        {"events": r["run_events"], "tlc": r["tlc_tail"]})
        lines = [l for l in open(trace).read().split("\n") if l.strip()]
        runs = core.split_runs(lines)
        tested = []
        st = [lines[s:e] for (s, e) in runs if json.loads(lines[s]).get("run") == "selftest"]
        ok_self = bool(st) and not v.violations and core.tv_once("Trace_TransportRead", _write(wd, "self.ndjson", st[0]), "/dev/null", wd) is None
        if ok_self:
            tested = selftest.run("Trace_TransportRead", st[0], "/dev/null", wd, corruptions())
            # X.224 layer: after a frame that is not a data TPDU has been refused, the data TPDU behind it must come out
            xs = [lines[s:e] for (s, e) in runs if str(json.loads(lines[s]).get("run", "")).startswith("x2-")]
            def x224_refusal_sticks(evs):
                reads = [i for i, e in enumerate(evs) if e["ev"] == "read"]
                if len(reads) < 3 or evs[reads[1]]["res"] != "err" or evs[reads[2]]["res"] != "ok": return None
                evs[reads[2]].update({"res": "err", "ek": "InvalidConst", "kind": "none", "payload": []}); return evs
            def x224_refusal_overconsumes(evs):
                reads = [i for i, e in enumerate(evs) if e["ev"] == "read"]
                if len(reads) < 2 or evs[reads[1]]["res"] != "err": return None
                evs[reads[1]]["consumed"] += 1; return evs[:reads[1] + 1]
            if xs and core.tv_once("Trace_TransportRead", _write(wd, "selfx.ndjson", xs[0]), "/dev/null", wd) is None:
                tested += selftest.run("Trace_TransportRead", xs[0], "/dev/null", wd, [("x224_refusal_sticks", x224_refusal_sticks), ("x224_refusal_overconsumes", x224_refusal_overconsumes)])
        # full-domain tables
        rt, wt = os.path.join(wd, "rt.ndjson"), os.path.join(wd, "wt.ndjson")
        cfg = os.path.join(wd, "TransportTables.cfg")
        open(cfg, "w").write(open(os.path.join(core.SPEC, "TransportTables.cfg")).read().replace("WMaxN = 70000", "WMaxN = 1"))
        t = core.tlc("TransportTables", cfg=cfg, wd=wd, env={"RTABLE": rt, "WTABLE": wt}, timeout=900)
        if t.rc != 0:
            raise core.ToolError("TransportTables failed:\n" + core.tail(t.out))
        nrows = 0
        for layer in ("tpkt", "x224"):
            meas = os.path.join(wd, "rmeas-%s.ndjson" % layer)
            rc, err = core.run_harness(vh, "transport", ["--rtable", rt, "--out", meas, "--layer", layer])
            if rc != 0:
                raise core.ToolError("read table run failed: " + err[-2000:])
            n, bad = compare_read_table(v, rt, meas, layer)
            nrows += n
        cov = {"states": mc.distinct, "transitions": mc.generated, "traces_validated_against_impl": accepted,
               "samples": [{"plan": plans[17], "events": [json.loads(x) for x in lines[runs[17][0]:runs[17][1]]][:4]}],
               "evaluations": len(plans) + nrows, "distinct_nontrivial": len({json.dumps([p["stream"], p.get("cap"), p.get("chunks")]) for p in plans}) + nrows,
               "rule": "TV: every stream of the model (all concatenations of <= 3 of 12 frames incl. empty payloads, look-alike payload bytes, too-short declared lengths, truncated tails) under greedy / 1,2,3-byte dribble / "
                       "single and double split points / random chunkings, plus %d random multi-frame streams (tpkt and x224 layer); tables: all 65536 TPKT lengths, 64x128 short and 32768 long fast-path headers on both layers, "
                       "each followed by a second frame so over-consumption shows" % nrand,
               "header_rows_compared": nrows, "events_validated": len(lines),
               "as_implemented_model_experiment": {"cfg": "MC_TransportRead_asimpl.cfg (ZeroLenBody = read_available)", "violates": exp.violated},
               "binding_selftest_rejected": tested, "checker_cmd": mc.cmd, "exhaustive": True}
        return v.finish("model_checking", cov, [
            "first byte 0x03 starts a slow-path frame, any other first byte a fast-path frame (conformant first bytes have the two low bits clear; all 255 are in the tables)",
            "the scripted stream returns Ok(0) when exhausted (a live socket would block instead)",
            "payload content equality for the 100k-row tables is checked by the harness against a position-dependent pattern; sizes, kinds, flags and consumption come from TLC's table"])
    finally:
        core.cleanup(wd)


def _write(wd, name, lines):
    p = os.path.join(wd, name)
    with open(p, "w") as f:
        for l in lines:
            f.write(l + "\n")
    return p
