"""./check setup: build everything the checks need from files on disk (offline)."""
import glob
import os
from . import core


def run():
    # Java overrides for TLC (crypto primitives), if present
    srcs = glob.glob(os.path.join(core.OVERRIDES, "*.java"))
    if srcs:
        rc, out = core.sh(["javac", "-cp", core.TLA_JAR + ":" + core.CM_JAR, "-d", core.OVERRIDES] + srcs, timeout=300)
        if rc != 0:
            print(out)
            return 2
    try:
        core.build_harness()
        if os.path.isdir(os.path.join(core.ROOT, "harness-gui")):
            core.build_harness(crate=os.path.join(core.ROOT, "harness-gui"), binname="vhgui")
    except core.ToolError as e:
        print(e)
        return 2
    print("setup ok")
    return 0
