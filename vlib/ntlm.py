"""Shared pipeline for C15 / C16: Gen_Ntlm plans, the ntlm driver, Trace_Ntlm."""
import json
import os
from . import core

FLAGS = {"default": 0xE28A8235, "noversion": 0xE08A8235, "oem": 0xE28A8234 | 2, "oem_noversion": 0xE08A8234 | 2,
         "unicode_and_oem": 0xE28A8237, "unicode_and_oem_noversion": 0xE08A8237}   # both character-set bits: UNICODE wins (MS-NLMP 2.2.2.5)


def gen(wd, nauth, nsess, maxlen, seed):
    cfg = os.path.join(wd, "Gen_Ntlm.cfg")
    src = open(os.path.join(core.SPEC, "Gen_Ntlm.cfg")).read()
    src = src.replace("NAuth = 600", "NAuth = %d" % nauth).replace("NSess = 200", "NSess = %d" % nsess).replace("MaxLen = 64", "MaxLen = %d" % maxlen)
    open(cfg, "w").write(src)
    a, s = os.path.join(wd, "auth.ndjson"), os.path.join(wd, "sess.ndjson")
    r = core.tlc("Gen_Ntlm", cfg=cfg, wd=wd, env={"AUTHPLANS": a, "SESSPLANS": s}, seed=seed, timeout=900)
    if r.rc != 0:
        raise core.ToolError("Gen_Ntlm failed:\n" + core.tail(r.out))
    def load(p, tag):
        out = []
        for i, l in enumerate(open(p)):
            d = json.loads(l)
            d["id"] = "%s%d" % (tag, i)
            if "flagclass" in d:
                d["flags"] = FLAGS[d["flagclass"]]
            out.append(d)
        return out
    return load(a, "a"), load(s, "s")


def run(wd, plans, tag):
    vh = core.build_harness()
    pp = os.path.join(wd, tag + ".plans.ndjson")
    with open(pp, "w") as f:
        for p in plans:
            f.write(json.dumps(p, separators=(",", ":")) + "\n")
    trace = os.path.join(wd, tag + ".trace.ndjson")
    rc, err = core.run_harness(vh, "ntlm", ["--plans", pp, "--trace", trace, "--blobs", os.path.join(wd, tag + ".blobs.ndjson")], timeout=3000)
    if rc != 0:
        raise core.ToolError("ntlm driver failed rc=%s: %s" % (rc, err[-2000:]))
    txt = open(trace).read()
    if '"ev":"harness_error"' in txt:
        raise core.ToolError("ntlm driver reported a harness error: " + [l for l in txt.split("\n") if "harness_error" in l][0][:300])
    return trace
