"""Shared pipeline of the connection-level properties (C02, C03, C04, C17): TLC-generated plans
(Gen_Rdp), the connect driver over real TLS, pass A, Trace_Rdp."""
import json
import re
import os
from . import core

last_mode_plans = []
MC_ACTIONS = ("CSendConnReq", "SConfirm", "CTlsHello", "TlsDone", "CNla", "SNla", "CSendConnectInitial", "SConnectResponse", "CSendErect",
              "CSendAttach", "SAttachConfirm", "CSendJoin", "SJoinConfirm", "CSendClientInfo", "SLicence", "CConnected", "CConnectedPlain", "CGiveUp", "Session")


def model_check(wd):
    r = core.tlc("MC_Rdp", wd=wd, workers=8, coverage=True, timeout=600)
    core.require_clean_mc(r, "MC_Rdp", MC_ACTIONS)
    return r


def gen_plans(wd, nconn, flagset, seed):
    cfg = os.path.join(wd, "Gen_Rdp.cfg")
    src = open(os.path.join(core.SPEC, "Gen_Rdp.cfg")).read()
    src = src.replace("NConn = 300", "NConn = %d" % nconn).replace("FlagSet = {0, 1, 255}", "FlagSet = {%s}" % ", ".join(str(x) for x in flagset))
    open(cfg, "w").write(src)
    nego, conn, mode = os.path.join(wd, "negoplans.ndjson"), os.path.join(wd, "connplans.ndjson"), os.path.join(wd, "modeplans.ndjson")
    r = core.tlc("Gen_Rdp", cfg=cfg, wd=wd, env={"NEGOPLANS": nego, "CONNPLANS": conn, "MODEPLANS": mode}, seed=seed, timeout=900)
    if r.rc != 0:
        raise core.ToolError("Gen_Rdp failed:\n" + core.tail(r.out))
    def load(p, tag):
        out = []
        for i, l in enumerate(open(p)):
            d = json.loads(l)
            d["id"] = "%s%d" % (tag, i)
            out.append(d)
        return out
    global last_mode_plans
    last_mode_plans = load(mode, "m")
    return load(nego, "n"), load(conn, "c")


def run_plans(wd, plans, tag, v=None, key="conn:abort"):
    """run the connect driver.  If the driver PROCESS dies (abort: refused allocation, stack overflow, a signal) while the
    code under test runs, that is an observation about the code, not a tool error: with a Verdict `v` given it is
    reported as a violation naming the plan in flight, and the runs recorded so far are analysed as usual."""
    vh = core.build_harness()
    pp = os.path.join(wd, tag + ".plans.ndjson")
    with open(pp, "w") as f:
        for p in plans:
            f.write(json.dumps(p, separators=(",", ":")) + "\n")
    trace, blobs, decoded = [os.path.join(wd, tag + x) for x in (".trace.ndjson", ".blobs.ndjson", ".decoded.ndjson")]
    # generous per-plan allowance (a TLS + NLA handshake takes milliseconds): a driver that does not come back is the code
    # under test spinning or blocking for ever, which is an observation about the code as well
    allowance = 180 + len(plans) // 2
    try:
        rc, err = core.run_harness(vh, "connect", ["--plans", pp, "--trace", trace, "--blobs", blobs], timeout=allowance)
    except core.ToolError:
        if v is None:
            raise
        rc, err = -999, "no return within %d s (%d plans)" % (allowance, len(plans))
    if rc is not None and rc < 0 and v is not None and os.path.exists(trace):
        def complete(path):
            good = []
            for l in open(path, errors="replace").read().split("\n"):
                if not l.strip():
                    continue
                try:
                    json.loads(l); good.append(l)
                except ValueError:
                    break                      # the process died while writing this line
            return good
        lines = complete(trace)
        if os.path.exists(blobs):
            open(blobs, "w").write("\n".join(complete(blobs)) + "\n")
        last = next((json.loads(l) for l in reversed(lines) if '"ev":"reset"' in l.replace('": "', '":"')), {})
        where = re.sub(r"\s+", " ", " ".join(x.strip() for x in err.split("\n") if "rdp::" in x)[:300])
        v.violation(key if rc != -999 else key.replace("abort", "hang"),
                    ("the connect call did not return (spinning or blocked for ever) while running plan %s: %s" % (last.get("run"), err)) if rc == -999 else
                    "the driver process died (rc %s: abort / refused allocation / stack overflow) inside the library while running plan %s: %s" % (rc, last.get("run"), where),
                    {"plan": [p for p in plans if p.get("id") == last.get("run")][:1], "stderr": err[-3000:]})
        # keep what was recorded before the plan in flight
        starts = [i for i, l in enumerate(lines) if '"ev":"reset"' in l.replace('": "', '":"')]
        open(trace, "w").write("\n".join(lines[:starts[-1]] if starts else []) + "\n")
    elif rc != 0:
        raise core.ToolError("connect driver failed rc=%s: %s" % (rc, err[-2000:]))
    txt = open(trace).read()
    if '"ev":"harness_error"' in txt:
        raise core.ToolError("connect driver reported a harness error: " + [l for l in txt.split("\n") if "harness_error" in l][0][:300])
    dec = core.pass_a(blobs, decoded, wd)
    return trace, blobs, decoded, dec


def classify_reject(r, dec):
    """(key, text) for a rejected run of Trace_Rdp"""
    evs = [json.loads(x) for x in r["run_events"]]
    ev = json.loads(r["event"])
    cfg, srv = evs[0]["cfg"], evs[0]["srv"]
    d = dec[ev["blob"] - 1] if "blob" in ev else None
    sel = srv["reply"]["sel"]
    seln = sel[0] + 256 * sel[1] + 65536 * sel[2] + 16777216 * sel[3]
    offered = cfg["mask"] if cfg["api"] == "x224" else 1 + (2 if cfg["nla"] else 0)
    ctx = "api=%s offered=%d reply=%s sel=%d" % (cfg["api"], offered, srv["reply"]["kind"], seln)
    if ev.get("ev") in ("c_write", "c_der") and d is not None and not d.get("ok"):
        return "malformed:%s" % d.get("why", "?").split(":")[0], "client frame rejected by the strict grammar: %s (%s)" % (d.get("why"), ctx)
    if ev.get("res") == "panic" or ev.get("ek", "").startswith("panic"):
        return "panic:%s:%s" % (ev.get("ev"), ev.get("api", "")), "client panicked: %s (%s)" % (ev.get("ek"), ctx)
    if r["what"]:
        return "inv:%s" % r["what"], "invariant %s violated at event %s (%s)" % (r["what"], r["event"][:200], ctx)
    kind = d.get("kind") if d else ""
    phase = ""
    return "noaction:%s:%s:%s" % (ev.get("ev"), ev.get("api", kind), ev.get("res", ev.get("chan", ""))), "no action of Rdp.tla matches event %s (%s)" % (r["event"][:240], ctx)
