"""Shared fault-plan generation (Faults.tla / Gen_Faults.tla) for C05 and C07."""
import json
import os
from . import core


def gen(wd, regions, full, tag="f"):
    """regions: list of dicts with id, len (catalogue length); returns list of (region_id, fault)"""
    rf = os.path.join(wd, tag + ".regions.ndjson")
    with open(rf, "w") as f:
        for r in regions:
            f.write(json.dumps({"id": r["id"], "len": r["len"]}) + "\n")
    cfg = os.path.join(wd, tag + ".Gen_Faults.cfg")
    open(cfg, "w").write(open(os.path.join(core.SPEC, "Gen_Faults.cfg")).read().replace("Full = FALSE", "Full = %s" % ("TRUE" if full else "FALSE")))
    out = os.path.join(wd, tag + ".faultplans.ndjson")
    r = core.tlc("Gen_Faults", cfg=cfg, wd=wd, env={"REGIONS": rf, "FAULTPLANS": out}, timeout=2400, xmx="12g")
    if r.rc != 0:
        raise core.ToolError("Gen_Faults failed:\n" + core.tail(r.out))
    return [(p["region"], p["fault"]) for p in (json.loads(l) for l in open(out))], r


def run_with_watchdog(v, vh, driver, args, wd, plans, timeout=1500, stall=120):
    """run a driver that writes the id of the plan in flight to a marker file.  Besides the overall timeout the run is
    stopped when the marker has not changed for `stall` seconds: one plan takes milliseconds, so a plan that long in
    flight is the library spinning or blocked (an observation about the code, reported as a violation)."""
    import subprocess, time
    marker = os.path.join(wd, "progress")
    if os.path.exists(marker):
        os.remove(marker)
    env = dict(os.environ); env["VH_PROGRESS"] = marker
    errf = open(os.path.join(wd, "driver.stderr"), "wb")
    p = subprocess.Popen([vh, driver] + args, stdout=subprocess.DEVNULL, stderr=errf, env=env)
    t0 = time.time(); last = ("", t0); why = None
    while True:
        try:
            p.wait(timeout=2)
            break
        except subprocess.TimeoutExpired:
            pass
        cur = open(marker).read().strip() if os.path.exists(marker) else ""
        now = time.time()
        if cur != last[0]:
            last = (cur, now)
        if now - t0 > timeout:
            why = "no return within %d s" % timeout
        elif cur and now - last[1] > stall:
            why = "plan %s in flight for more than %d s" % (cur, stall)
        if why:
            p.kill(); p.wait()
            break
    errf.close()
    err = open(os.path.join(wd, "driver.stderr"), errors="replace").read()
    rc = p.returncode
    if why is None and rc == 0:
        return
    # the files may end in the middle of a line: keep what is complete, without the run that was in flight
    for flag, drop in (("--trace", True), ("--blobs", False)):
        if flag in args:
            core.keep_complete_lines(args[args.index(flag) + 1], drop_last_run=drop)
    cur = open(marker).read().strip() if os.path.exists(marker) else "?"
    if why:
        v.violation("hostile:hang", "the client did not return (watchdog: %s) while processing plan %s" % (why, cur), {"plan": [x for x in plans if x.get("id") == cur][:1]})
    else:
        v.violation("hostile:abort", "the driver process died (rc %s: abort / stack overflow / refused allocation) while processing plan %s: %s" % (rc, cur, err[-300:]), {"plan": [x for x in plans if x.get("id") == cur][:1]})
