"""Binding self-test: corrupt accepted traces and require TLC to reject every corruption.
An accepted corruption means the trace spec is vacuous for that observation: tool error."""
import json
import os
from concurrent.futures import ThreadPoolExecutor
from . import core


def run(module, run_lines, decoded, wd, corruptions, overrides=False, extra_env=None, cfg=None):
    """corruptions: list of (name, fn(list of event dicts) -> list of event dicts or None)"""
    evs = [json.loads(l) for l in run_lines]
    jobs = []
    for name, fn in corruptions:
        c = fn([json.loads(json.dumps(e)) for e in evs])
        if c is None:
            continue
        p = os.path.join(wd, "selftest-%s.ndjson" % name)
        with open(p, "w") as f:
            for e in c:
                f.write(json.dumps(e, separators=(",", ":")) + "\n")
        jobs.append((name, p))
    if not jobs:
        raise core.ToolError("binding self-test: no corruption applicable to the sample run")
    def work(j):
        name, p = j
        return name, core.tv_once(module, p, decoded, wd, overrides=overrides, extra_env=extra_env, cfg=cfg)
    done = []
    with ThreadPoolExecutor(max_workers=6) as ex:
        for name, res in ex.map(work, jobs):
            if res is None:
                raise core.ToolError("binding self-test: corruption '%s' was ACCEPTED by %s (trace spec vacuous)" % (name, module))
            done.append(name)
    return done
