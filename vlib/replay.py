"""./check replay <path>: re-run the check that produced a replay file (same tier and seed: plans are derived
deterministically from the seed, so the same input is produced again) against the current /repo and report
whether the recorded violation - identified by its key - still occurs.
exit 1 + VIOLATION line: it does; exit 0: it does not (repaired, or the code changed); exit 2: tool error."""
import json
import os
import subprocess
import sys

from . import core


def run(path):
    try:
        r = json.load(open(path))
    except (OSError, ValueError) as e:
        print("TOOL-ERROR cannot read replay file %s: %s" % (path, e))
        return 2
    prop, key = r.get("property"), r.get("key")
    print("replay of %s: property=%s key=%s" % (path, prop, key))
    print("  recorded: %s" % (r.get("what", "")[:400]))
    cmd = [os.path.join(core.ROOT, "check"), prop, "--tier", r.get("tier", "quick"), "--seed", str(r.get("seed", 1))]
    env = dict(os.environ)
    env["VERIF_NO_EVIDENCE"] = "1"          # a replay must not overwrite the evidence of the registered checks
    p = subprocess.run(cmd, cwd=core.ROOT, env=env, stdout=subprocess.PIPE, stderr=subprocess.STDOUT)
    out = p.stdout.decode("utf-8", "replace")
    if p.returncode == 2:
        print(out[-2000:])
        return 2
    same = [l for l in out.splitlines() if l.strip().startswith("key=" + key)]
    if same:
        print("VIOLATION property=%s replay=%s" % (prop, path))
        print("  still occurs: " + same[0].strip()[:400])
        return 1
    others = [l for l in out.splitlines() if l.startswith("VIOLATION")]
    print("the recorded violation does not occur any more" + (" (%d other violation(s) reported by the check)" % len(others) if others else ""))
    return 0
