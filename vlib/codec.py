"""Shared pipeline for C08 / C09: TLC-generated codec cases (Gen_Codec, Gen_Planar), random
conformant encodings with expectations computed by TLC (Expect.tla), the codec driver."""
import json
import os
import random
from . import core


def gen_rle16(wd, dims, palette="{4660}", masks="{165}", maximg=1):
    cases = []
    stats = []
    for (w, h) in dims:
        cfg = os.path.join(wd, "Gen_Codec_%d_%d.cfg" % (w, h))
        src = open(os.path.join(core.SPEC, "Gen_Codec.cfg")).read()
        src = src.replace("W = 2", "W = %d" % w).replace("H = 2", "H = %d" % h).replace("Palette = {4660}", "Palette = " + palette).replace("Masks = {165}", "Masks = " + masks).replace("MaxImageRun = 1", "MaxImageRun = %d" % maximg)
        open(cfg, "w").write(src)
        r = core.tlc("Gen_Codec", cfg=cfg, wd=wd, workers=1, timeout=1200)
        if r.rc != 0:
            raise core.ToolError("Gen_Codec %dx%d failed:\n%s" % (w, h, core.tail(r.out)))
        got = core.plans_from_printed(r)
        stats.append({"w": w, "h": h, "states": r.distinct, "encodings": len(got)})
        cases += got
    return cases, stats


def gen_planar(wd, dims, vals="{0, 200}"):
    cases, stats = [], []
    for (w, h) in dims:
        cfg = os.path.join(wd, "Gen_Planar_%d_%d.cfg" % (w, h))
        src = open(os.path.join(core.SPEC, "Gen_Planar.cfg")).read()
        src = src.replace("W = 2", "W = %d" % w).replace("H = 1", "H = %d" % h).replace("Vals = {0, 200}", "Vals = " + vals)
        open(cfg, "w").write(src)
        r = core.tlc("Gen_Planar", cfg=cfg, wd=wd, workers=1, timeout=1200)
        if r.rc != 0:
            raise core.ToolError("Gen_Planar %dx%d failed:\n%s" % (w, h, core.tail(r.out)))
        got = core.plans_from_printed(r)
        stats.append({"w": w, "h": h, "states": r.distinct, "encodings": len(got)})
        cases += got
    return cases, stats


# ---------------------------------------------------------------- random conformant encoders (bytes only; the image is
# whatever the reference decoder of the specification says)

def le16(v):
    return [v & 255, v >> 8]


def rand_rle16(rng, w, h):
    total = w * h
    out = 0
    b = []
    pal = [rng.randrange(65536) for _ in range(3)] + [0, 0xffff, 0xf81f]
    prev = None
    while out < total:
        # scanline-aware, as real encoders are: many orders end exactly at the end of a scanline (the current one,
        # the next one), and an order kind is often repeated (two background runs in a row insert a foreground pixel)
        line_room = w - (out % w)
        room = line_room if out < w else (total - out)
        kind = rng.choice(["bg", "fg", "color", "image", "fgbg", "setfg", "setfgbg", "dither", "white", "black", "special"])
        if prev is not None and rng.random() < 0.3:
            kind = prev
        elif rng.random() < 0.15:
            kind = "bg"
        run = min(room, rng.choice([1, 2, 3, 7, 8, 9, 15, 16, 17, 31, 32, 33, 40, 64, 255, 256, 300, room, max(1, room - 1),
                                    line_room, line_room, line_room, line_room + w, line_room + 2 * w]))
        prev = kind
        mega = rng.random() < 0.25
        c = le16(rng.choice(pal))
        if kind in ("bg", "fg", "color", "image"):
            code = {"bg": 0, "fg": 1, "color": 3, "image": 4}[kind]
            if kind == "image":
                run = min(run, 40)
            if mega:
                b += [0xf0 + code] + le16(run)
            elif run <= 31:
                b += [(code << 5) | run]
            elif run <= 287:
                b += [code << 5, run - 32]
            else:
                b += [0xf0 + code] + le16(run)
            if kind == "color":
                b += c
            if kind == "image":
                for _ in range(run):
                    b += le16(rng.choice(pal))
        elif kind in ("fgbg", "setfgbg"):
            run = min(run, 300)
            lite = kind == "setfgbg"
            if mega:
                b += [0xf7 if lite else 0xf2] + le16(run)
            elif run % 8 == 0 and run // 8 <= (15 if lite else 31) and rng.random() < 0.6:
                b += [(0xd0 if lite else 0x40) | (run // 8)]
            elif run <= 256:
                b += [0xd0 if lite else 0x40, run - 1]
            else:
                b += [0xf7 if lite else 0xf2] + le16(run)
            if lite:
                b += c
            b += [rng.randrange(256) for _ in range((run + 7) // 8)]
        elif kind == "setfg":
            if mega:
                b += [0xf6] + le16(run)
            elif run <= 15:
                b += [0xc0 | run]
            elif run <= 271:
                b += [0xc0, run - 16]
            else:
                b += [0xf6] + le16(run)
            b += c
        elif kind == "dither":
            pairs = run // 2
            if pairs == 0:
                continue
            run = 2 * pairs
            if mega:
                b += [0xf8] + le16(pairs)
            elif pairs <= 15:
                b += [0xe0 | pairs]
            elif pairs <= 271:
                b += [0xe0, pairs - 16]
            else:
                b += [0xf8] + le16(pairs)
            b += c + le16(rng.choice(pal))
        elif kind == "special":
            if room < 8:
                continue
            run = 8
            b += [rng.choice([0xf9, 0xfa])]
        else:
            run = 1
            b += [0xfd if kind == "white" else 0xfe]
        out += run
    return b


def rand_planar(rng, w, h):
    b = [0x10]
    for _plane in range(4):
        for _row in range(h):
            col = 0
            while col < w:
                room = w - col
                craw = rng.choice([0, 0, 1, 2, 3, 15, min(room, 15)])
                craw = min(craw, room, 15)
                rest = room - craw
                opts = [0] + [n for n in (3, 4, 15, 16, 17, 31, 32, 33, 47) if n <= rest]
                nrun = rng.choice(opts)
                if craw == 0 and nrun == 0:
                    continue
                if nrun >= 16 and craw != 0:
                    # long runs carry no raw bytes: split into two segments
                    b += [craw << 4] + [rng.choice([0, 1, 2, 255, 254, rng.randrange(256)]) for _ in range(craw)]
                    col += craw
                    craw = 0
                if nrun >= 32:
                    b += [((nrun - 32) << 4) | 2]
                elif nrun >= 16:
                    b += [((nrun - 16) << 4) | 1]
                else:
                    b += [(craw << 4) | nrun] + [rng.choice([0, 1, 2, 255, 254, rng.randrange(256)]) for _ in range(craw)]
                col += craw + nrun
    if rng.random() < 0.3:
        b.append(0)      # optional pad byte
    return b


def systematic_planar():
    """every segment form of the planar codec at least once, independent of any random seed: every long run 16..47
    (alone, and behind a raw segment), every short run 3..15 behind 0..15 raw bytes, on the first scanline and on a
    delta scanline (second row)"""
    out = []
    def seg(craw, nrun, val=0x21):
        if nrun >= 32: return [((nrun - 32) << 4) | 2]
        if nrun >= 16: return [((nrun - 16) << 4) | 1]
        return [(craw << 4) | nrun] + [(val + 3 * i) % 256 for i in range(craw)]
    def image(rows_of_segments, w, h):
        d = [0x10]
        for _plane in range(4):
            for r in range(h):
                for s in rows_of_segments[r]:
                    d += s
        return {"w": w, "h": h, "bpp": 32, "comp": True, "data": d}
    for L in range(16, 48):
        out.append(image([[seg(0, L)]], L, 1))                                      # a long run alone
        out.append(image([[seg(2, 0), seg(0, L)]], L + 2, 1))                       # behind two raw bytes
        out.append(image([[seg(1, 0), seg(0, L)], [seg(0, L), seg(1, 0, 0xfe)]], L + 1, 2))   # and on a delta scanline
    for craw in range(0, 16):
        for nrun in (0, 3, 4, 8, 15):
            if craw + nrun == 0:
                continue
            out.append(image([[seg(craw, nrun)]], craw + nrun, 1))
            out.append(image([[seg(craw, nrun)], [seg(craw, nrun, 0x80)]], craw + nrun, 2))
    return out


def systematic_rle16():
    """every order kind in every header form with run lengths at the boundaries of the forms (regular <= 31, one extra
    length byte, 16-bit length), on the first scanline and on a later one"""
    out = []
    col = [0x34, 0x12]
    def order(kind, run, form):
        code = {"bg": 0, "fg": 1, "fgbg": 2, "color": 3, "image": 4}.get(kind)
        b = []
        if kind in ("bg", "fg", "color", "image"):
            if form == "mega": b = [0xf0 + code, run & 255, run >> 8]
            elif form == "reg": b = [(code << 5) | run]
            else: b = [code << 5, run - 32]
            if kind == "color": b += col
            if kind == "image": b += [x for i in range(run) for x in ((i * 5) % 256, (i * 3) % 256)]
        elif kind in ("fgbg", "setfgbg"):
            lite = kind == "setfgbg"
            if form == "mega": b = [0xf7 if lite else 0xf2, run & 255, run >> 8]
            elif form == "reg": b = [(0xd0 if lite else 0x40) | (run // 8)]
            else: b = [0xd0 if lite else 0x40, run - 1]
            if lite: b += col
            b += [(0xa5 + i) % 256 for i in range((run + 7) // 8)]
        elif kind == "setfg":
            if form == "mega": b = [0xf6, run & 255, run >> 8]
            elif form == "reg": b = [0xc0 | run]
            else: b = [0xc0, run - 16]
            b += col
        elif kind == "dither":
            pairs = run // 2
            if form == "mega": b = [0xf8, pairs & 255, pairs >> 8]
            elif form == "reg": b = [0xe0 | pairs]
            else: b = [0xe0, pairs - 16]
            b += col + [0xcd, 0xab]
        return b
    def forms(kind, run):
        fs = ["mega"]
        if kind in ("bg", "fg", "color", "image"):
            if 1 <= run <= 31: fs.append("reg")
            if 32 <= run <= 287: fs.append("ext")
        elif kind in ("fgbg", "setfgbg"):
            if run % 8 == 0 and 1 <= run // 8 <= (15 if kind == "setfgbg" else 31): fs.append("reg")
            if 1 <= run <= 256: fs.append("ext")
        elif kind == "setfg":
            if 1 <= run <= 15: fs.append("reg")
            if 16 <= run <= 271: fs.append("ext")
        elif kind == "dither":
            if run % 2 == 0 and 1 <= run // 2 <= 15: fs.append("reg")
            if run % 2 == 0 and 16 <= run // 2 <= 271: fs.append("ext")
        return fs
    for kind in ("bg", "fg", "color", "image", "fgbg", "setfgbg", "setfg", "dither"):
        for run in (1, 2, 7, 8, 9, 15, 16, 17, 24, 31, 32, 33, 40, 255, 256, 257, 271, 272, 287, 288, 300):
            if kind == "image" and run > 40 and run not in (255, 256, 257, 287): continue
            if kind == "dither" and run % 2: continue
            for form in forms(kind, run):
                o = order(kind, run, form)
                out.append({"w": run, "h": 1, "bpp": 16, "comp": True, "data": o})                                 # on the first scanline
                out.append({"w": run, "h": 2, "bpp": 16, "comp": True, "data": order("color", run, "mega") + o})   # on a later scanline
    return out


def expect(wd, cases, tag):
    """TLC evaluates Codec!Decompress on every case"""
    cin, cout = os.path.join(wd, tag + ".cases.ndjson"), os.path.join(wd, tag + ".expected.ndjson")
    with open(cin, "w") as f:
        for c in cases:
            f.write(json.dumps({"f": "decompress", "w": c["w"], "h": c["h"], "bpp": c["bpp"], "comp": c["comp"], "data": c["data"]}, separators=(",", ":")) + "\n")
    r = core.tlc("Expect", wd=wd, env={"CASES": cin, "EXPECTED": cout}, timeout=3000, xmx="12g")
    if r.rc != 0:
        raise core.ToolError("Expect pass failed:\n" + core.tail(r.out))
    return [json.loads(l) for l in open(cout)]


def run_cases(wd, cases, tag):
    vh = core.build_harness()
    cin, cout = os.path.join(wd, tag + ".in.ndjson"), os.path.join(wd, tag + ".out.ndjson")
    with open(cin, "w") as f:
        for c in cases:
            f.write(json.dumps({"w": c["w"], "h": c["h"], "bpp": c["bpp"], "comp": c["comp"], "data": c["data"]}, separators=(",", ":")) + "\n")
    rc, err = core.run_harness(vh, "codec", ["--cases", cin, "--out", cout], timeout=3000)
    if rc != 0:
        raise core.ToolError("codec driver failed: " + err[-2000:])
    return [json.loads(l) for l in open(cout)]
