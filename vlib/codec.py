"""Shared pipeline for C08 / C09: TLC-generated codec cases (Gen_Codec, Gen_Planar), random
conformant encodings with expectations computed by TLC (Expect.tla), the codec driver."""
import json
import os
import random
from . import core


def gen_rle16(wd, dims, palette="{4660}", masks="{165}", maximg=1):
    cases = []
    stats = []
    for (w, h) in dims:
        cfg = os.path.join(wd, "Gen_Codec_%d_%d.cfg" % (w, h))
        src = open(os.path.join(core.SPEC, "Gen_Codec.cfg")).read()
        src = src.replace("W = 2", "W = %d" % w).replace("H = 2", "H = %d" % h).replace("Palette = {4660}", "Palette = " + palette).replace("Masks = {165}", "Masks = " + masks).replace("MaxImageRun = 1", "MaxImageRun = %d" % maximg)
        open(cfg, "w").write(src)
        r = core.tlc("Gen_Codec", cfg=cfg, wd=wd, workers=1, timeout=1200)
        if r.rc != 0:
            raise core.ToolError("Gen_Codec %dx%d failed:\n%s" % (w, h, core.tail(r.out)))
        got = core.plans_from_printed(r)
        stats.append({"w": w, "h": h, "states": r.distinct, "encodings": len(got)})
        cases += got
    return cases, stats


def gen_planar(wd, dims, vals="{0, 200}"):
    cases, stats = [], []
    for (w, h) in dims:
        cfg = os.path.join(wd, "Gen_Planar_%d_%d.cfg" % (w, h))
        src = open(os.path.join(core.SPEC, "Gen_Planar.cfg")).read()
        src = src.replace("W = 2", "W = %d" % w).replace("H = 1", "H = %d" % h).replace("Vals = {0, 200}", "Vals = " + vals)
        open(cfg, "w").write(src)
        r = core.tlc("Gen_Planar", cfg=cfg, wd=wd, workers=1, timeout=1200)
        if r.rc != 0:
            raise core.ToolError("Gen_Planar %dx%d failed:\n%s" % (w, h, core.tail(r.out)))
        got = core.plans_from_printed(r)
        stats.append({"w": w, "h": h, "states": r.distinct, "encodings": len(got)})
        cases += got
    return cases, stats


# ---------------------------------------------------------------- random conformant encoders (bytes only; the image is
# whatever the reference decoder of the specification says)

def le16(v):
    return [v & 255, v >> 8]


def rand_rle16(rng, w, h):
    total = w * h
    out = 0
    b = []
    pal = [rng.randrange(65536) for _ in range(3)] + [0, 0xffff, 0xf81f]
    prev = None
    while out < total:
        # scanline-aware, as real encoders are: many orders end exactly at the end of a scanline (the current one,
        # the next one), and an order kind is often repeated (two background runs in a row insert a foreground pixel)
        line_room = w - (out % w)
        room = line_room if out < w else (total - out)
        kind = rng.choice(["bg", "fg", "color", "image", "fgbg", "setfg", "setfgbg", "dither", "white", "black", "special"])
        if prev is not None and rng.random() < 0.3:
            kind = prev
        elif rng.random() < 0.15:
            kind = "bg"
        run = min(room, rng.choice([1, 2, 3, 7, 8, 9, 15, 16, 17, 31, 32, 33, 40, 64, 255, 256, 300, room, max(1, room - 1),
                                    line_room, line_room, line_room, line_room + w, line_room + 2 * w]))
        prev = kind
        mega = rng.random() < 0.25
        c = le16(rng.choice(pal))
        if kind in ("bg", "fg", "color", "image"):
            code = {"bg": 0, "fg": 1, "color": 3, "image": 4}[kind]
            if kind == "image":
                run = min(run, 40)
            if mega:
                b += [0xf0 + code] + le16(run)
            elif run <= 31:
                b += [(code << 5) | run]
            elif run <= 287:
                b += [code << 5, run - 32]
            else:
                b += [0xf0 + code] + le16(run)
            if kind == "color":
                b += c
            if kind == "image":
                for _ in range(run):
                    b += le16(rng.choice(pal))
        elif kind in ("fgbg", "setfgbg"):
            run = min(run, 300)
            lite = kind == "setfgbg"
            if mega:
                b += [0xf7 if lite else 0xf2] + le16(run)
            elif run % 8 == 0 and run // 8 <= (15 if lite else 31) and rng.random() < 0.6:
                b += [(0xd0 if lite else 0x40) | (run // 8)]
            elif run <= 256:
                b += [0xd0 if lite else 0x40, run - 1]
            else:
                b += [0xf7 if lite else 0xf2] + le16(run)
            if lite:
                b += c
            b += [rng.randrange(256) for _ in range((run + 7) // 8)]
        elif kind == "setfg":
            if mega:
                b += [0xf6] + le16(run)
            elif run <= 15:
                b += [0xc0 | run]
            elif run <= 271:
                b += [0xc0, run - 16]
            else:
                b += [0xf6] + le16(run)
            b += c
        elif kind == "dither":
            pairs = run // 2
            if pairs == 0:
                continue
            run = 2 * pairs
            if mega:
                b += [0xf8] + le16(pairs)
            elif pairs <= 15:
                b += [0xe0 | pairs]
            elif pairs <= 271:
                b += [0xe0, pairs - 16]
            else:
                b += [0xf8] + le16(pairs)
            b += c + le16(rng.choice(pal))
        elif kind == "special":
            if room < 8:
                continue
            run = 8
            b += [rng.choice([0xf9, 0xfa])]
        else:
            run = 1
            b += [0xfd if kind == "white" else 0xfe]
        out += run
    return b


def rand_planar(rng, w, h):
    b = [0x10]
    for _plane in range(4):
        for _row in range(h):
            col = 0
            while col < w:
                room = w - col
                craw = rng.choice([0, 0, 1, 2, 3, 15, min(room, 15)])
                craw = min(craw, room, 15)
                rest = room - craw
                opts = [0] + [n for n in (3, 4, 15, 16, 17, 31, 32, 33, 47) if n <= rest]
                nrun = rng.choice(opts)
                if craw == 0 and nrun == 0:
                    continue
                if nrun >= 16 and craw != 0:
                    # long runs carry no raw bytes: split into two segments
                    b += [craw << 4] + [rng.choice([0, 1, 2, 255, 254, rng.randrange(256)]) for _ in range(craw)]
                    col += craw
                    craw = 0
                if nrun >= 32:
                    b += [((nrun - 32) << 4) | 2]
                elif nrun >= 16:
                    b += [((nrun - 16) << 4) | 1]
                else:
                    b += [(craw << 4) | nrun] + [rng.choice([0, 1, 2, 255, 254, rng.randrange(256)]) for _ in range(craw)]
                col += craw + nrun
    if rng.random() < 0.3:
        b.append(0)      # optional pad byte
    return b


def expect(wd, cases, tag):
    """TLC evaluates Codec!Decompress on every case"""
    cin, cout = os.path.join(wd, tag + ".cases.ndjson"), os.path.join(wd, tag + ".expected.ndjson")
    with open(cin, "w") as f:
        for c in cases:
            f.write(json.dumps({"f": "decompress", "w": c["w"], "h": c["h"], "bpp": c["bpp"], "comp": c["comp"], "data": c["data"]}, separators=(",", ":")) + "\n")
    r = core.tlc("Expect", wd=wd, env={"CASES": cin, "EXPECTED": cout}, timeout=3000, xmx="12g")
    if r.rc != 0:
        raise core.ToolError("Expect pass failed:\n" + core.tail(r.out))
    return [json.loads(l) for l in open(cout)]


def run_cases(wd, cases, tag):
    vh = core.build_harness()
    cin, cout = os.path.join(wd, tag + ".in.ndjson"), os.path.join(wd, tag + ".out.ndjson")
    with open(cin, "w") as f:
        for c in cases:
            f.write(json.dumps({"w": c["w"], "h": c["h"], "bpp": c["bpp"], "comp": c["comp"], "data": c["data"]}, separators=(",", ":")) + "\n")
    rc, err = core.run_harness(vh, "codec", ["--cases", cin, "--out", cout], timeout=3000)
    if rc != 0:
        raise core.ToolError("codec driver failed: " + err[-2000:])
    return [json.loads(l) for l in open(cout)]
