"""Random well-formed shapes of the library's message algebra (C18); values carry -1 for size fields,
which ExpectModel.tla computes."""

BOUND8 = [0, 1, 0x7f, 0x80, 0xff]
BOUND16 = [0, 1, 0x7f, 0x80, 0xff, 0x100, 0x7fff, 0x8000, 0xfffe, 0xffff]
BOUND32 = [[0, 0, 0, 0], [1, 0, 0, 0], [0, 0, 0, 1], [0xff, 0xff, 0xff, 0x7f], [0, 0, 0, 0x80], [0xff, 0xff, 0xff, 0xff], [0x78, 0x56, 0x34, 0x12]]


def leaf(rng, allow_check=True):
    k = rng.choice(["u8", "u16", "u16", "u32", "bytes", "check"] if allow_check else ["u8", "u16", "u32", "bytes"])
    if k == "u8":
        return {"t": "u8"}, rng.choice(BOUND8 + [rng.randrange(256)])
    if k == "u16":
        return {"t": "u16", "e": rng.choice(["le", "be"])}, rng.choice(BOUND16 + [rng.randrange(65536)])
    if k == "u32":
        return {"t": "u32", "e": rng.choice(["le", "be"])}, rng.choice(BOUND32 + [[rng.randrange(256) for _ in range(4)]])
    if k == "bytes":
        n = rng.randint(1, 5)
        return {"t": "bytes", "n": n}, [rng.randrange(256) for _ in range(n)]
    s, v = leaf(rng, False)
    while s["t"] == "bytes":
        s, v = leaf(rng, False)
    return {"t": "check", "s": s, "v": v}, v


def blob(rng):
    n = rng.choice([0, 1, 2, 3, 7, 16])
    return {"t": "rest"}, [rng.randrange(256) for _ in range(n)]


def comp(rng, depth, names):
    fields, vals = [], []
    def fresh():
        names[0] += 1
        return "f%d" % names[0]
    def add(s, v, opt=None, name=None):
        fields.append({"name": name or fresh(), "s": s, "opt": opt or {"k": "none"}})
        vals.append(v)
    pattern = rng.choice(["plain", "sized_blob", "skip", "sized_comp", "sized_arr", "plain", "double_size", "bitmap_like", "chained_skip", "backward_skip"])
    for _ in range(rng.randint(0, 2)):
        add(*leaf(rng))
    if pattern == "sized_blob":
        t = fresh()
        a = rng.choice([0, 0, 2, -4])
        sz = {"t": rng.choice(["u8", "u16"]), "e": rng.choice(["le", "be"])}
        if sz["t"] == "u8":
            sz = {"t": "u8"}
        add(sz, -1, {"k": "size", "target": t, "add": a})
        if rng.random() < 0.5:
            add(*leaf(rng))
        s, v = blob(rng)
        while len(v) < a:
            v.append(rng.randrange(256))
        add(s, v, name=t)
    elif pattern == "double_size":
        # two size-giving fields for the same target: the one read last decides (as bitmapLength and then
        # cbCompMainBodySize do for bitmapDataStream in TS_BITMAP_DATA)
        t = fresh()
        s, v = blob(rng)
        a = rng.choice([0, 0, 2])
        while len(v) < a:
            v.append(rng.randrange(256))
        first = rng.choice([0, 1, len(v), len(v) + 1, len(v) + 8, max(0, len(v) - 1), 300])
        add({"t": "u16", "e": rng.choice(["le", "be"])}, first, {"k": "size", "target": t, "add": 0})
        if rng.random() < 0.5:
            add(*leaf(rng))
        add({"t": "u16", "e": rng.choice(["le", "be"])} if rng.random() < 0.7 else {"t": "u8"}, -1, {"k": "size", "target": t, "add": a})
        add(s, v, name=t)
    elif pattern == "bitmap_like":
        # flags decide whether a second, size-giving header field is present; when it is, it overrides the first size
        t, hname = fresh(), fresh()
        s, v = blob(rng)
        mask = rng.choice([1, 4, 0x40])
        present = rng.random() < 0.6
        flag = rng.choice([x for x in range(256) if bool(x & mask) == present])
        add({"t": "u8"}, flag, {"k": "skip", "target": hname, "mask": mask})
        add({"t": "u16", "e": "le"}, (len(v) + 2) if present else -1, {"k": "size", "target": t, "add": 0})
        add({"t": "u16", "e": "le"}, -1 if present else 0, {"k": "size", "target": t, "add": 0}, name=hname)
        add(s, v, name=t)
    elif pattern == "chained_skip":
        # a field that may be skipped carries a skip option itself: when it is skipped its option does not apply
        # (writing, measuring and reading walk the fields in order)
        t2, t3 = fresh(), fresh()
        m1, m2 = rng.choice([1, 2, 0x80]), rng.choice([1, 4, 0x10])
        p2 = rng.random() < 0.5
        f1 = rng.choice([x for x in range(256) if bool(x & m1) == p2])
        add({"t": "u8"}, f1, {"k": "skip", "target": t2, "mask": m1})
        if p2:
            p3 = rng.random() < 0.5
            f2 = rng.choice([x for x in range(256) if bool(x & m2) == p3])
        else:
            p3, f2 = True, 0            # skipped: keeps its default 0, which must NOT switch the third field off
        add({"t": "u8"}, f2, {"k": "skip", "target": t3, "mask": m2}, name=t2)
        s3, v3 = leaf(rng, False)
        add(s3, v3 if p3 else default(s3), name=t3)
    elif pattern == "backward_skip":
        # a skip option naming a field that stands BEFORE its owner has no effect
        t = fresh()
        s0, v0 = leaf(rng, False)
        add(s0, v0, name=t)
        mask = rng.choice([1, 0x40])
        add({"t": "u8"}, rng.randrange(256), {"k": "skip", "target": t, "mask": mask})
    elif pattern == "skip":
        t = fresh()
        mask = rng.choice([1, 2, 0x10, 0x80])
        present = rng.random() < 0.5
        flag = rng.choice([x for x in range(256) if bool(x & mask) == present])
        add({"t": "u8"}, flag, {"k": "skip", "target": t, "mask": mask})
        s, v = leaf(rng, False)
        add(s, v, name=t)          # value ignored when skipped (default is what a reader keeps)
        if not present:
            vals[-1] = default(s)
    elif pattern == "sized_comp" and depth > 0:
        t = fresh()
        add({"t": "u16", "e": rng.choice(["le", "be"])}, -1, {"k": "size", "target": t, "add": 0})
        s, v = comp(rng, depth - 1, names)
        add(s, v, name=t)
    elif pattern == "sized_arr":
        t = fresh()
        add({"t": "u16", "e": "le"}, -1, {"k": "size", "target": t, "add": 0})
        es, _ = leaf(rng, False)
        n = rng.randint(0, 3)
        add({"t": "arr", "s": es}, [leaf_value(rng, es) for _ in range(n)], name=t)
    for _ in range(rng.randint(0, 2)):
        if depth > 0 and rng.random() < 0.3:
            its = [leaf(rng) for _ in range(rng.randint(1, 3))]
            add({"t": "trame", "items": [i[0] for i in its]}, [i[1] for i in its])
        else:
            add(*leaf(rng))
    tail = rng.choice(["none", "none", "opt", "arr", "rest"])
    if tail == "opt":
        s, v = leaf(rng, False)
        add({"t": "opt", "s": s}, [v] if rng.random() < 0.6 else [])
    elif tail == "arr":
        if depth > 0 and rng.random() < 0.5:
            es = {"t": "comp", "fields": [{"name": "a", "s": {"t": "u8"}, "opt": {"k": "none"}}, {"name": "b", "s": {"t": "u16", "e": "le"}, "opt": {"k": "none"}}]}
            add({"t": "arr", "s": es}, [[rng.randrange(256), rng.randrange(65536)] for _ in range(rng.randint(0, 3))])
        else:
            es, _ = leaf(rng, False)
            add({"t": "arr", "s": es}, [leaf_value(rng, es) for _ in range(rng.randint(0, 3))])
    elif tail == "rest":
        add(*blob(rng))
    if not fields:
        add(*leaf(rng))
    return {"t": "comp", "fields": fields}, vals


def default(s):
    return {"u8": 0, "u16": 0, "u32": [0, 0, 0, 0]}.get(s["t"], [0] * s.get("n", 0))


def leaf_value(rng, s):
    if s["t"] == "u8":
        return rng.randrange(256)
    if s["t"] == "u16":
        return rng.randrange(65536)
    if s["t"] == "u32":
        return [rng.randrange(256) for _ in range(4)]
    return [rng.randrange(256) for _ in range(s["n"])]


def greedy(s):
    """does reading this shape consume everything that follows?"""
    if s["t"] in ("rest", "arr", "opt"):
        return True
    if s["t"] == "comp":
        last = s["fields"][-1]
        sized = any(f["opt"]["k"] == "size" and f["opt"]["target"] == last["name"] for f in s["fields"])
        return (not sized) and greedy(last["s"])
    if s["t"] == "trame":
        return greedy(s["items"][-1])
    if s["t"] == "check":
        return False
    return False


def case(rng):
    if rng.random() < 0.2:
        its = [comp(rng, 1, [0]) for _ in range(rng.randint(1, 2))]
        # only the last item may be greedy
        its = [i for i in its[:-1] if not greedy(i[0])] + [its[-1]]
        s, v = {"t": "trame", "items": [i[0] for i in its]}, [i[1] for i in its]
    else:
        s, v = comp(rng, 2, [0])
    return {"shape": s, "value": v, "greedy": greedy(s)}
