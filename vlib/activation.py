"""Shared pipeline of the properties decided on Activation.tla (C12, C11, C10): MC, Gen, harness
run, pass A, pass B."""
import json
import os
from . import core

INPUTS = [{"api": "write", "dev": "ptr"}, {"api": "try_write", "dev": "key"}, {"api": "write", "dev": "key"},
          {"api": "try_write", "dev": "ptr"}, {"api": "write", "dev": "bmp"}]

MC_ACTIONS = ("Srv", "Input", "Shutdown")


def model_check(wd):
    r = core.tlc("MC_Activation", wd=wd, workers=4, coverage=True, timeout=600)
    core.require_clean_mc(r, "MC_Activation", MC_ACTIONS)
    return r


def generate(wd, depth, simulate=None, seed=None):
    cfg = os.path.join(wd, "Gen_Activation_%d.cfg" % depth)
    src = open(os.path.join(core.SPEC, "Gen_Activation.cfg")).read().replace("Depth = 3", "Depth = %d" % depth)
    open(cfg, "w").write(src)
    r = core.tlc("Gen_Activation", cfg=cfg, wd=wd, workers=1, timeout=900, simulate=simulate, seed=seed, depth=(depth + 2 if simulate else None))
    if r.rc != 0 and not simulate:
        raise core.ToolError("Gen_Activation failed:\n" + core.tail(r.out))
    seen, plans = set(), []
    for p in core.plans_from_printed(r):
        k = json.dumps(p, sort_keys=True)
        if k not in seen:
            seen.add(k)
            plans.append(p)
    return r, plans


def write_plans(path, plans):
    with open(path, "w") as f:
        for i, p in enumerate(plans):
            f.write(json.dumps(p, separators=(",", ":")) + "\n")


def run_and_decode(wd, plans_path, seed, tag="act"):
    vh = core.build_harness()
    trace = os.path.join(wd, tag + ".trace.ndjson")
    blobs = os.path.join(wd, tag + ".blobs.ndjson")
    decoded = os.path.join(wd, tag + ".decoded.ndjson")
    rc, err = core.run_harness(vh, "activation", ["--plans", plans_path, "--trace", trace, "--blobs", blobs, "--seed", str(seed)])
    if rc != 0:
        raise core.ToolError("activation driver failed rc=%s: %s" % (rc, err[-2000:]))
    dec = core.pass_a(blobs, decoded, wd)
    return trace, blobs, decoded, dec


def blob_sides(blobs):
    return [json.loads(l)["side"] for l in open(blobs) if l.strip()]
