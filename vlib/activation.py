"""Shared pipeline of the properties decided on Activation.tla (C12, C11, C10): MC, Gen, harness
run, pass A, pass B."""
import json
import os
from . import core

INPUTS = [{"api": "write", "dev": "ptr"}, {"api": "try_write", "dev": "key"}, {"api": "write", "dev": "key"},
          {"api": "try_write", "dev": "ptr"}, {"api": "write", "dev": "bmp"}]

MC_ACTIONS = ("Srv", "Input", "Shutdown")


def model_check(wd):
    r = core.tlc("MC_Activation", wd=wd, workers=4, coverage=True, timeout=600)
    core.require_clean_mc(r, "MC_Activation", MC_ACTIONS)
    return r


def generate(wd, depth, simulate=None, seed=None, module="Gen_Activation", subst=None):
    import re
    cfg = os.path.join(wd, "%s_%d_%s.cfg" % (module, depth, "sim" if simulate else "bfs"))
    src = open(os.path.join(core.SPEC, module + ".cfg")).read()
    src = re.sub(r"Depth = \d+", "Depth = %d" % depth, src)
    for k, val in (subst or {}).items():
        src = re.sub(r"%s = \d+" % k, "%s = %d" % (k, val), src)
    open(cfg, "w").write(src)
    r = core.tlc(module, cfg=cfg, wd=wd, workers=1, timeout=900, simulate=simulate, seed=seed, depth=(depth + 2 if simulate else None))
    if (r.rc != 0 and not simulate) or r.violated:
        raise core.ToolError("%s failed:\n" % module + core.tail(r.out))
    seen, plans = set(), []
    for p in core.plans_from_printed(r):
        k = json.dumps(p, sort_keys=True)
        if k not in seen:
            seen.add(k)
            plans.append(p)
    return r, plans


def write_plans(path, plans):
    with open(path, "w") as f:
        for i, p in enumerate(plans):
            f.write(json.dumps(p, separators=(",", ":")) + "\n")


def run_and_decode(wd, plans_path, seed, tag="act", v=None, key="activation:abort"):
    """run the activation driver and decode its blobs.  A driver killed while the library runs (abort, refused allocation,
    stack overflow) is an observation about the library: with a Verdict given it becomes a violation naming the plan in
    flight, and what was recorded before is analysed as usual."""
    vh = core.build_harness()
    trace = os.path.join(wd, tag + ".trace.ndjson")
    blobs = os.path.join(wd, tag + ".blobs.ndjson")
    decoded = os.path.join(wd, tag + ".decoded.ndjson")
    marker = os.path.join(wd, tag + ".progress")
    rc, err = core.run_harness(vh, "activation", ["--plans", plans_path, "--trace", trace, "--blobs", blobs, "--seed", str(seed)], env={"VH_PROGRESS": marker})
    if rc is not None and rc < 0 and v is not None:
        cur = open(marker).read().strip() if os.path.exists(marker) else "?"
        v.violation(key, "the driver process died (rc %s: abort / refused allocation / stack overflow) inside the library while running plan %s: %s" % (rc, cur, err[-300:]), {"plan": cur})
        core.keep_complete_lines(trace, drop_last_run=True)
        core.keep_complete_lines(blobs)
    elif rc != 0:
        raise core.ToolError("activation driver failed rc=%s: %s" % (rc, err[-2000:]))
    dec = core.pass_a(blobs, decoded, wd)
    return trace, blobs, decoded, dec


def blob_sides(blobs):
    return [json.loads(l)["side"] for l in open(blobs) if l.strip()]


HAPPY = [{"kind": "DemandActive"}, {"kind": "Sync"}, {"kind": "Control", "action": 4}, {"kind": "Control", "action": 2}, {"kind": "FontMap"}]


def happy_prefix():
    return [{"srv": dict(m)} for m in HAPPY]


def report_rejects(v, rejects, tag):
    for r in rejects:
        ev = json.loads(r["event"])
        run_id = json.loads(r["run_events"][0]).get("run")
        key = "%s:%s:%s:%s" % (tag, r["kind"], ev.get("ev"), ev.get("state"))
        v.violation(key, "recorded run %s is not a behaviour of Activation (first unmatched event #%d: %s)%s" % (
            run_id, r["event_index_in_run"], r["event"][:400], (" invariant " + r["what"]) if r["what"] else ""),
            {"run": run_id, "events": r["run_events"], "tlc": r["tlc_tail"]})


def check_server_blobs(blobs, dec):
    sides = blob_sides(blobs)
    bad = [i for i, d in enumerate(dec) if sides[i] == "s" and not d.get("ok")]
    if bad:
        raise core.ToolError("reference peer produced %d frames the server grammar rejects, e.g. %s" % (len(bad), dec[bad[0]]))
    return sides


def malformed_client_blobs(sides, dec):
    return [(i + 1, d.get("why")) for i, d in enumerate(dec) if sides[i] == "c" and not d.get("ok")]
