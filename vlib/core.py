"""Shared orchestration: build the harness, run TLC in its three roles (MC, Gen, TV), triage
rejections, known findings, evidence files, exit codes.  python3 stdlib only."""
import json
import os
import re
import shutil
import subprocess
import sys
import time
import hashlib

ROOT = os.path.dirname(os.path.dirname(os.path.abspath(__file__)))
SPEC = os.path.join(ROOT, "spec")
WORKROOT = os.path.join(ROOT, "work")
HARNESS = os.path.join(ROOT, "harness")
EVIDENCE = os.path.join(ROOT, "evidence")
REPLAYS = os.path.join(ROOT, "replays")
FINDINGS = os.path.join(ROOT, "KNOWN_FINDINGS.json")
TLA_JAR = "/opt/veriftools/tla/tla2tools.jar"
CM_JAR = "/opt/veriftools/tla/CommunityModules-deps.jar"
OVERRIDES = os.path.join(SPEC, "overrides")


class ToolError(Exception):
    """machinery failure (never a verdict): exit 2"""


def log(*a):
    print(*a, flush=True)


def workdir(tag):
    d = os.path.join(WORKROOT, "%s-%d" % (tag, os.getpid()))
    if os.path.isdir(d):
        shutil.rmtree(d)
    os.makedirs(d)
    return d


def cleanup(d):
    if os.environ.get("VERIF_KEEP"):
        return
    shutil.rmtree(d, ignore_errors=True)


def sh(cmd, cwd=None, env=None, timeout=None, stdout=subprocess.PIPE, stderr=subprocess.STDOUT):
    e = dict(os.environ)
    if env:
        e.update(env)
    try:
        p = subprocess.run(cmd, cwd=cwd, env=e, timeout=timeout, stdout=stdout, stderr=stderr)
    except subprocess.TimeoutExpired:
        raise ToolError("timeout: %s" % " ".join(cmd[:6]))
    out = p.stdout.decode("utf-8", "replace") if p.stdout else ""
    return p.returncode, out


# ----------------------------------------------------------------------------- harness build

_built = {}


def build_harness(release=False, crate=HARNESS, binname="vh"):
    key = (crate, release)
    if key in _built:
        return _built[key]
    lock_src = "/repo/Cargo.lock"
    lock_dst = os.path.join(crate, "Cargo.lock")
    if not os.path.exists(lock_dst) and os.path.exists(lock_src):
        shutil.copy(lock_src, lock_dst)
    cmd = ["cargo", "build", "--offline", "--quiet"] + (["--release"] if release else [])
    env = {"CARGO_NET_OFFLINE": "true", "RUSTFLAGS": os.environ.get("RUSTFLAGS", "") + " -Awarnings"}
    rc, out = sh(cmd, cwd=crate, env=env, timeout=1500)
    if rc != 0:
        raise ToolError("harness build failed:\n" + out[-4000:])
    p = os.path.join(crate, "target", "release" if release else "debug", binname)
    _built[key] = p
    return p


def run_harness(binpath, driver, args, timeout=1800, env=None):
    """run one harness driver; stdout of the library (println!) is discarded"""
    cmd = [binpath, driver] + args
    e = dict(os.environ)
    if env:
        e.update(env)
    try:
        p = subprocess.run(cmd, stdout=subprocess.DEVNULL, stderr=subprocess.PIPE, timeout=timeout, env=e)
    except subprocess.TimeoutExpired:
        raise ToolError("harness timeout: %s" % driver)
    return p.returncode, p.stderr.decode("utf-8", "replace")


# ----------------------------------------------------------------------------- TLC

class TlcResult:
    def __init__(self):
        self.rc = None
        self.out = ""
        self.generated = 0
        self.distinct = 0
        self.depth = 0
        self.actions = {}      # action name -> (distinct, generated)
        self.printed = []      # lines printed by PrintT
        self.violated = None   # name of violated invariant / property
        self.error = None
        self.cmd = ""
        self.wall = 0.0


def tlc(module, cfg=None, wd=None, workers=1, env=None, timeout=900, coverage=False, simulate=None,
        depth=None, deque=False, xmx="6g", seed=None, overrides=False, extra=None):
    """run TLC on SPEC/<module>.tla; returns TlcResult.  rc 0 = no error found."""
    wd = wd or workdir("tlc")
    cfg = cfg or (module + ".cfg")
    cp = [TLA_JAR, CM_JAR]
    jopts = ["-XX:+UseParallelGC", "-Xmx" + xmx, "-Xss1g"]
    if deque:
        jopts.append("-Dtlc2.tool.queue.IStateQueue=StateDeque")
    if overrides:
        cp.append(OVERRIDES)
        jopts.append("-Dtlc2.overrides.TLCOverrides=tlc2.overrides.TLCOverrides:RdpPrims")
    cmd = ["java"] + jopts + ["-cp", ":".join(cp), "tlc2.TLC", "-workers", str(workers),
                              "-metadir", os.path.join(wd, "md-%s-%d" % (module, int(time.time() * 1000) % 100000000)),
                              "-cleanup", "-noGenerateSpecTE", "-config", cfg]
    if coverage:
        cmd += ["-coverage", "1"]
    if simulate:
        cmd += ["-simulate", simulate]
    if depth:
        cmd += ["-depth", str(depth)]
    if seed is not None:
        cmd += ["-seed", str(seed)]
    if extra:
        cmd += extra
    cmd.append(module + ".tla")
    r = TlcResult()
    r.cmd = " ".join(cmd)
    t0 = time.time()
    e = dict(os.environ)
    e.pop("JAVA_TOOL_OPTIONS", None)
    if env:
        e.update(env)
    # TLC's output goes to a file: a violated invariant makes it print the whole behaviour, which for a long trace whose
    # states hold long sequences runs to hundreds of megabytes - only the head (the verdict) and the tail (statistics,
    # post-condition output) are read back
    import tempfile
    of = tempfile.NamedTemporaryFile(prefix="tlc-out-", dir=wd if wd and os.path.isdir(wd) else None, delete=False)
    try:
        try:
            p = subprocess.run(cmd, cwd=SPEC, env=e, timeout=timeout, stdout=of, stderr=subprocess.STDOUT)
        except subprocess.TimeoutExpired:
            raise ToolError("TLC timeout after %ds: %s" % (timeout, module))
        of.close()
        size = os.path.getsize(of.name)
        with open(of.name, "rb") as f:
            if size <= 1 << 30:           # (plans printed by the Gen_* modules come this way too: tens of megabytes)
                raw = f.read()
            else:
                head = f.read(64 << 20)
                f.seek(size - (64 << 20))
                raw = head + b"\n... [%d bytes of TLC output skipped] ...\n" % (size - (128 << 20)) + f.read()
    finally:
        try:
            of.close(); os.remove(of.name)
        except OSError:
            pass
    r.wall = time.time() - t0
    r.rc = p.returncode
    r.out = raw.decode("utf-8", "replace")
    for line in r.out.splitlines():
        m = re.match(r"^(\d+) states generated, (\d+) distinct states found", line)
        if m:
            r.generated, r.distinct = int(m.group(1)), int(m.group(2))
        m = re.match(r"^The depth of the complete state graph search is (\d+)", line)
        if m:
            r.depth = int(m.group(1))
        m = re.match(r"^<(\w+) line \d+, col \d+ to line \d+, col \d+ of module (\w+)[^>]*>: (\d+):(\d+)", line)
        if m:
            d, g = int(m.group(3)), int(m.group(4))
            od, og = r.actions.get(m.group(1), (0, 0))
            r.actions[m.group(1)] = (od + d, og + g)
        m = re.match(r"^Error: Invariant (\w+) is violated", line)
        if m:
            r.violated = m.group(1)
        m = re.match(r"^Error: Action property (\w+) is violated", line)
        if m:
            r.violated = m.group(1)
        if line.startswith("Error: Temporal properties were violated"):
            r.violated = r.violated or "temporal"
        if line.startswith("Error:") and r.error is None:
            r.error = line
        if line.startswith('"') or line.startswith("<<\""):
            r.printed.append(line)
    return r


def require_clean_mc(r, module, must_have_actions=()):
    """model checking must finish without error and without vacuity"""
    if r.violated:
        raise SpecViolation(module, r.violated, r.out)
    if r.rc != 0:
        raise ToolError("TLC failed on %s (rc %s):\n%s" % (module, r.rc, tail(r.out)))
    for a in must_have_actions:
        if r.actions.get(a, (0, 0))[1] == 0:
            raise ToolError("vacuity: action %s of %s was never taken" % (a, module))


def tlaps(module, wd, timeout=900, threads=8):
    """check the TLAPS proofs of SPEC/<module>.tla from scratch (own cache directory); returns the number of proof
    obligations proved.  An unproved obligation is a tool error: the proof is about the model, not about the code."""
    cache = os.path.join(wd, "tlapm-" + module)
    cmd = ["tlapm", "--threads", str(threads), "-I", SPEC, "--cache-dir", cache, os.path.join(SPEC, module + ".tla")]
    try:
        p = subprocess.run(cmd, cwd=wd, timeout=timeout, stdout=subprocess.PIPE, stderr=subprocess.STDOUT)
    except subprocess.TimeoutExpired:
        raise ToolError("tlapm timeout after %ds: %s" % (timeout, module))
    out = p.stdout.decode("utf-8", "replace")
    m = re.search(r"All (\d+) obligations? proved", out)
    if p.returncode != 0 or not m:
        raise ToolError("tlapm could not prove %s:\n%s" % (module, tail(out)))
    return int(m.group(1))


def keep_complete_lines(path, drop_last_run=False):
    """after a driver died in the middle of a write: keep only the lines that are complete JSON (and, for a trace,
    optionally drop the events of the run that was in flight)"""
    if not os.path.exists(path):
        return
    good = []
    for l in open(path, errors="replace").read().split("\n"):
        if not l.strip():
            continue
        try:
            json.loads(l); good.append(l)
        except ValueError:
            break
    if drop_last_run:
        starts = [i for i, l in enumerate(good) if '"ev":"reset"' in l.replace('": "', '":"')]
        if starts:
            good = good[:starts[-1]]
    open(path, "w").write("\n".join(good) + ("\n" if good else ""))


class Probe:
    """Stands in for a Verdict when a comparison itself is tested: the check feeds deliberately corrupted
    observations through the same judging code and every one of them must be flagged (binding self-test of the
    checks whose oracle is an equality with a value computed by TLC)."""
    def __init__(self):
        self.hits = []

    def violation(self, key, what, payload=None):
        self.hits.append(key)


def forward_selftest(cases):
    """cases: list of (name, flagged: bool).  A corrupted observation that is not flagged makes the check void."""
    missed = [n for n, flagged in cases if not flagged]
    if missed:
        raise ToolError("binding self-test: corrupted observations were accepted by the comparison: %s" % missed)
    if not cases:
        raise ToolError("binding self-test: no corrupted observation could be built")
    return sorted({n.split('#')[0] for n, _ in cases})


class SpecViolation(Exception):
    def __init__(self, module, what, out):
        Exception.__init__(self, "%s violates %s" % (module, what))
        self.module, self.what, self.out = module, what, out


def tail(s, n=3000):
    return s[-n:]


def plans_from_printed(r, prefix="PLAN "):
    """PrintT("PLAN " \\o ToJson(x)) lines -> list of python values"""
    out = []
    for line in r.printed:
        try:
            s = json.loads(line)
        except Exception:
            continue
        if isinstance(s, str) and s.startswith(prefix):
            out.append(json.loads(s[len(prefix):]))
    return out


# ----------------------------------------------------------------------------- trace validation

def pass_a(blobs, decoded, wd):
    if not os.path.exists(blobs) or os.path.getsize(blobs) == 0:
        open(decoded, "w").close()
        return []
    big = os.path.getsize(blobs) > 150 * 1024 * 1024
    r = tlc("Decode", wd=wd, workers=1, env={"BLOBS": blobs, "DECODED": decoded}, timeout=2400, xmx="20g" if big else "8g", overrides=os.path.exists(os.path.join(OVERRIDES, "RdpPrims.class")))
    if r.rc != 0:
        raise ToolError("pass A (Decode) failed:\n" + tail(r.out))
    return [json.loads(x) for x in open(decoded) if x.strip()]


def tv_once(module, trace, decoded, wd, extra_env=None, timeout=1800, overrides=False, cfg=None):
    """validate one ndjson trace; returns None if accepted, else the 1-based index of the first
    unmatched event"""
    env = {"TRACE": trace, "DECODED": decoded}
    if extra_env:
        env.update(extra_env)
    r = tlc(module, cfg=cfg, wd=wd, workers=1, env=env, deque=True, timeout=timeout, overrides=overrides)
    rej = None
    for line in r.printed:
        m = re.match(r'^<<"TV_REJECT", (\d+)>>', line)
        if m:
            rej = int(m.group(1))
    if r.violated:
        # an invariant / action property of the spec failed on a state reached by the trace: the
        # offending event is the last one consumed (its 1-based index = value of l in that state - 1)
        ls = re.findall(r"/\\ l = (\d+)", r.out)
        idx = (int(ls[-1]) - 1) if ls else (rej - 1 if rej else 1)
        return ("invariant", r.violated, max(1, idx), r)
    if rej is not None:
        return ("reject", None, rej, r)
    if r.rc != 0:
        raise ToolError("TV (%s) failed:\n%s" % (module, tail(r.out)))
    return None


def tv_reach(module, trace, wd, cfg=None, extra_env=None, timeout=600):
    """trace validation with silent steps: accepted iff the end of the trace is reachable (TLC reports the
    invariant NotDone violated); otherwise returns the 1-based index of the first event no interleaving consumes"""
    env = {"TRACE": trace, "DECODED": "/dev/null"}
    if extra_env:
        env.update(extra_env)
    r = tlc(module, cfg=cfg, wd=wd, workers=1, env=env, timeout=timeout)
    if r.violated == "NotDone":
        return None
    if r.violated:
        return ("invariant", r.violated, 0, r)
    reached = None
    for line in r.printed:
        m = re.match(r'^<<"TV_REACHED", (\d+)>>', line)
        if m:
            reached = int(m.group(1))
    if reached is None:
        raise ToolError("TV (%s) failed:\n%s" % (module, tail(r.out)))
    return ("reject", None, reached, r)


def tv_runs_reach(module, trace, wd, cfg=None, threads=8):
    """every run validated on its own; returns (accepted, rejects)"""
    from concurrent.futures import ThreadPoolExecutor
    lines = [l for l in open(trace).read().split("\n") if l.strip()]
    runs = split_runs(lines)
    def work(k):
        s, e = runs[k]
        p = os.path.join(wd, "reach-%d.ndjson" % k)
        with open(p, "w") as f:
            f.write("\n".join(lines[s:e]) + "\n")
        return k, tv_reach(module, p, wd, cfg=cfg)
    acc, rej = 0, []
    with ThreadPoolExecutor(max_workers=threads) as ex:
        for k, res in ex.map(work, range(len(runs))):
            s, e = runs[k]
            if res is None:
                acc += 1
            else:
                kind, what, idx, r = res
                pos = min(max(idx - 1, 0), e - s - 1)
                rej.append({"kind": kind, "what": what, "run_events": lines[s:e], "event_index_in_run": pos, "event": lines[s + pos], "tlc_tail": tail(r.out, 1200)})
    return acc, rej


def split_runs(lines, reset_key="reset"):
    """indices [start, end) of each run; a run starts at an event with ev == reset"""
    starts = [i for i, l in enumerate(lines) if '"ev":"%s"' % reset_key in l.replace('": "', '":"')]
    runs = []
    for k, s in enumerate(starts):
        e = starts[k + 1] if k + 1 < len(starts) else len(lines)
        runs.append((s, e))
    return runs


def tv_all(module, trace, decoded, wd, max_rejects=3, extra_env=None, overrides=False, shards=1, cfg=None):
    """validate a multi-run trace; every rejected run is found by removing it and validating the
    rest again.  Returns (n_runs_accepted, rejects) with rejects = list of dicts."""
    lines = [l for l in open(trace).read().split("\n") if l.strip()]
    runs = split_runs(lines)
    if not runs:
        raise ToolError("trace %s has no runs" % trace)
    if shards > 1 and len(runs) > shards:
        return _tv_sharded(module, lines, runs, decoded, wd, max_rejects, extra_env, overrides, shards, cfg)
    return _tv_seq(module, lines, runs, decoded, wd, max_rejects, extra_env, overrides, "s0", cfg)


def _tv_seq(module, lines, runs, decoded, wd, max_rejects, extra_env, overrides, tag, cfg=None):
    rejects = []
    alive = list(runs)
    it = 0
    while alive:
        it += 1
        cur = os.path.join(wd, "tv-%s-%d.ndjson" % (tag, it))
        offs = []
        with open(cur, "w") as f:
            n = 0
            for (s, e) in alive:
                offs.append((n, s, e))
                for l in lines[s:e]:
                    f.write(l + "\n")
                n += e - s
        res = tv_once(module, cur, decoded, wd, extra_env=extra_env, overrides=overrides, cfg=cfg)
        if res is None:
            break
        kind, what, idx, r = res
        # idx = 1-based index (in cur) of the first unmatched event / of the offending state's event
        pos = max(0, idx - 1)
        hit = None
        for (n, s, e) in offs:
            if n <= pos < n + (e - s):
                hit = (n, s, e)
        if hit is None:
            hit = offs[-1]
        n, s, e = hit
        rejects.append({"kind": kind, "what": what, "run_events": lines[s:e], "event_index_in_run": pos - n,
                        "event": lines[s + min(pos - n, e - s - 1)], "tlc_tail": tail(r.out, 1500)})
        alive = [x for x in alive if x != (s, e)]
        if len(rejects) >= max_rejects:
            break
    return len(runs) - len(rejects), rejects


def _tv_sharded(module, lines, runs, decoded, wd, max_rejects, extra_env, overrides, shards, cfg=None):
    from concurrent.futures import ThreadPoolExecutor
    chunks = [runs[i::shards] for i in range(shards)]
    def work(k):
        return _tv_seq(module, lines, chunks[k], decoded, wd, max_rejects, extra_env, overrides, "s%d" % k, cfg)
    acc, rej = 0, []
    with ThreadPoolExecutor(max_workers=shards) as ex:
        for a, r in ex.map(work, range(len(chunks))):
            acc += a
            rej += r
    return acc, rej


# ----------------------------------------------------------------------------- findings

def load_findings(prop):
    if not os.path.exists(FINDINGS):
        return []
    data = json.load(open(FINDINGS))
    return [f for f in data.get("findings", []) if f.get("property") == prop]


def finding_for(prop, key):
    """the open known finding whose key matches, if any"""
    for f in load_findings(prop):
        if f.get("status") == "open" and re.search(f["key"], key):
            return f
    return None


# ----------------------------------------------------------------------------- verdicts

class Verdict:
    """collects violations (each with a key and a replay payload), prints the contract lines"""

    def __init__(self, prop, tier, seed):
        self.prop, self.tier, self.seed = prop, tier, seed
        self.violations = []
        self.known = {}
        self.t0 = time.time()

    def violation(self, key, what, payload):
        f = finding_for(self.prop, key)
        if f is not None:
            self.known.setdefault(f["key"], [f, 0])
            self.known[f["key"]][1] += 1
            return
        if any(k == key for k, _, _ in self.violations):
            return          # one replay per distinct key is enough
        d = os.path.join(REPLAYS, self.prop)
        os.makedirs(d, exist_ok=True)
        h = hashlib.sha1(json.dumps([key], sort_keys=True).encode()).hexdigest()[:12]
        path = os.path.join(d, h + ".json")
        with open(path, "w") as f:
            json.dump({"property": self.prop, "key": key, "what": what, "tier": self.tier, "seed": self.seed, "payload": payload}, f, indent=1)
        self.violations.append((key, what, path))

    def finish(self, level, coverage, assumptions, extra=None):
        for k, (f, n) in sorted(self.known.items()):
            log("KNOWN-FINDING: property=%s %s (key %s, %d occurrence(s) this run)" % (self.prop, f.get("what", ""), f["key"], n))
        ev = {"property_id": self.prop, "tier": self.tier, "seed": self.seed, "level": level,
              "coverage": coverage, "assumptions": assumptions, "wall_s": round(time.time() - self.t0, 2),
              "violations": len(self.violations)}
        if extra:
            ev.update(extra)
        ev["coverage"]["known_findings_seen"] = {k: v[1] for k, v in self.known.items()}
        if not os.environ.get("VERIF_NO_EVIDENCE"):          # set by ./check replay
            os.makedirs(EVIDENCE, exist_ok=True)
            with open(os.path.join(EVIDENCE, self.prop + ".json"), "w") as f:
                json.dump(ev, f, indent=1)
        seen = set()
        for key, what, path in self.violations:
            if path in seen:
                continue
            seen.add(path)
            log("VIOLATION property=%s replay=%s" % (self.prop, path))
            log("  key=%s: %s" % (key, what))
        return 1 if self.violations else 0
