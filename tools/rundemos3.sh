#!/bin/bash
# round 3: confirm each seeded change in its scratch worktree (/tmp/mut3/<id>): demo passes without the change, fails with it
for id in "$@"; do
  for m in m1 m2; do
    cd /tmp/mut3/$id || continue
    git checkout -q -- . && git clean -fdq
    O=/tmp/mut3/out/$id
    mkdir -p tests
    if [ -f $O/${m}_demo.rs ]; then
      cp $O/${m}_demo.rs tests/seed_${m}.rs
      FEAT="integration,verif"; grep -q "mstsc-rs" $O/${m}_demo.rs && FEAT="integration,verif,mstsc-rs"
      CMD="cargo test --offline --features $FEAT --test seed_${m} -- --test-threads=1"
    elif [ -f $O/${m}_demo.diff ]; then
      git apply $O/${m}_demo.diff || { echo "DEMO $id $m: demo patch does not apply"; continue; }
      CMD="cargo test --lib --offline --features integration,verif"
    else echo "DEMO $id $m: no demo found ($(ls $O | tr '\n' ' '))"; continue; fi
    RUST_BACKTRACE=0 timeout 900 $CMD > $O/${m}.demo_without.log 2>&1; a=$?
    git apply $O/$m.diff || echo "DEMO $id $m: mutation does not apply on top of demo"
    RUST_BACKTRACE=0 timeout 900 $CMD > $O/${m}.demo_with.log 2>&1; b=$?
    echo "DEMO $id $m: without=$a with=$b ($(grep -E '^test result' $O/${m}.demo_without.log | tail -1 | cut -c1-60) / $(grep -E '^test result' $O/${m}.demo_with.log | tail -1 | cut -c1-60))"
    git checkout -q -- . && git clean -fdq
  done
done
