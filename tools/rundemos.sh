#!/bin/bash
# confirm each seeded change in its scratch worktree: demo passes without the change, fails with it
for id in C01 C02 C03 C04 C10 C11 C12 C13 C14 C15 C16 C17; do
  for m in m1 m2; do
    cd /tmp/mut/$id || continue
    git checkout -q -- . && git clean -fdq
    O=/tmp/mut/out/$id
    if [ -f $O/${m}_demo.rs ]; then cp $O/${m}_demo.rs tests/seed_${m}.rs 2>/dev/null || { mkdir -p tests; cp $O/${m}_demo.rs tests/seed_${m}.rs; }; CMD="cargo test --offline --features integration --test seed_${m} -- --test-threads=1";
    elif [ -f $O/${m}_demo.diff ]; then git apply $O/${m}_demo.diff; CMD="cargo test --lib --offline c10_";
    elif [ -f $O/demo.patch ]; then git apply $O/demo.patch; CMD="cargo test --lib --offline --features verif c11_demo";
    elif [ -f $O/demo_tests.patch ]; then git apply $O/demo_tests.patch; CMD="cargo test --lib --offline c12_";
    else echo "DEMO $id $m: no demo found"; continue; fi
    RUST_BACKTRACE=0 $CMD > $O/${m}.demo_without.log 2>&1; a=$?
    git apply $O/$m.diff || echo "DEMO $id $m: mutation does not apply on top of demo"
    RUST_BACKTRACE=0 $CMD > $O/${m}.demo_with.log 2>&1; b=$?
    echo "DEMO $id $m: without=$a with=$b ($(grep -E '^test result' $O/${m}.demo_without.log | head -1 | cut -c1-60) / $(grep -E '^test result' $O/${m}.demo_with.log | head -1 | cut -c1-60))"
    git checkout -q -- . && git clean -fdq
  done
done
