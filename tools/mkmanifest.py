#!/usr/bin/env python3
"""Regenerates /verif/MANIFEST.json from the table below (kept in one place so the file is always valid)."""
import json, os, subprocess
ROOT = os.path.dirname(os.path.dirname(os.path.abspath(__file__)))

CHECKS = {
 "C12": dict(cat="model_checking", tech="TLA+ spec Activation.tla model-checked by TLC (all histories) + trace validation of recorded RdpClient runs (Trace_Activation.tla), client bytes decoded by WireClient.tla",
             text="TLC proves the window/finalisation/gating invariants on the finite-state Activation model for histories of every length; every behaviour of the model with N server steps plus random long walks is replayed into the real RdpClient with an input attempt of every kind after every step, and each recorded run must be a behaviour of the same model (state, decoded client PDUs, callbacks, results bound at every event). A binding self-test corrupts accepted traces and requires rejection.",
             note="Trusted: TLC, the harness's scripted stream and event logging, hook verif_state (read-only accessor). Server PDUs are well-formed (hostile bytes are C06); result of a read that ignores a PDU is left free.",
             ref="DESIGN.md section 6 C12"),
 "C11": dict(cat="model_checking", tech="TLA+ spec Activation.tla (Input action) model-checked by TLC + trace validation of every recorded write/try_write call, input PDUs decoded by WireClient.tla",
             text="Every recorded input call must be an Input step of the model: inside the window exactly one input PDU whose decoded event (type, flags, coordinates/scancode) equals the submission, outside it or for unsendable kinds an error/drop and no bytes. Plans: every behaviour of Gen_Input (TLC) over buttons x press states x keys x strict/lenient write interleaved with server letters, random walks, and sweeps of x, y, scancode (boundaries+sample quick, all 65536 thorough). Per-call attribution of bytes gives order and exactly-once.",
             note="Trusted: TLC, WireClient.tla (my transcription of MS-RDPBCGR input PDU), harness attribution of writes to calls. MOVE vs MOVE|DOWN for a button-less down event is left free.",
             ref="DESIGN.md section 6 C11"),
 "C10": dict(cat="model_checking", tech="TLA+ spec Activation.tla (fast-path disjunct) + WireServer.tla reference parser; TLC-enumerated PDU shapes replayed into RdpClient::read; trace validation cbs' = rectangles decoded from the server bytes",
             text="TLC enumerates every fast-path PDU shape (0..3/4 updates, bitmap updates with 0..3 rectangles mixed with other update kinds, both length forms); the harness concretises fields and data lengths; the expected callbacks are derived by the TLA+ server grammar from the bytes actually sent and must equal the recorded callbacks one to one, in order, field by field, data byte by data byte.",
             note="Trusted: TLC, WireServer.tla (transcription of MS-RDPBCGR 2.2.9.1.2), reference encoder only for producing bytes (re-decoded by the spec). Conformant, uncompressed, unfragmented updates only.",
             ref="DESIGN.md section 6 C10"),
 "C13": dict(cat="model_checking", tech="TLA+ spec TransportRead.tla (stepwise reader vs reference deframer) model-checked by TLC under every delivery schedule; trace validation of tpkt/x224 read calls with the module's invariants; TLC-evaluated full-domain header tables compared with the implementation",
             text="TLC proves that the four-sized-reads reader returns exactly the reference frames and consumes exactly their bytes for every stream of <= 3 model frames under every chunking (and shows the as-implemented zero-length-body variant violates it). Recorded read calls on a chunking stream are appended to the model state and ExactFrames / NoOverConsumption / RejectConsumes are evaluated by TLC on every state. The reference header interpretation is evaluated by TLC over all 65536 TPKT lengths and all fast-path length forms and compared with the implementation's outcome, each frame followed by a second one.",
             note="Trusted: TLC, scripted stream, pattern-based content comparison for the 100k-row tables. The scripted stream returns Ok(0) at end of data.",
             ref="DESIGN.md section 6 C13"),
 "C14": dict(cat="model_checking", tech="TLA+ spec TransportWrite.tla model-checked by TLC over every accept schedule and failure point; trace validation of Link/tpkt/x224 write calls against an adversarial Write; TLC-evaluated framing table for every payload length",
             text="TLC proves CompleteOrError / OnlyFramePrefix for the looping writer under every partial-accept schedule, Ok(0) and failure (and shows the single-write variant violates it). Recorded write calls (payload, bytes the stream accepted, result, whether a failure or Ok(0) was injected) must satisfy the same invariants; the framing reference is evaluated by TLC for payload lengths 0..70000 on three layers and compared with what reached the stream.",
             note="Trusted: TLC, adversarial stream bookkeeping, pattern-based content comparison in the table part. Ok(0) may yield either an error or a retry.",
             ref="DESIGN.md section 6 C14"),
 "C03": dict(cat="model_checking", tech="TLA+ spec Rdp.tla (negotiation, TLS, CredSSP rounds, MCS, licence, Activation) model-checked by TLC; TLC-drawn (configuration, conforming server) plans run end to end over real TLS/NLA; trace validation (Trace_Rdp.tla) with every frame decoded by the TLA+ wire grammar",
             text="TLC proves MandatedPrefix / JoinsOncePerChannel / ConnIdsEcho / MustSucceed / IdsEcho / OneFinalisePerDA on the composed connection model for every configuration class and server choice. Hundreds of TLC-drawn conforming servers x configurations (thousands in thorough, plus every user id 1001..65535) are executed through Connector::connect against an independent in-process reference server (TLS via OpenSSL, NTLMv2/CredSSP written from MS-NLMP/MS-CSSP), then activation(s), input and shutdown; the server-side log of every client and server message must be a behaviour of Rdp.tla, including success of connect.",
             note="Trusted: TLC, OpenSSL, the reference server as byte producer (its frames are re-decoded by WireServer.tla/WireNla.tla). Conforming-server assumptions listed in the evidence.",
             ref="DESIGN.md section 6 C03"),
 "C04": dict(cat="model_checking", tech="the strict independent parser is the TLA+ wire grammar (WireClient.tla, WireNla.tla) evaluated by TLC on every distinct frame the client wrote in TLC-drawn connections and a name/credential/size sweep; grammar self-checked by TLC against the repository's captured vectors (MC_Wire.tla)",
             text="Every distinct client frame of whole connections over TLS/NLA (TLC-drawn configurations, plus a sweep of client name, domain, user, password over empty / 1..64 code points / 2-byte / 3-byte / surrogate pairs / 15-16-17 unit boundary, screen sizes 0..65535, id boundaries, both Client Info variants) and of activation/input runs is decoded by TLC with the strict grammar: TPKT, X.224, MCS PER, BER connect-initial with DomainParameters, GCC CCrq with CS_CORE/CS_SECURITY/CS_NET, Client Info (+extended), share control/data, confirm active with per-type capability sizes, input PDU, TSRequest DER, NTLM NEGOTIATE/AUTHENTICATE length-offset pairs. Any Bad(reason) or panic is a violation.",
             note="Trusted: TLC and my transcription of the protocol documents (cross-checked by TLC against vectors in the repository's tests: accepted, and single-field corruptions rejected). Sealed TSCredentials are parsed under C17.",
             ref="DESIGN.md section 6 C04"),
 "C02": dict(cat="model_checking", tech="TLA+ spec Rdp.tla (negotiation / TLS part) model-checked by TLC; complete TLC-generated product of configurations x negotiation replies x certificates executed against the reference server over real TLS; trace validation (Trace_Rdp.tla)",
             text="TLC proves SelectedWasOffered, NoCredBeforeTls, OnlyNegoOnRaw, SilentAfterRefusal and the TlsDone guard (untrusted certificate + checking never yields a session) on the connection model. The full product {Connector nla x check, x224 API masks 0..15} x {response with all 256 low-byte selections + 13 high patterns, failure, echoed request, absent, unknown types} x flag bytes x {trusted, untrusted certificate} (17k runs quick) is replayed; the server logs every raw byte the client writes after the confirm; each run must be a behaviour of Rdp.tla (no action exists for clear-text continuation, for a TLS hello after a selection that was not offered, or for success after a refusal).",
             note="Trusted: TLC, OpenSSL trust decision with SSL_CERT_FILE = test CA, server-side logging of raw bytes. Refusing an offered-but-unimplemented protocol is allowed.",
             ref="DESIGN.md section 6 C02"),
 "C15": dict(cat="model_checking", tech="the independent MS-NLMP server is the TLA+ module Ntlm.tla (Verify) evaluated by TLC with Java-override primitives on every AUTHENTICATE token the real Ntlm object produced for TLC-drawn accounts and challenges (Trace_Ntlm.tla)",
             text="For each TLC-drawn (domain, user, password, password-or-hash constructor, flags, server challenge, target-info block) the real Ntlm object produces NEGOTIATE and AUTHENTICATE; Ntlm!Verify derives everything from the account's NT hash (MD4 of the password, computed by TLC) and the three messages: strict field addressing (WireNla), NTProofStr, LMv2 proof, timestamp and target info embedded in temp, RC4-unwrapped exported session key, MIC over the three messages, names in the token = configured account. Hash and password constructors are verified under the same account key.",
             note="Trusted: JDK MD5/HMAC-MD5, hand-written MD4/RC4 in the Java override (known-answer checked at load), TLC. Name classes restricted as stated in the evidence.",
             ref="DESIGN.md section 6 C15"),
 "C16": dict(cat="model_checking", tech="TLA+ spec NtlmSession.tla model-checked by TLC with the real primitives (all message orders, every bit flip) + trace validation of gss_wrapex / gss_unwrapex against Ntlm!Wrap / Ntlm!Unwrap (byte-identical seals, rejection of every altered message)",
             text="TLC proves RoundTrip, TamperRejected, Mirrored and Continuity on the two-direction session model with concrete keys. The real security interface (after a real handshake, and built from mirrored keys) seals message sequences of every length 0..n: each sealed message must equal Ntlm!Wrap in the state the trace reached (cipher stream position and sequence number carried over); messages sealed by the reference peer must unseal to the plaintext; every single-bit flip, truncation and extension must be rejected without plaintext.",
             note="Trusted: Java primitives, TLC. Altered messages are tried on an equivalent rebuilt interface (stated in the evidence).",
             ref="DESIGN.md section 6 C16"),
 "C01": dict(cat="model_checking", tech="TLA+ spec CredSSP.tla (symbolic crypto terms) model-checked by TLC over the whole catalogue of last-round replies; concrete catalogue + every single-bit flip replayed over real TLS/NTLMv2 against Connector::connect; trace validation (Trace_Rdp.tla) decides 'proves' with Ntlm.tla / X509.tla and Java primitives",
             text="TLC proves CredsOnlyAfterProof, FailsUnlessProved, SilentAfterFail, OrderOK on the symbolic model. Every catalogue member (honest, padded, 9 numeric offsets, other certificates, wrong key, wrong direction, reflection, bad checksum/sequence/version, empty, absent, wrong field, BER long form, extensions) x 3 certificates x 8 credential modes, every single-bit flip of the honest TSRequest (2480) and truncations are produced by the independent NTLM server over real TLS. The validator derives the session keys from the wire (Ntlm!Verify with the account's NT hash), checks the client bound its pubKeyAuth to the certificate the TLS peer presented, decides whether the server's reply proves the key (strict DER, Ntlm!Unwrap, numeric comparison with SubjectPublicKey+1) and accepts only: proof => sealed well-formed credentials follow; no proof => connect fails and the client writes nothing more.",
             note="Trusted: Java primitives, OpenSSL, TLC. A non-DER envelope around an honest proof may be accepted or refused (property silent).",
             ref="DESIGN.md section 6 C01"),
 "C17": dict(cat="model_checking", tech="TLA+ specs Rdp.tla (ModeTable, NoCredBeforeTls, OnlyNegoOnRaw) and CredSSP.tla (ModeTable) model-checked by TLC; complete TLC-generated product of the five mode switches x credential classes run over TLS/CredSSP; trace validation with TSCredentials unsealed by Ntlm.tla and a substring search for the password written in TLA+",
             text="All 32 combinations of {NLA, restricted admin, blank credentials, auto logon, password vs hash} x domain/user classes x server selection are executed end to end. The validator checks on the decoded bytes: negotiation request flag = restricted admin; Client Info domain/user/password empty iff restricted admin, auto-logon flag iff requested; TSCredentials (unsealed with keys derived from the wire) empty iff restricted admin or blank credentials, password field empty in hash mode; and every byte the client wrote on the raw transport, in NTLM tokens, in every other TLS message and in the non-password fields of TSCredentials is searched for the UTF-8 and UTF-16LE password.",
             note="Trusted: Java primitives, TLC, OpenSSL. Distinctive passwords make a substring match meaningful.",
             ref="DESIGN.md section 6 C17"),
 "C08": dict(cat="fault_enumeration", tech="malformed neighbours of TLC-enumerated conformant encodings classified by the TLA+ reference decoders (Rle16.tla, Planar.tla, Pixels.tla via Expect.tla); exhaustive short data strings and grammar-aware random streams judged by the totality rule in the harness",
             text="Every conformant interleaved-RLE / planar encoding of tiny images enumerated by TLC is mutated (every truncation point, every byte +-1, undefined order codes, header variants, width/height +-1 and 0, all depths, flag flipped); TLC classifies each neighbour (conformant => exact image, otherwise error or exactly w*h*4 bytes), the real BitmapEvent::decompress is run under catch_unwind with a counting allocator. In addition all data strings of length <= 2 for every geometry 0..3 x 0..3 at 16/32 bpp with both flags (4.2 M cases) and 100 k (quick) / 10 M (thorough) grammar-aware random streams.",
             note="Panics and allocation are observed by the harness (catch_unwind, counting allocator), not by the specification. Dev profile.",
             ref="DESIGN.md section 6 C08"),
 "C09": dict(cat="model_checking", tech="TLA+ reference decoders (Rle16.tla as a transition system per compression order, Planar.tla, Pixels.tla); TLC enumerates every conformant encoding of tiny images with the image it denotes (Gen_Codec, Gen_Planar) and computes expected images of random larger encodings (Expect.tla); byte-exact comparison with BitmapEvent::decompress",
             text="TLC explores the decoder transition system forward: every sequence of conformant orders (all kinds, regular / lite / mega-mega / explicit-run forms, set variants, dithered runs, FG/BG masks, specials) that fills a tiny image is an (encoding, image) pair, 78 k pairs at 16 bpp plus every planar segmentation for tiny images; the stepwise construction is checked against the one-shot decoder (invariant Agree). Random conformant encodings up to 64x16 with all long-run forms, raw bitmaps (row flip) and all 65536 5-6-5 colours are decoded by TLC (Expect.tla). The implementation must return exactly the expected bytes.",
             note="Trusted: TLC and my transcription of MS-RDPBCGR 2.2.9.1.1.3.1.2.4 / MS-RDPEGDI 2.2.2.5.1. Conformance class stated in the evidence.",
             ref="DESIGN.md section 6 C09"),
 "C19": dict(cat="exploration", tech="TLA+ reference Blit.tla; TLC enumerates all small geometries with the exact write list of in-window paints (Gen_Blit); the real fast_bitmap_transfer (included from the binary's source) runs on a guarded window buffer; buffer, guards and outcome compared with the specification",
             text="All window sizes 1..3 x 1..3 (1..4 thorough), all rectangles with coordinates 0..4 (in range, out of range, inverted), all image sizes 0..4 = 140 k geometries enumerated by TLC, with data-length variants and both depths, plus random large geometries with coordinates at 0 / max-1 / max / max+1 / 65535. For rectangles inside the window a successful paint must change exactly the pixels Blit!Writes lists, to exactly the decoded source pixels; for every geometry no panic, no write behind the buffer (guard words), no success when the decoded image is too small.",
             note="TLA+ cannot observe memory: OOB writes are seen through guard words and the nothing-else-changed comparison, OOB reads only when they fault or change the result. Dev profile.",
             ref="DESIGN.md section 6 C19"),
}

NOT_YET = {
}

def main():
    props = [json.loads(l) for l in open(os.path.join(ROOT, "properties.jsonl")) if l.strip()]
    hooks = subprocess.run(["git", "-C", "/repo", "log", "--format=%H %s"], stdout=subprocess.PIPE).stdout.decode().splitlines()
    hook_commits = [h.split()[0] for h in hooks if " verif hook" in h]
    m = {
     "version": 1,
     "setup_cmd": "cd /verif && ./check setup",
     "hooks": {"guard": "cargo feature `verif` of rdp-rs", "enable": "harness depends on rdp-rs with features [integration, verif] (path dependency on /repo)",
               "baseline_off_cmd": "cd /repo && cargo nextest run --workspace --no-fail-fast --offline || cargo test --lib --no-fail-fast --offline",
               "source_commits": hook_commits, "add_only": True},
     "engines": [{"name": "tlc", "path": "/verif/spec", "serves_properties": sorted(CHECKS), "kind_free_text": "explicit TLA+ specification suite checked with TLC: model checking, behaviour generation, trace validation"},
                 {"name": "vh", "path": "/verif/harness", "serves_properties": sorted(CHECKS), "kind_free_text": "Rust conformance harness: replays TLC-generated plans into the real rdp-rs code and records ndjson traces"}],
     "checks": [], "not_applicable": [],
     "notes": "All checks: ./check <ID> --tier quick|thorough; exit 2 = tool error (never a verdict). See DESIGN.md."}
    for p in props:
        i = p["id"]
        if i in CHECKS:
            c = CHECKS[i]
            m["checks"].append({"property_id": i, "quick_cmd": "./check %s --tier quick" % i, "thorough_cmd": "./check %s --tier thorough" % i,
                                "evidence_file": "/verif/evidence/%s.json" % i, "replay_cmd_template": "./check replay {path}", "engine": "tlc",
                                "level_claimed": {"category": c["cat"], "text": c["text"], "design_ref": c["ref"]}, "level_note": c["note"], "technique": c["tech"]})
        else:
            m["not_applicable"].append({"property_id": i, "reason": NOT_YET.get(i, "check not built yet in this round (planned: see DESIGN.md section 6); not claimed until its machinery is green and stable")})
    json.dump(m, open(os.path.join(ROOT, "MANIFEST.json"), "w"), indent=1)
    print("MANIFEST.json: %d checks, %d not applicable" % (len(m["checks"]), len(m["not_applicable"])))

main()
