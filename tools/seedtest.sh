#!/bin/bash
# tools/seedtest.sh <PROP> <patch> [more checks...]: apply a seeded change to /repo, run the baseline unit tests and the
# quick check(s), undo the change.  Prints one summary line.
P=$1; D=$2; shift 2
CHECKS="${@:-$P}"
cd /repo || exit 2
git checkout -q -- . && git clean -fdq
if ! git apply "$D"; then echo "SEED $P $(basename $D): patch does not apply"; exit 2; fi
T=$(cargo test --lib --offline 2>&1 | grep -E '^test result' | head -1)
R=""
for c in $CHECKS; do
  (cd ${VERIF:-/verif} && timeout 1500 ./check $c --tier quick > ${SEEDOUT:-/tmp/mut/out}/$P/$(basename $D).$c.log 2>&1); rc=$?
  k=$(grep -m1 'key=' ${SEEDOUT:-/tmp/mut/out}/$P/$(basename $D).$c.log | cut -c1-160)
  R="$R $c:rc=$rc [$k]"
done
git checkout -q -- . && git clean -fdq
echo "SEED $P $(basename $D): unit-tests: $T | $R"
