#!/bin/bash
# round 2: confirm each seeded change in its scratch worktree: demo passes without the change, fails with it
for id in C05 C06 C07 C08 C09 C18 C19 C20; do
  for m in m1 m2; do
    cd /tmp/mut/$id || continue
    git checkout -q -- . && git clean -fdq
    O=/tmp/mut/out/$id
    mkdir -p tests
    case $id in
      C06) git apply $O/${m}_demo.diff; CMD="cargo test --lib --offline c06_${m}";;
      C19) cp $O/${m}_demo.rs tests/seed_${m}.rs; CMD="cargo test --offline --features mstsc-rs --test seed_${m} -- --test-threads=1";;
      C20) cp $O/c20_demo.rs tests/seed_${m}.rs; CMD="cargo test --offline --features mstsc-rs,verif --test seed_${m} -- --test-threads=1";;
      *) cp $O/${m}_demo.rs tests/seed_${m}.rs; CMD="cargo test --offline --features integration --test seed_${m} -- --test-threads=1";;
    esac
    RUST_BACKTRACE=0 timeout 900 $CMD > $O/${m}.demo_without.log 2>&1; a=$?
    git apply $O/$m.diff || echo "DEMO $id $m: mutation does not apply on top of demo"
    U=$(cargo test --lib --offline 2>&1 | grep -E '^test result' | head -1 | cut -c1-40)
    RUST_BACKTRACE=0 timeout 900 $CMD > $O/${m}.demo_with.log 2>&1; b=$?
    echo "DEMO $id $m: without=$a with=$b unit[$U] ($(grep -E '^test result' $O/${m}.demo_without.log | head -1 | cut -c1-60) / $(grep -E '^test result' $O/${m}.demo_with.log | head -1 | cut -c1-60))"
    git checkout -q -- . && git clean -fdq
  done
done
