#!/bin/sh
# manual trace validation: tools/tv.sh <TraceModule> <dir> <prefix>   (files <dir>/<prefix>trace.ndjson, <prefix>blobs.ndjson)
M=$1; D=$2; P=$3
export BLOBS=$D/${P}blobs.ndjson DECODED=$D/${P}decoded.ndjson TRACE=$D/${P}trace.ndjson
cd /verif/spec
[ -s $BLOBS ] && timeout 300 tlc -workers 1 -metadir $D/md -cleanup -noGenerateSpecTE -config Decode.cfg Decode.tla 2>&1 | grep -E 'Error|rror:' | head
JAVA_TOOL_OPTIONS="-Xss1g -Dtlc2.tool.queue.IStateQueue=StateDeque -Dtlc2.overrides.TLCOverrides=tlc2.overrides.TLCOverrides:RdpPrims" timeout 300 java -cp /opt/veriftools/tla/tla2tools.jar:/opt/veriftools/tla/CommunityModules-deps.jar:/verif/spec/overrides tlc2.TLC -workers 1 -metadir $D/md -cleanup -noGenerateSpecTE -config $M.cfg $M.tla 2>&1 | grep -vE '^(Parsing|Semantic|Linting)' | grep -A${4:-12} -E 'Error|TV_REJECT|states generated' | head -${5:-80}
