#!/usr/bin/env python3
"""Prints a markdown table of what the last run of every check covered (from /verif/evidence/*.json); used to
refresh the appendix of DESIGN.md: python3 tools/coverage_table.py > /tmp/numbers.md"""
import glob
import json
import os

ROOT = os.path.dirname(os.path.dirname(os.path.abspath(__file__)))
print("| property | tier | level | TLC states (MC) | runs validated against the implementation | evaluations | distinct cases | binding self-test (corruptions rejected) | wall s |")
print("|---|---|---|---|---|---|---|---|---|")
for f in sorted(glob.glob(os.path.join(ROOT, "evidence", "C*.json"))):
    e = json.load(open(f))
    c = e.get("coverage", {})
    st = c.get("binding_selftest_rejected") or []
    print("| %s | %s | %s | %s | %s | %s | %s | %s | %s |" % (
        e["property_id"], e["tier"], e["level"], c.get("states", "-"), c.get("traces_validated_against_impl", "-"),
        c.get("evaluations", "-"), c.get("distinct_nontrivial", "-"), len(st), e.get("wall_s")))
