-------------------------------- MODULE Rdp --------------------------------
(* One client connection, end to end: security negotiation (x224.rs),        *)
(* TLS upgrade (link.rs), CredSSP rounds (cssp.rs, abstract here; the        *)
(* cryptographic content is CredSSP.tla / Ntlm.tla), MCS connect / erect /   *)
(* attach / join (mcs.rs), Client Info + licence (sec.rs, license.rs), then  *)
(* the activation automaton (Activation.tla, EXTENDed).                      *)
(*                                                                           *)
(* Every client message is one action `C...` that appends the abstract       *)
(* message to `wire` tagged with the channel it was written on (raw / tls);  *)
(* every server message one action `S...`.  The environment (server,         *)
(* configuration) is nondeterministic.                                       *)
(*                                                                           *)
(* Decides C02 (SelectedWasOffered, NoCredBeforeTls, UntrustedAborts),       *)
(* C03 (MandatedOrder, AfterReply by construction of the phases, IdsEcho,    *)
(* MustSucceed, ShutdownUltimatum) and the mode table of C17.                *)
EXTENDS Activation, FiniteSets, Integers

CONSTANTS Cfgs,       \* connector configurations the model explores
          Replies,    \* negotiation replies the model server may send
          Idents      \* TLS identities: records [name, trusted]

VARIABLES phase,      \* where the connection sequence stands
          cfg,        \* the connector configuration of this run
          offered,    \* protocol mask sent in the connection request
          sel,        \* protocol selected by the server (number, or -1 when it does not fit 31 bits)
          link,       \* "raw" | "tls" : what the client writes on
          wire,       \* client messages so far: sequence of [chan, m]
          joined,     \* channels for which a join request has been sent
          srvOk,      \* the server has behaved as a conforming server of the supported feature set so far
          result      \* "pending" | "ok" | "err" : outcome of connect

cvars == <<phase, cfg, offered, sel, link, wire, joined, srvOk, result>>
allvars == <<vars, cvars>>

PROTOCOL_SSL == 1
PROTOCOL_HYBRID == 2

OfferedOf(c) == IF c.api = "x224" THEN c.mask ELSE PROTOCOL_SSL + (IF c.nla THEN PROTOCOL_HYBRID ELSE 0)

HasProto(mask, p) == (mask \div p) % 2 = 1
\* the selections a client that sent `mask` may continue with (C02): plain RDP security only when
\* nothing else was requested, otherwise exactly one of the requested protocols
SelAllowed(mask, s) == IF mask = 0 THEN s = 0 ELSE s \in {1, 2, 4, 8} /\ HasProto(mask, s)
\* ... and the subset the client implements (C03: within the negotiated feature set connecting succeeds)
SelSupported(mask, s) == s \in {PROTOCOL_SSL, PROTOCOL_HYBRID} /\ HasProto(mask, s)

(***************************************************************************)
(* Client messages of the connection phase (projections of WireClient).    *)
(***************************************************************************)
ConnReq(c)       == [kind |-> "ConnReq", protocols |-> OfferedOf(c), flags |-> IF c.admin THEN 1 ELSE 0]
ConnectInitial(c, s) == [kind |-> "ConnectInitial", width |-> c.w, height |-> c.h, selectedProtocol |-> s]
ErectDomain      == [kind |-> "ErectDomain"]
AttachUser       == [kind |-> "AttachUser"]
ChannelJoin(u, ch) == [kind |-> "ChannelJoin", initiator |-> u, channel |-> ch]
\* C17 mode table: restricted admin empties domain, user and password of the Client Info PDU
ClientInfo(c, u) == [kind |-> "ClientInfo", initiator |-> u, channel |-> IoChan,
                     domain   |-> IF c.admin THEN <<>> ELSE c.domain,
                     user     |-> IF c.admin THEN <<>> ELSE c.user,
                     password |-> IF c.admin THEN <<>> ELSE c.password,
                     autologon |-> c.auto]
TlsHello         == [kind |-> "TlsClientHello"]
TsRequest(n)     == [kind |-> "TsRequest", round |-> n]

Credentialed(m) == m.kind \in {"TsRequest", "ClientInfo"}

Put(m) == wire' = Append(wire, [chan |-> link, m |-> m])

(***************************************************************************)
(* Actions.                                                                *)
(***************************************************************************)
ActStutter == UNCHANGED vars

CInit == /\ Init
         /\ cfg \in Cfgs /\ phase = "start" /\ offered = OfferedOf(cfg) /\ sel = 0 /\ link = "raw"
         /\ wire = <<>> /\ joined = {} /\ srvOk = TRUE /\ result = "pending"

CSendConnReq ==
  /\ phase = "start" /\ Put(ConnReq(cfg)) /\ phase' = "negoSent"
  /\ UNCHANGED <<cfg, offered, sel, link, joined, srvOk, result>> /\ ActStutter

\* the server's connection confirm: r = [neg, sel] (sel = -1 for values beyond 31 bits)
SConfirm(r) ==
  /\ phase = "negoSent"
  /\ LET allowed == r.neg = "rsp" /\ SelAllowed(offered, r.sel) IN
     /\ sel' = (IF r.neg = "rsp" THEN r.sel ELSE 0)
     /\ phase' = IF ~allowed THEN "refuse"
                 ELSE IF r.sel = 0 THEN "plain" ELSE IF r.sel \in {1, 2} THEN "tlsHello" ELSE "refuse"
     /\ srvOk' = (srvOk /\ r.neg = "rsp" /\ SelSupported(offered, r.sel))
  /\ UNCHANGED <<cfg, offered, link, wire, joined, result>> /\ ActStutter

\* the client starts the TLS handshake on the raw transport
CTlsHello ==
  /\ phase = "tlsHello" /\ Put(TlsHello) /\ phase' = "tlsWait"
  /\ UNCHANGED <<cfg, offered, sel, link, joined, srvOk, result>> /\ ActStutter

\* handshake outcome with the identity the server presented
TlsDone(id, ok) ==
  /\ phase = "tlsWait"
  /\ ok => (~cfg.check \/ id.trusted)          \* an untrusted certificate never yields a session when checking is on
  /\ ~ok => (cfg.check /\ ~id.trusted)         \* and nothing else makes the handshake with the reference server fail
  /\ IF ok THEN /\ link' = "tls" /\ phase' = (IF sel = PROTOCOL_HYBRID THEN "nla0" ELSE "mcs") /\ UNCHANGED srvOk
           ELSE /\ link' = link /\ phase' = "refuse" /\ srvOk' = FALSE
  /\ UNCHANGED <<cfg, offered, sel, wire, joined, result>> /\ ActStutter

\* CredSSP, three client TSRequests, each after the server's answer to the previous one
CNla(n) ==
  /\ phase = <<"nla0", "nla1", "nla2">>[n] /\ Put(TsRequest(n))
  /\ phase' = <<"nlaWait1", "nlaWait2", "mcs">>[n]
  /\ UNCHANGED <<cfg, offered, sel, link, joined, srvOk, result>> /\ ActStutter
SNla(n, good) ==
  /\ phase = <<"nlaWait1", "nlaWait2">>[n]
  /\ phase' = IF good THEN <<"nla1", "nla2">>[n] ELSE "refuse"
  /\ srvOk' = (srvOk /\ good)
  /\ UNCHANGED <<cfg, offered, sel, link, wire, joined, result>> /\ ActStutter

CSendConnectInitial ==
  /\ phase = "mcs" /\ Put(ConnectInitial(cfg, sel)) /\ phase' = "mcsWait"
  /\ UNCHANGED <<cfg, offered, sel, link, joined, srvOk, result>> /\ ActStutter
SConnectResponse(good) ==
  /\ phase = "mcsWait" /\ phase' = (IF good THEN "erect" ELSE "refuse") /\ srvOk' = (srvOk /\ good)
  /\ UNCHANGED <<cfg, offered, sel, link, wire, joined, result>> /\ ActStutter
CSendErect ==
  /\ phase = "erect" /\ Put(ErectDomain) /\ phase' = "attach"
  /\ UNCHANGED <<cfg, offered, sel, link, joined, srvOk, result>> /\ ActStutter
CSendAttach ==
  /\ phase = "attach" /\ Put(AttachUser) /\ phase' = "attachWait"
  /\ UNCHANGED <<cfg, offered, sel, link, joined, srvOk, result>> /\ ActStutter
SAttachConfirm(u) ==
  /\ phase = "attachWait" /\ userId' = u /\ phase' = "join"
  /\ UNCHANGED <<act, shareId, out, cbs, inres, obs>>
  /\ UNCHANGED <<cfg, offered, sel, link, wire, joined, srvOk, result>>
\* one join per channel (the user channel and the I/O channel), in either order
CSendJoin(ch) ==
  /\ phase = "join" /\ ch \in {userId, IoChan} \ joined
  /\ Put(ChannelJoin(userId, ch)) /\ joined' = joined \cup {ch} /\ phase' = "joinWait"
  /\ UNCHANGED <<cfg, offered, sel, link, srvOk, result>> /\ ActStutter
SJoinConfirm ==
  /\ phase = "joinWait" /\ phase' = (IF joined = {userId, IoChan} THEN "info" ELSE "join")
  /\ UNCHANGED <<cfg, offered, sel, link, wire, joined, srvOk, result>> /\ ActStutter
CSendClientInfo ==
  /\ phase = "info" /\ Put(ClientInfo(cfg, userId)) /\ phase' = "licenceWait"
  /\ UNCHANGED <<cfg, offered, sel, link, joined, srvOk, result>> /\ ActStutter
SLicence(good) ==
  /\ phase = "licenceWait" /\ phase' = (IF good THEN "connected" ELSE "refuse") /\ srvOk' = (srvOk /\ good)
  /\ UNCHANGED <<cfg, offered, sel, link, wire, joined, result>> /\ ActStutter

\* connect returns
CConnected == /\ phase = "connected" /\ result = "pending" /\ result' = "ok" /\ phase' = "session"
              /\ UNCHANGED <<cfg, offered, sel, link, wire, joined, srvOk>> /\ ActStutter
\* plain RDP security was requested and selected (x224 API with an empty mask only): the X.224 layer
\* is connected without TLS; the model ends here because nothing credential-bearing may follow
CConnectedPlain == /\ phase = "plain" /\ result = "pending" /\ result' = "ok" /\ phase' = "plainUp"
                   /\ UNCHANGED <<cfg, offered, sel, link, wire, joined, srvOk>> /\ ActStutter
\* x224::Client::connect used directly (api = "x224"): the layer is up once TLS (and CredSSP) are done
CX224Up == /\ cfg.api = "x224" /\ phase = "mcs" /\ result = "pending" /\ result' = "ok" /\ phase' = "x224Up"
           /\ UNCHANGED <<cfg, offered, sel, link, wire, joined, srvOk>> /\ ActStutter
\* the server hangs up (or stops answering): from then on the client may fail
SHangUp == /\ srvOk' = FALSE /\ UNCHANGED <<phase, cfg, offered, sel, link, wire, joined, result>> /\ ActStutter
\* the client gives up: allowed whenever the server left the supported feature set, mandatory in "refuse"
CGiveUp == /\ result = "pending" /\ ~srvOk /\ result' = "err" /\ phase' = "failed"
           /\ UNCHANGED <<cfg, offered, sel, link, wire, joined, srvOk>> /\ ActStutter

\* the session: Activation's actions, every client message tagged with the link
Session(A) == /\ phase = "session" /\ A
              /\ wire' = wire \o [k \in 1..Len(out') |-> [chan |-> link, m |-> out'[k]]]
              /\ UNCHANGED <<phase, cfg, offered, sel, link, joined, srvOk, result>>

ModelIdents == Idents
CNext ==
  \/ CSendConnReq \/ (\E r \in Replies : SConfirm(r)) \/ CTlsHello
  \/ (\E id \in ModelIdents, ok \in BOOLEAN : TlsDone(id, ok))
  \/ (\E n \in 1..3 : CNla(n)) \/ (\E n \in 1..2, g \in BOOLEAN : SNla(n, g))
  \/ CSendConnectInitial \/ (\E g \in BOOLEAN : SConnectResponse(g)) \/ CSendErect \/ CSendAttach
  \/ (\E u \in UserIds : SAttachConfirm(u)) \/ (\E ch \in UserIds \cup {IoChan} : CSendJoin(ch)) \/ SJoinConfirm
  \/ CSendClientInfo \/ (\E g \in BOOLEAN : SLicence(g)) \/ CConnected \/ CConnectedPlain \/ CX224Up \/ SHangUp \/ CGiveUp
  \/ (\E m \in ModelMsgs : Session(Srv(m)))
  \/ (\E e \in ModelInputs, len \in BOOLEAN : Session(Input(e, len)))
  \/ Session(Shutdown)

CSpec == CInit /\ [][CNext]_allvars

(***************************************************************************)
(* Properties.                                                             *)
(***************************************************************************)
Kinds == [k \in 1..Len(wire) |-> wire[k].m.kind]

\* C02: the client continues only with a protocol it offered
SelectedWasOffered == phase \notin {"start", "negoSent", "refuse", "failed"} => SelAllowed(offered, sel)
\* C02: no credential-bearing message unless TLS is up on this connection
NoCredBeforeTls == \A k \in 1..Len(wire) : Credentialed(wire[k].m) => wire[k].chan = "tls"
\* C02 / C17: nothing but the connection request and a TLS hello ever travels on the raw transport
\* when a security protocol was requested
OnlyNegoOnRaw == offered # 0 => \A k \in 1..Len(wire) : wire[k].chan = "raw" => wire[k].m.kind \in {"ConnReq", "TlsClientHello"}
\* C02: after a refusal nothing more is written
\* (a step to phase "start" is the beginning of another connection in a multi-run trace)
SilentAfterRefusal == [][(phase \in {"refuse", "failed"} /\ phase' # "start") => (wire' = wire)]_allvars
\* C17: the mode table - restricted admin is announced in the request and empties the Client Info
\* credentials, the auto-logon flag is set exactly when requested (the CredSSP half is CredSSP!ModeTable
\* and Trace_Rdp!TCDer3)
ModeTable == \A k \in 1..Len(wire) :
   /\ wire[k].m.kind = "ConnReq" => wire[k].m.flags = (IF cfg.admin THEN 1 ELSE 0)
   /\ wire[k].m.kind = "ClientInfo" =>
        /\ wire[k].m.autologon = cfg.auto
        /\ cfg.admin => (wire[k].m.domain = <<>> /\ wire[k].m.user = <<>> /\ wire[k].m.password = <<>>)
        /\ ~cfg.admin => (wire[k].m.domain = cfg.domain /\ wire[k].m.user = cfg.user /\ wire[k].m.password = cfg.password)
\* C03: connecting succeeds against a conforming server of the supported feature set
MustSucceed == result = "err" => ~srvOk
\* C03: the mandated order (each kind's position; joins in either order)
MandatedPrefix ==
  LET k == Kinds
      nlaLen == IF sel = PROTOCOL_HYBRID /\ phase \notin {"start", "negoSent", "refuse", "failed", "tlsHello", "tlsWait"} THEN 3 ELSE 0 IN
  /\ Len(k) >= 1 => k[1] = "ConnReq"
  /\ \A i \in 1..Len(k) : k[i] = "ConnectInitial" => \A j \in 1..(i-1) : k[j] \in {"ConnReq", "TlsClientHello", "TsRequest"}
  /\ \A i \in 1..Len(k) : k[i] = "ErectDomain"  => i > 1 /\ k[i-1] = "ConnectInitial"
  /\ \A i \in 1..Len(k) : k[i] = "AttachUser"   => i > 1 /\ k[i-1] = "ErectDomain"
  /\ \A i \in 1..Len(k) : k[i] = "ChannelJoin"  => i > 1 /\ k[i-1] \in {"AttachUser", "ChannelJoin"}
  /\ \A i \in 1..Len(k) : k[i] = "ClientInfo"   => i > 2 /\ k[i-1] = "ChannelJoin" /\ k[i-2] = "ChannelJoin"
  /\ \A i \in 1..Len(k) : k[i] \in {"ConfirmActive", "Sync", "Control", "FontList", "Input", "Ultimatum"} => \E j \in 1..(i-1) : k[j] = "ClientInfo"
JoinsOncePerChannel ==
  LET js == {i \in 1..Len(wire) : wire[i].m.kind = "ChannelJoin"} IN
  /\ Cardinality(js) <= 2
  /\ \A i, j \in js : i # j => wire[i].m.channel # wire[j].m.channel
  /\ \A i \in js : wire[i].m.initiator = userId /\ wire[i].m.channel \in {userId, IoChan}
\* C03: identifiers assigned by the server are echoed
ConnIdsEcho == \A k \in 1..Len(wire) :
   /\ wire[k].m.kind = "ConnectInitial" => wire[k].m.selectedProtocol = sel
   /\ wire[k].m.kind = "ClientInfo" => wire[k].m.initiator = userId /\ wire[k].m.channel = IoChan
=============================================================================
