------------------------- MODULE MC_TransportRead -------------------------
EXTENDS TransportRead
\* frames the model server composes streams from: slow path with payloads of 0..2 bytes whose
\* content can itself look like a header, fast path in both length forms incl. empty payloads,
\* and frames whose declared length is shorter than their own header
MCFrames == { <<3, 0, 0, 4>>, <<3, 0, 0, 5, 3>>, <<3, 0, 0, 6, 0, 2>>,
              <<0, 2>>, <<192, 3, 3>>, <<64, 4, 128, 0>>,
              <<0, 128, 3>>, <<128, 128, 4, 3>>, <<0, 128, 5, 0, 0>>,
              <<3, 0, 0, 3>>, <<0, 1>>, <<0, 128, 2>> }
RECURSIVE SeqsUpTo(_, _)
SeqsUpTo(S, n) == IF n = 0 THEN {<<>>} ELSE LET R == SeqsUpTo(S, n - 1) IN R \cup { Append(r, x) : r \in R, x \in S }
MCStreams == { Concat(fs) : fs \in SeqsUpTo(MCFrames, 3) } \cup { Concat(fs) \o <<3>> : fs \in SeqsUpTo(MCFrames, 1) }
=============================================================================
