-------------------------- MODULE Gen_Activation --------------------------
(* Behaviour generation (spec -> implementation): every behaviour of the     *)
(* Activation model in which the server speaks Depth times is printed as a   *)
(* plan holding ONLY the environment's choices (the server messages).  The   *)
(* expected client behaviour is not printed: it is whatever Activation       *)
(* allows, decided afterwards by Trace_Activation on the recorded run.       *)
EXTENDS Activation, Json

CONSTANT Depth
VARIABLE hist

GShareIds == {<<1, 0, 0, 0>>, <<255, 255, 255, 255>>}
GUserIds == {1004}
GCoords == {0}
G1 == [l |-> 0, t |-> 0, r |-> 1, b |-> 1, w |-> 2, h |-> 2, bpp |-> 32, comp |-> FALSE, data |-> <<1, 2, 3, 4>>]
G2 == [l |-> 65535, t |-> 6, r |-> 7, b |-> 65535, w |-> 3, h |-> 3, bpp |-> 16, comp |-> TRUE, data |-> <<>>]
G3 == [l |-> 1, t |-> 2, r |-> 3, b |-> 4, w |-> 0, h |-> 1, bpp |-> 24, comp |-> TRUE, data |-> <<9>>]
GRectSeqs == {<<G1>>, <<G1, G2, G3>>}

\* one message per letter of C12's alphabet, two for the letters that carry parameters
GenMsgs == { m \in ModelMsgs : m.kind = "Control" => m.action \in {1, 2, 4} }

GInit == Init /\ hist = <<>>
GNext == /\ Len(hist) < Depth
         /\ \E m \in GenMsgs : Srv(m) /\ hist' = Append(hist, m)
GSpec == GInit /\ [][GNext]_<<vars, hist>>

Emit == Len(hist) = Depth => PrintT("PLAN " \o ToJson(hist))
=============================================================================
