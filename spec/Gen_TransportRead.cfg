SPECIFICATION RSpec
CONSTANTS
  Streams <- One
  MaxFrame = 65535
  ZeroLenBody = "empty"
CHECK_DEADLOCK FALSE
