---------------------------- MODULE TransportRead ----------------------------
(* Read side of the framing layer as a step machine (C13); see Transport.tla. *)
EXTENDS Transport

CONSTANTS Streams,        \* byte streams the server may send
          ZeroLenBody     \* "empty" (required) | "read_available" (what Link::read(0) does)

(***************************************************************************)
(* Read side step machine.                                                 *)
(***************************************************************************)
VARIABLES buf,      \* the whole stream the server sends in this behaviour
          pos,      \* bytes consumed from the stream so far
          phase,    \* idle | hdr | ext | fpext | body | dead
          need,     \* bytes the current sized read still waits for
          got,      \* bytes of the current sized read so far
          h,        \* header fields kept across phases: [kind, sec]
          results   \* what the read calls returned so far

rvars == <<buf, pos, phase, need, got, h, results>>

RInit == /\ buf \in Streams /\ pos = 0 /\ phase = "idle" /\ need = 0 /\ got = <<>>
         /\ h = [kind |-> "none", sec |-> 0] /\ results = <<>>

Avail == Len(buf) - pos

\* a read call starts: first sized read of 2 bytes
Call == /\ phase = "idle"
        /\ phase' = "hdr" /\ need' = 2 /\ got' = <<>>
        /\ UNCHANGED <<buf, pos, h, results>>

\* the stream hands out k bytes of what the current sized read waits for
StreamDeliver(k) ==
  /\ phase \in {"hdr", "ext", "fpext", "body"} /\ need > 0
  /\ k \in 1..need /\ k <= Avail
  /\ got' = got \o Sub(buf, pos + 1, k) /\ pos' = pos + k /\ need' = need - k
  /\ UNCHANGED <<buf, phase, h, results>>

\* the stream is exhausted in the middle of a sized read: the call fails, the layer is dead
StreamEof ==
  /\ phase \in {"hdr", "ext", "fpext", "body"} /\ need > 0 /\ Avail = 0
  /\ results' = Append(results, [res |-> "err", why |-> "eof"]) /\ phase' = "dead"
  /\ UNCHANGED <<buf, pos, need, got, h>>

Fail(why) == /\ results' = Append(results, [res |-> "err", why |-> why, consumed |-> pos]) /\ phase' = "dead"
             /\ UNCHANGED <<buf, pos, need, got, h>>

StartBody(kind, sec, n) ==
  /\ h' = [kind |-> kind, sec |-> sec] /\ got' = <<>>
  /\ IF n = 0 /\ ZeroLenBody = "empty"
     THEN /\ results' = Append(results, [res |-> "ok", kind |-> kind, sec |-> sec, payload |-> <<>>, consumed |-> pos])
          /\ phase' = "idle" /\ need' = 0
     ELSE /\ phase' = "body" /\ need' = n /\ UNCHANGED results
  /\ UNCHANGED <<buf, pos>>

\* one sized read is complete: interpret it (tpkt.rs 124-172)
ReadHdr == /\ phase = "hdr" /\ need = 0
           /\ IF got[1] = 3 THEN /\ phase' = "ext" /\ need' = 2 /\ got' = <<>> /\ UNCHANGED <<buf, pos, h, results>>
              ELSE IF got[2] >= 128 THEN /\ phase' = "fpext" /\ need' = 1 /\ UNCHANGED <<buf, pos, got, h, results>>
              ELSE IF got[2] < 2 THEN Fail("short")
              ELSE StartBody("fp", (got[1] \div 64) % 4, got[2] - 2)

ReadExt == /\ phase = "ext" /\ need = 0
           /\ LET n == U16BE(got, 1) IN
              IF n < 4 THEN Fail("short") ELSE StartBody("raw", 0, n - 4)

ReadFpExt == /\ phase = "fpext" /\ need = 0       \* got = <<action, short_length, low length>>
             /\ LET n == (got[2] - 128) * 256 + got[3] IN
                IF n < 3 THEN Fail("short") ELSE StartBody("fp", (got[1] \div 64) % 4, n - 3)

ReadBody == /\ phase = "body" /\ need = 0 /\ (Len(got) > 0 \/ ZeroLenBody = "empty")
            /\ results' = Append(results, [res |-> "ok", kind |-> h.kind, sec |-> h.sec, payload |-> got, consumed |-> pos])
            /\ phase' = "idle" /\ UNCHANGED <<buf, pos, need, got, h>>

\* deviation "read_available": a body of size 0 is served by ONE unsized read of whatever is there
ReadAvailable(k) ==
  /\ ZeroLenBody = "read_available" /\ phase = "body" /\ need = 0 /\ got = <<>>
  /\ k \in 0..Avail /\ (Avail > 0 => k > 0)
  /\ results' = Append(results, [res |-> "ok", kind |-> h.kind, sec |-> h.sec, payload |-> Sub(buf, pos + 1, k), consumed |-> pos + k])
  /\ pos' = pos + k /\ phase' = "idle" /\ UNCHANGED <<buf, need, got, h>>

RNext == \/ Call \/ StreamEof \/ ReadHdr \/ ReadExt \/ ReadFpExt \/ ReadBody
         \/ \E k \in 1..4 : StreamDeliver(k)
         \/ \E k \in 0..8 : ReadAvailable(k)

RSpec == RInit /\ [][RNext]_rvars

IsPrefix(s, t) == Len(s) <= Len(t) /\ \A i \in 1..Len(s) : s[i] = t[i]
StripWhy(r) == IF r.res = "ok" THEN r ELSE [res |-> "err", why |-> r.why]

\* C13: for every schedule the reads return exactly the reference frames, in order, and consume
\* exactly their bytes (the `consumed` field of every ok result is the end of that frame)
ExactFrames == LET ref == RefFrames(buf) IN
               /\ Len(results) <= Len(ref)
               /\ \A i \in 1..Len(results) : StripWhy(results[i]) = StripWhy(ref[i])
\* between calls nothing beyond the last returned frame has been consumed
NoOverConsumption == phase = "idle" /\ results # <<>> /\ results[Len(results)].res = "ok"
                        => pos = results[Len(results)].consumed

=============================================================================
