------------------------------- MODULE MC_Rdp -------------------------------
EXTENDS Rdp
MCShareIds == {<<1, 0, 0, 0>>}
MCUserIds == {1004, 65535}
MCCoords == {}
MCRectSeqs == {<<>>}
Base == [w |-> 800, h |-> 600, domain |-> "d", user |-> "u", password |-> "p"]
MCCfgs == { Base @@ [api |-> "connector", mask |-> 0, nla |-> n, check |-> c, admin |-> a, auto |-> g] :
               n \in BOOLEAN, c \in BOOLEAN, a \in BOOLEAN, g \in BOOLEAN }
     \cup { Base @@ [api |-> "x224", mask |-> k, nla |-> FALSE, check |-> FALSE, admin |-> FALSE, auto |-> FALSE] : k \in {0, 1, 2, 3, 8, 11} }
MCReplies == { [neg |-> "rsp", sel |-> s] : s \in {0, 1, 2, 3, 4, 8, 16, 256, 258, -1} }
        \cup { [neg |-> k, sel |-> 0] : k \in {"failure", "req", "absent", "unknown"} }
MCIdents == { [name |-> "leaf", trusted |-> TRUE], [name |-> "selfsigned", trusted |-> FALSE] }
Bound == Len(wire) <= 17
=============================================================================
