----------------------------- MODULE Trace_Faults -----------------------------
(* Acceptance of connection-setup and NLA calls that consumed a hostile server *)
(* message (C05, C07): the call returns a value or an error - a panic, an      *)
(* abort or a hang has no action here - and the live heap it requested stays   *)
(* within the bound every nested 16-bit length field allows.                   *)
EXTENDS TraceLib

VARIABLES l, nOk, nErr
tvars == <<l, nOk, nErr>>
IsEvent(e) == l <= Len(Rec) /\ Rec[l].ev = e /\ l' = l + 1

AllocBound(e) == e.peak <= 4 * 65536 + 64 * e.sent

TInit == l = 1 /\ nOk = 0 /\ nErr = 0
TReset == IsEvent("reset") /\ UNCHANGED <<nOk, nErr>>
TCall == /\ (IsEvent("setup") \/ IsEvent("nla"))
         /\ LET e == Rec[l] IN
            /\ e.res \in {"ok", "err"}
            /\ AllocBound(e)
            /\ nOk' = nOk + (IF e.res = "ok" THEN 1 ELSE 0) /\ nErr' = nErr + (IF e.res = "err" THEN 1 ELSE 0)
TNext == TReset \/ TCall
TSpec == TInit /\ [][TNext]_tvars
=============================================================================
