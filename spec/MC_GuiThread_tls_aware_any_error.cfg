SPECIFICATION Spec
CONSTANTS
  Scripts <- MCScripts
  PollSource = "tls_aware"
  ExitOn = "any_error"
  GuiWrites = 1
INVARIANTS NoStall ForwardedInOrder
PROPERTIES StopsWithSession KeepsUp
CHECK_DEADLOCK FALSE
