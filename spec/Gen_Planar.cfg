SPECIFICATION GSpec
CONSTANTS
  W = 2
  H = 1
  Vals = {0, 200}
INVARIANTS Emit Conformant
CHECK_DEADLOCK FALSE
