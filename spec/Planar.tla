------------------------------- MODULE Planar -------------------------------
(* RDP 6.0 planar bitmap compression at 32 bpp (MS-RDPEGDI 2.2.2.5.1) for    *)
(* the format header 0x10: RLE, alpha plane present, no chroma subsampling,   *)
(* no colour-loss.  Four planes A, R, G, B, each a sequence of scanlines      *)
(* (bottom row first), each scanline a sequence of segments                   *)
(* controlByte(cRaw high nibble, nRun low nibble) rawValues.  The first       *)
(* scanline holds absolute values; later scanlines hold deltas to the         *)
(* scanline below, coded 2*d (d >= 0) or 2*(-d) - 1 (d < 0).                  *)
EXTENDS Bytes

\* signed delta of a coded byte
Delta(x) == IF x % 2 = 0 THEN x \div 2 ELSE 0 - ((x \div 2) + 1)
Wrap(v) == ((v % 256) + 256) % 256

\* one scanline of one plane: s = [i, line (values so far), last (last raw value / delta)]
\* returns [ok, line, next]
RECURSIVE Scan(_, _, _, _, _, _)
Scan(b, i, w, line, last, below) ==
  IF Len(line) = w THEN [ok |-> TRUE, line |-> line, next |-> i]
  ELSE IF i > Len(b) THEN Bad("planar: truncated scanline")
  ELSE LET c == b[i]
           n0 == c % 16  r0 == c \div 16
           nRun == IF n0 = 1 THEN r0 + 16 ELSE IF n0 = 2 THEN r0 + 32 ELSE n0
           cRaw == IF n0 \in {1, 2} THEN 0 ELSE r0 IN
       IF nRun = 0 /\ cRaw = 0 THEN Bad("planar: empty segment")
       ELSE IF Len(line) + cRaw + nRun > w THEN Bad("planar: segment exceeds the scanline")
       ELSE IF i + cRaw > Len(b) THEN Bad("planar: truncated raw values")
       ELSE LET rawv == [k \in 1..cRaw |-> b[i + k]]
                newlast == IF cRaw > 0 THEN rawv[cRaw] ELSE last
                seg == rawv \o [k \in 1..nRun |-> newlast]
                vals == IF below = <<>> THEN seg
                        ELSE [k \in 1..Len(seg) |-> Wrap(below[Len(line) + k] + Delta(seg[k]))] IN
            Scan(b, i + 1 + cRaw, w, line \o vals, newlast, below)

\* a whole plane: h scanlines, bottom row first; returns [ok, rows (sequence of lines, bottom first), next]
RECURSIVE Plane(_, _, _, _, _)
Plane(b, i, w, h, rows) ==
  IF Len(rows) = h THEN [ok |-> TRUE, rows |-> rows, next |-> i]
  ELSE LET below == IF rows = <<>> THEN <<>> ELSE rows[Len(rows)]
           s == Scan(b, i, w, <<>>, 0, below) IN
       IF ~s.ok THEN s ELSE Plane(b, s.next, w, h, Append(rows, s.line))

\* [ok, bytes (top-down BGRA)] | Bad
Decode32(b, w, h) ==
  IF Len(b) < 1 THEN Bad("planar: empty")
  ELSE IF b[1] # 16 THEN Bad("planar: format header other than 0x10 (outside the implemented feature set)")
  ELSE IF w = 0 \/ h = 0 THEN (IF Len(b) = 1 THEN [ok |-> TRUE, bytes |-> <<>>] ELSE Bad("planar: data for an empty image"))
  ELSE LET a == Plane(b, 2, w, h, <<>>) IN IF ~a.ok THEN a
  ELSE LET r == Plane(b, a.next, w, h, <<>>) IN IF ~r.ok THEN r
  ELSE LET g == Plane(b, r.next, w, h, <<>>) IN IF ~g.ok THEN g
  ELSE LET bl == Plane(b, g.next, w, h, <<>>) IN IF ~bl.ok THEN bl
  \* a conformant stream may end with one pad byte (MS-RDPEGDI: "Pad" after the last plane when RLE is used)
  ELSE IF bl.next # Len(b) + 1 /\ ~(bl.next = Len(b) /\ b[Len(b)] = 0) THEN Bad("planar: bytes after the last plane")
  ELSE [ok |-> TRUE, bytes |-> [k \in 1..(4 * w * h) |->
           LET px == (k - 1) \div 4  ch == (k - 1) % 4
               row == px \div w  col == px % w
               src == h - row IN          \* rows[1] is the bottom row
           IF ch = 0 THEN bl.rows[src][col + 1] ELSE IF ch = 1 THEN g.rows[src][col + 1] ELSE IF ch = 2 THEN r.rows[src][col + 1] ELSE a.rows[src][col + 1]]]
=============================================================================
