------------------------------ MODULE Gen_Blit ------------------------------
(* All geometries for small windows: every window size 1..MaxW x 1..MaxH,     *)
(* every rectangle with coordinates 0..MaxC (in range, out of range,          *)
(* inverted), every image size 0..MaxI.  For class "inside" the exact list    *)
(* of (destination, source) index pairs is attached.                          *)
EXTENDS Blit, Json, IOUtils, SequencesExt

CONSTANTS MaxW, MaxH, MaxC, MaxI

Geoms == { <<Wd, Hd, l, t, r, b, w, h>> : Wd \in 1..MaxW, Hd \in 1..MaxH, l \in 0..MaxC, t \in 0..MaxC, r \in 0..MaxC, b \in 0..MaxC, w \in 0..MaxI, h \in 0..MaxI }
Case(g) == LET ins == Inside(g[1], g[2], g[3], g[4], g[5], g[6], g[7], g[8]) IN
           [Wd |-> g[1], Hd |-> g[2], l |-> g[3], t |-> g[4], r |-> g[5], b |-> g[6], w |-> g[7], h |-> g[8], inside |-> ins,
            okp |-> OkPermitted(g[1], g[2], g[3], g[4], g[5], g[6], g[7], g[7] * g[8]),
            writes |-> IF ins THEN Writes(g[1], g[3], g[4], g[5], g[6], g[7]) ELSE <<>>]
ASSUME LET Sq == SetToSeq(Geoms) IN ndJsonSerialize(IOEnv.BLITCASES, [k \in 1..Len(Sq) |-> Case(Sq[k])])
\* self-check of the reference: Paint changes exactly the rectangle
ASSUME \A Wd \in 1..3, Hd \in 1..3, l \in 0..2, t \in 0..2, r \in 0..2, b \in 0..2 :
         Inside(Wd, Hd, l, t, r, b, 3, 3) =>
           LET buf == [p \in 1..(Wd * Hd) |-> 0]  img == [p \in 1..9 |-> p]
               res == Paint(buf, img, Wd, l, t, r, b, 3) IN
           \A p \in 1..(Wd * Hd) : LET y == (p - 1) \div Wd  x == (p - 1) % Wd IN
              res[p] = IF x >= l /\ x <= r /\ y >= t /\ y <= b THEN (y - t) * 3 + (x - l) + 1 ELSE 0
VARIABLE x
Init == x = 0
Next == UNCHANGED x
=============================================================================
