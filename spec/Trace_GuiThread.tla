--------------------------- MODULE Trace_GuiThread ---------------------------
(* Trace validation of the real launch_rdp_thread against GuiThread.tla        *)
(* (required design: PollSource = "tls_aware", ExitOn = "any_error").          *)
(* Logged events are the SERVER's actions (srv_record, srv_end) and the        *)
(* driver's observations (quiet: what has reached the bitmap channel once      *)
(* nothing moves any more; joined / not_joined).  The steps of Rx and Gui are  *)
(* not logged: they are composed into the trace relation as silent steps       *)
(* (they are finite: every Rx step makes progress).  A `quiet' observation is  *)
(* accepted only in a state where no Rx step is enabled (the thread is blocked *)
(* in select, or done) and the forwarded bitmaps are exactly the ones          *)
(* observed; `joined' only when Rx is Done.  Acceptance: some interleaving     *)
(* consumes every event - checked by TLC as reachability of l = Len(Rec) + 1,  *)
(* i.e. violation of the invariant NotDone; the highest l reached is kept in   *)
(* a TLC register for the diagnostic.                                          *)
EXTENDS GuiThread, TraceLib

VARIABLE l
tvars == <<vars, l>>

TNone == {<<>>}
IsEvent(e) == l <= Len(Rec) /\ Rec[l].ev = e /\ l' = l + 1
Fresh == /\ script = <<>> /\ sock = <<>> /\ sockEnd = "open" /\ tlsbuf = <<>> /\ mutex = "free" /\ sync = TRUE
         /\ sent = <<>> /\ forwarded = <<>> /\ ended = FALSE /\ err = "none" /\ half = 0 /\ writes = 0
         /\ pc = [server |-> "Done", rx |-> "Select", gui |-> "G"]

TInit == Fresh /\ l = 1
TReset == /\ IsEvent("reset")
          /\ script' = <<>> /\ sock' = <<>> /\ sockEnd' = "open" /\ tlsbuf' = <<>> /\ mutex' = "free" /\ sync' = TRUE
          /\ sent' = <<>> /\ forwarded' = <<>> /\ ended' = FALSE /\ err' = "none" /\ half' = 0 /\ writes' = 0
          /\ pc' = [server |-> "Done", rx |-> "Select", gui |-> "G"]

TRecord == /\ IsEvent("srv_record")
           /\ sock' = Append(sock, Rec[l].pdus)
           /\ sent' = sent \o Ids(BitmapsOf(Rec[l].pdus))
           /\ UNCHANGED <<script, sockEnd, tlsbuf, mutex, sync, forwarded, ended, err, half, writes, pc>>
TEnd == /\ IsEvent("srv_end")
        /\ LET m == Rec[l].mode IN
           /\ sock' = IF m = "ultimatum" THEN Append(sock, << <<"ult">> >>) ELSE IF m = "notify" THEN Append(sock, << <<"notify">> >>)
                      ELSE IF m = "bad_rdp" THEN Append(sock, << <<"bad_rdp">> >>) ELSE IF m = "bad_io" THEN Append(sock, << <<"bad_io">> >>) ELSE sock
           /\ sockEnd' = IF m \in {"ultimatum", "notify"} THEN "eof" ELSE IF m = "abrupt" THEN "rst" ELSE sockEnd
        /\ ended' = TRUE
        /\ UNCHANGED <<script, tlsbuf, mutex, sync, sent, forwarded, err, half, writes, pc>>
RxIdle == pc["rx"] = "Done" \/ (pc["rx"] = "Select" /\ ~SelectReady)
TQuiet == /\ IsEvent("quiet") /\ RxIdle /\ forwarded = Rec[l].fwd /\ UNCHANGED vars
TJoined == /\ IsEvent("joined") /\ pc["rx"] = "Done" /\ mutex # "rx" /\ UNCHANGED vars
\* unlogged steps of the receive thread and of the GUI thread
Silent == (Rx \/ Gui) /\ UNCHANGED l

TNext == TReset \/ TRecord \/ TEnd \/ TQuiet \/ TJoined \/ Silent
TSpec == TInit /\ [][TNext]_tvars

ASSUME TLCSet(42, 0)
Progress == TLCSet(42, IF l > TLCGet(42) THEN l ELSE TLCGet(42))
\* reachability of the end of the trace = acceptance (TLC reports this invariant as violated)
NotDone == l <= Len(Rec)
Report == PrintT(<<"TV_REACHED", TLCGet(42)>>)
=============================================================================
