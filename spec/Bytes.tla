------------------------------- MODULE Bytes -------------------------------
(* Byte-string helpers shared by the wire grammar and the data-semantics     *)
(* modules.  A byte string is a sequence of naturals 0..255; positions are   *)
(* 1-based.  TLC integers are 32 bit signed, therefore 32-bit wire fields    *)
(* are kept as 4-byte sequences ("B4") unless they are known to be small.    *)
EXTENDS Naturals, Integers, Sequences, FiniteSets, TLC

Byte == 0..255

IsBytes(b) == \A i \in 1..Len(b) : b[i] \in Byte

Sub(b, from, n) == SubSeq(b, from, from + n - 1)      \* n bytes starting at from
Rest(b, from)   == SubSeq(b, from, Len(b))

U16LE(b, i) == b[i] + 256 * b[i+1]
U16BE(b, i) == 256 * b[i] + b[i+1]
B4(b, i)    == Sub(b, i, 4)                            \* raw 32-bit field
\* a 32-bit little endian field that must fit in 31 bits to be used as a number
Small32LE(b, i) == b[i] + 256 * b[i+1] + 65536 * b[i+2] + 16777216 * b[i+3]
FitsSmall32LE(b, i) == b[i+3] < 128
Small32BE(b, i) == b[i+3] + 256 * b[i+2] + 65536 * b[i+1] + 16777216 * b[i]
FitsSmall32BE(b, i) == b[i] < 128

EncU16LE(n) == << n % 256, (n \div 256) % 256 >>
EncU16BE(n) == << (n \div 256) % 256, n % 256 >>
EncU32LE(n) == << n % 256, (n \div 256) % 256, (n \div 65536) % 256, (n \div 16777216) % 256 >>
EncU32BE(n) == << (n \div 16777216) % 256, (n \div 65536) % 256, (n \div 256) % 256, n % 256 >>

\* bit tests without the Bitwise module (cheap for constants that are powers of two)
HasBit(n, p2) == (n \div p2) % 2 = 1

Zeros(n) == [i \in 1..n |-> 0]
AllZero(b, from, n) == \A i \in from..(from + n - 1) : b[i] = 0

RECURSIVE Concat(_)
Concat(ss) == IF ss = <<>> THEN <<>> ELSE Head(ss) \o Concat(Tail(ss))

Bad(why) == [ok |-> FALSE, why |-> why]
=============================================================================
