--------------------------------- MODULE Per ---------------------------------
(* Reference codecs for the aligned-PER fragments used by T.125 / T.124 here    *)
(* (X.691): length determinant, semi-constrained integer carried as length +    *)
(* octets, 16-bit constrained integer with a lower bound, enumerated, the fixed *)
(* 6-arc object identifier of T.124, octet string with a lower bound on size.   *)
EXTENDS Bytes

EncLength(n) == IF n <= 127 THEN <<n>> ELSE << 128 + (n \div 256), n % 256 >>
DecLength(b, i) == IF b[i] < 128 THEN [n |-> b[i], hl |-> 1] ELSE [n |-> (b[i] - 128) * 256 + b[i+1], hl |-> 2]

\* integers are given as 4 bytes big endian (TLC integers are 32 bit signed)
StripLead(v) == IF v[1] # 0 THEN v ELSE IF v[2] # 0 THEN Rest(v, 2) ELSE IF v[3] # 0 THEN Rest(v, 3) ELSE Rest(v, 4)
\* the encoder of the deployed stacks uses 1, 2 or 4 octets (never 3)
EncInteger(v) == LET m == StripLead(v) IN IF Len(m) = 1 THEN <<1>> \o m ELSE IF Len(m) = 2 THEN <<2>> \o m ELSE <<4>> \o v
\* a decoder accepts any length 1..4
DecInteger(b, i) == LET n == b[i] IN
  IF n \notin 1..4 THEN [ok |-> FALSE] ELSE [ok |-> TRUE, v |-> Zeros(4 - n) \o Sub(b, i + 1, n), used |-> 1 + n]

EncInteger16(v, min) == EncU16BE(v - min)
EncOid(o) == << 5, (o[1] * 16 + (o[2] % 16)) % 256, o[3], o[4], o[5], o[6] >>
EncOctets(s, min) == EncLength(Len(s) - min) \o s
EncEnumerated(v) == <<v>>
=============================================================================
