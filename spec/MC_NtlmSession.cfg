SPECIFICATION SSpec
CONSTANTS
  Key <- MCKey
  Msgs <- MCMsgs
  MaxMsgs = 3
INVARIANTS RoundTrip TamperRejected Mirrored
PROPERTIES Continuity
CHECK_DEADLOCK FALSE
