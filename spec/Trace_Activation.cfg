SPECIFICATION TSpec
CONSTANTS
  ShareIds <- TEmpty
  UserIds <- TEmpty
  Coords <- TEmpty
  RectSeqs <- TEmpty
INVARIANTS WindowAgreement InputGated BitmapsInWindow AdvanceOnlyOnExpected IdsEcho
PROPERTIES OneFinalisePerDA
POSTCONDITION Accepted
CHECK_DEADLOCK FALSE
