SPECIFICATION TSpec
CONSTANTS
  Streams <- TEmpty
  MaxFrame = 65535
  ZeroLenBody = "empty"
INVARIANTS ExactFramesL NoOverConsumption RejectConsumes
POSTCONDITION Accepted
CHECK_DEADLOCK FALSE
