SPECIFICATION Spec
CONSTANTS
  ShareIds <- MCShareIds
  UserIds <- MCUserIds
  Coords <- MCCoords
  RectSeqs <- MCRectSeqs
INVARIANTS TypeOK WindowAgreement InputGated BitmapsInWindow AdvanceOnlyOnExpected IdsEcho
PROPERTIES OneFinalisePerDA BitmapsStartInWindow
CHECK_DEADLOCK FALSE
