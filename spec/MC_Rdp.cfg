SPECIFICATION CSpec
CONSTANTS
  ShareIds <- MCShareIds
  UserIds <- MCUserIds
  Coords <- MCCoords
  RectSeqs <- MCRectSeqs
  Cfgs <- MCCfgs
  Replies <- MCReplies
  Idents <- MCIdents
INVARIANTS SelectedWasOffered NoCredBeforeTls OnlyNegoOnRaw MustSucceed MandatedPrefix JoinsOncePerChannel ConnIdsEcho ModeTable WindowAgreement InputGated IdsEcho
PROPERTIES SilentAfterRefusal OneFinalisePerDA
CONSTRAINT Bound
CHECK_DEADLOCK FALSE
