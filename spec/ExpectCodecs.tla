----------------------------- MODULE ExpectCodecs -----------------------------
(* Expectation tables for C18: the reference PER encodings over complete        *)
(* domains (every length 0..0x7fff, every 16-bit integer, a boundary grid of    *)
(* 32-bit integers, integer-16 with offsets, object identifiers, octet strings, *)
(* enumerated), the reference DER encoding of the ASN.1 trees of the input      *)
(* file, and the reference decoding of the GCC responses of the input file.     *)
EXTENDS Per, Json, IOUtils, TLC, SequencesExt
SetToSeqX(S_) == SetToSeq(S_)
D == INSTANCE Der
S == INSTANCE WireServer

N4(n) == EncU32BE(n)
U32Samples == { <<0, 0, 0, 0>>, <<0, 0, 0, 254>>, <<0, 0, 0, 255>>, <<0, 0, 1, 0>>, <<0, 0, 255, 254>>, <<0, 0, 255, 255>>, <<0, 1, 0, 0>>, <<0, 255, 255, 255>>,
                <<1, 0, 0, 0>>, <<127, 255, 255, 255>>, <<128, 0, 0, 0>>, <<255, 255, 255, 255>>, <<18, 52, 86, 120>> }
               \cup { << RandomElement(0..255), RandomElement(0..255), RandomElement(0..255), RandomElement(0..255) >> : k \in 1..2000 }
Mins == {0, 1, 1001, 32767, 65535}
V16 == {0, 1, 1000, 1001, 1002, 1003, 1004, 32767, 32768, 65534, 65535}
Oids == { <<a, b, c, d, e, f>> : a \in {0, 1, 2, 15}, b \in {0, 1, 15}, c \in {0, 20, 255}, d \in {0, 124, 255}, e \in {0, 1, 255}, f \in {0, 1, 255} }
Strs == { [i \in 1..n |-> (i * 7) % 256] : n \in 0..140 } \cup { <<68, 117, 99, 97>>, <<77, 99, 68, 110>> }

PerRows ==
       { [k |-> "length", n |-> n, enc |-> EncLength(n)] : n \in 0..32767 }
  \cup { [k |-> "integer", v |-> N4(n), enc |-> EncInteger(N4(n))] : n \in 0..65535 }
  \cup { [k |-> "integer", v |-> v, enc |-> EncInteger(v)] : v \in U32Samples }
  \cup { [k |-> "integer16", v |-> v, min |-> m, enc |-> EncInteger16(v, m)] : v \in { x \in V16 : TRUE }, m \in { y \in Mins : TRUE } }
  \cup { [k |-> "oid", oid |-> o, enc |-> EncOid(o)] : o \in Oids }
  \cup { [k |-> "octets", s |-> s, min |-> m, enc |-> EncOctets(s, m)] : s \in Strs, m \in {0, 4} }
  \cup { [k |-> "enum", v |-> v, enc |-> EncEnumerated(v)] : v \in 0..255 }
ValidRow(r) == (r.k = "integer16" => r.v >= r.min) /\ (r.k = "octets" => Len(r.s) >= r.min)

Trees == ndJsonDeserialize(IOEnv.TREES)
Gccs == ndJsonDeserialize(IOEnv.GCCS)
GccRow(g) == LET d == S!DecGccResponse(g.enc) IN
             IF ~d.ok THEN [k |-> "gcc", enc |-> g.enc, ok |-> FALSE]
             ELSE [k |-> "gcc", enc |-> g.enc, ok |-> TRUE, version |-> d.version, channels |-> d.channels,
                   hasCore |-> \E i \in 1..Len(d.types) : d.types[i] = 3073, hasNet |-> \E i \in 1..Len(d.types) : d.types[i] = 3075, io |-> d.ioChannel]

VARIABLE x
Init == x = /\ ndJsonSerialize(IOEnv.PERTABLE, SetToSeqX({ r \in PerRows : ValidRow(r) }) \o [i \in 1..Len(Gccs) |-> GccRow(Gccs[i])])
            /\ ndJsonSerialize(IOEnv.DEROUT, [i \in 1..Len(Trees) |-> [tree |-> Trees[i], der |-> D!Enc(Trees[i])]])
Next == UNCHANGED x
=============================================================================
