----------------------------- MODULE WireServer -----------------------------
(* Grammar of the server-to-client PDUs, written from MS-RDPBCGR / T.125.    *)
(* DecServer(frame) maps ONE complete frame as sent by the (reference)       *)
(* server to an abstract message.  It is what the trace specifications use   *)
(* to learn what the server actually sent: the expected client behaviour is  *)
(* derived from these bytes, never from the harness's intent.                *)
EXTENDS Bytes

LOCAL W == INSTANCE WireClient      \* PerLen, Tlv helpers

(***************************************************************************)
(* Fast-path output (MS-RDPBCGR 2.2.9.1.2).                                *)
(***************************************************************************)
BITMAP_COMPRESSION == 1
NO_BITMAP_COMPRESSION_HDR == 1024

\* TS_BITMAP_DATA at b[i..], inside lim; returns [ok, rect, next]
BitmapData(b, i, lim) ==
  IF i + 17 > lim THEN Bad("bitmap: truncated TS_BITMAP_DATA header")
  ELSE LET flags == U16LE(b, i+14)
           blen  == U16LE(b, i+16)
           comp  == HasBit(flags, BITMAP_COMPRESSION)
           hdr   == comp /\ ~HasBit(flags, NO_BITMAP_COMPRESSION_HDR)
           base  == [l |-> U16LE(b, i), t |-> U16LE(b, i+2), r |-> U16LE(b, i+4), b |-> U16LE(b, i+6),
                     w |-> U16LE(b, i+8), h |-> U16LE(b, i+10), bpp |-> U16LE(b, i+12), comp |-> comp] IN
  IF i + 18 + blen - 1 > lim THEN Bad("bitmap: bitmapLength exceeds update")
  ELSE IF ~hdr THEN [ok |-> TRUE, rect |-> base @@ [data |-> Sub(b, i+18, blen)], next |-> i + 18 + blen]
  ELSE IF blen < 8 THEN Bad("bitmap: bitmapLength smaller than the compression header")
  ELSE IF U16LE(b, i+18) # 0 THEN Bad("bitmap: cbCompFirstRowSize # 0")
  ELSE IF U16LE(b, i+20) # blen - 8 THEN Bad("bitmap: cbCompMainBodySize # bitmapLength - 8")
  ELSE [ok |-> TRUE, rect |-> base @@ [data |-> Sub(b, i+26, blen - 8)], next |-> i + 18 + blen]

RECURSIVE Rects(_, _, _, _, _)
Rects(b, i, lim, k, acc) ==
  IF k = 0 THEN (IF i = lim + 1 THEN [ok |-> TRUE, rects |-> acc] ELSE Bad("bitmap: bytes after the last rectangle"))
  ELSE LET r == BitmapData(b, i, lim) IN
       IF ~r.ok THEN r ELSE Rects(b, r.next, lim, k - 1, Append(acc, r.rect))

\* one TS_FP_UPDATE at b[i..]; returns [ok, upd, next]
FpUpdate(b, i, lim) ==
  IF i + 2 > lim THEN Bad("fastpath: truncated update header")
  ELSE LET h == b[i]
           code == h % 16
           frag == (h \div 16) % 4
           cmpr == (h \div 64) % 4 IN
  IF frag # 0 THEN Bad("fastpath: fragmented update (outside the negotiated feature set)")
  ELSE IF cmpr # 0 THEN Bad("fastpath: compressed update (outside the negotiated feature set)")
  ELSE LET n == U16LE(b, i+1)
           s == i + 3
           e == i + 3 + n - 1 IN
  IF e > lim THEN Bad("fastpath: update size exceeds PDU")
  ELSE IF code = 1 THEN
         IF n < 4 THEN Bad("fastpath: truncated bitmap update")
         ELSE IF U16LE(b, s) # 1 THEN Bad("fastpath: bitmap updateType # UPDATETYPE_BITMAP")
         ELSE LET rr == Rects(b, s + 4, e, U16LE(b, s + 2), <<>>) IN
              IF ~rr.ok THEN rr ELSE [ok |-> TRUE, upd |-> [t |-> "Bitmap", rects |-> rr.rects], next |-> e + 1]
  ELSE [ok |-> TRUE, upd |-> [t |-> "Other", code |-> code, size |-> n], next |-> e + 1]

RECURSIVE FpUpdates(_, _, _, _)
FpUpdates(b, i, lim, acc) ==
  IF i = lim + 1 THEN [ok |-> TRUE, updates |-> acc]
  ELSE LET u == FpUpdate(b, i, lim) IN
       IF ~u.ok THEN u ELSE FpUpdates(b, u.next, lim, Append(acc, u.upd))

FastPath(b) ==
  LET n == Len(b) IN
  IF n < 2 THEN Bad("fastpath: truncated header")
  ELSE LET short == b[2] < 128
           hl == IF short THEN 2 ELSE 3 IN
  IF n < hl THEN Bad("fastpath: truncated length")
  ELSE LET declared == IF short THEN b[2] ELSE (b[2] - 128) * 256 + b[3] IN
  IF declared # n THEN Bad("fastpath: length # size of the frame")
  ELSE IF (b[1] \div 64) % 4 # 0 THEN Bad("fastpath: encrypted PDU (outside the negotiated feature set)")
  ELSE LET u == FpUpdates(b, hl + 1, n, <<>>) IN
       IF ~u.ok THEN u
       ELSE [ok |-> TRUE, kind |-> "FastPath", updates |-> u.updates, long |-> ~short,
             rects |-> Concat([k \in 1..Len(u.updates) |-> IF u.updates[k].t = "Bitmap" THEN u.updates[k].rects ELSE <<>>])]

(***************************************************************************)
(* Slow path: share control PDUs from the server.                          *)
(***************************************************************************)
RECURSIVE SrvCaps(_, _, _, _)
SrvCaps(b, i, lim, acc) ==
  IF i = lim + 1 THEN [ok |-> TRUE, types |-> acc]
  ELSE IF i + 3 > lim THEN Bad("caps: truncated")
  ELSE LET n == U16LE(b, i+2) IN
       IF n < 4 \/ i + n - 1 > lim THEN Bad("caps: bad lengthCapability")
       ELSE SrvCaps(b, i + n, lim, Append(acc, U16LE(b, i)))

SrvData(b, i, lim, t2, base) ==
  LET n == lim - i + 1 IN
  IF t2 = 31 /\ n = 4 /\ U16LE(b, i) = 1 THEN base @@ [kind |-> "Sync"]
  ELSE IF t2 = 20 /\ n = 8 THEN base @@ [kind |-> "Control", action |-> U16LE(b, i)]
  ELSE IF t2 = 40 /\ n = 8 THEN base @@ [kind |-> "FontMap"]
  ELSE IF t2 = 47 /\ n = 4 THEN base @@ [kind |-> "ErrInfo", code |-> B4(b, i)]
  ELSE IF t2 \in {31, 20, 40, 47} THEN Bad("server data pdu: known pduType2 with a wrong body size")
  ELSE IF t2 = 2 /\ n >= 4 /\ U16LE(b, i) = 1 /\ Rects(b, i + 4, lim, U16LE(b, i + 2), <<>>).ok
       THEN base @@ [kind |-> "SlowBitmap", rects |-> Rects(b, i + 4, lim, U16LE(b, i + 2), <<>>).rects]   \* slow-path bitmap update (2.2.9.1.1.3.1.2)
  ELSE base @@ [kind |-> "UnknownData", t2 |-> t2]

SrvShareControl(b, i, lim) ==
  LET n == lim - i + 1 IN
  IF n < 6 THEN Bad("share control: truncated")
  ELSE IF U16LE(b, i) # n THEN Bad("share control: totalLength # size")
  ELSE LET pt == U16LE(b, i+2) IN
  IF pt = 17 THEN    \* demand active
     IF n < 6 + 8 THEN Bad("demand active: truncated")
     ELSE LET lsd == U16LE(b, i+10)  lcc == U16LE(b, i+12)
              cs == i + 14 + lsd + 4 IN
     IF lcc < 4 \/ i + 14 + lsd + lcc + 4 - 1 # lim THEN Bad("demand active: lengths # body size (sessionId included)")
     ELSE LET c == SrvCaps(b, cs, i + 14 + lsd + lcc - 1, <<>>) IN
          IF ~c.ok THEN c
          ELSE IF Len(c.types) # U16LE(b, i + 14 + lsd) THEN Bad("demand active: numberCapabilities # sets")
          ELSE [ok |-> TRUE, kind |-> "DemandActive", shareId |-> B4(b, i+6), caps |-> c.types]
  ELSE IF pt = 22 THEN    \* deactivate all
     IF n < 6 + 6 \/ i + 12 + U16LE(b, i+10) - 1 # lim THEN Bad("deactivate all: bad size")
     ELSE [ok |-> TRUE, kind |-> "DeactivateAll", shareId |-> B4(b, i+6)]
  ELSE IF pt = 23 THEN    \* data
     IF n < 18 THEN Bad("share data: truncated")
     ELSE SrvData(b, i + 18, lim, b[i+14], [ok |-> TRUE, shareId |-> B4(b, i+6)])
  ELSE [ok |-> TRUE, kind |-> "UnknownControl", ptype |-> pt]     \* a share control PDU of a type this client does not handle
                                                                  \* (server redirection 0x1A, ...): well formed, to be ignored

\* several share control PDUs one after the other in the same MCS user data ("train"), each delimited by its
\* totalLength: [ok, kind |-> "Train", items]
RECURSIVE SrvTrainItems(_, _, _, _)
SrvTrainItems(b, i, lim, acc) ==
  IF i = lim + 1 THEN [ok |-> TRUE, kind |-> "Train", items |-> acc]
  ELSE IF i + 5 > lim THEN Bad("train: truncated share control header")
  ELSE LET n == U16LE(b, i) IN
       IF n < 6 \/ i + n - 1 > lim THEN Bad("train: totalLength exceeds the user data")
       ELSE LET m == SrvShareControl(b, i, i + n - 1) IN
            IF ~m.ok THEN m ELSE SrvTrainItems(b, i + n, lim, Append(acc, m))
SrvShareControlOrTrain(b, i, lim) ==
  IF lim - i + 1 >= 6 /\ U16LE(b, i) >= 6 /\ U16LE(b, i) < lim - i + 1 THEN SrvTrainItems(b, i, lim, <<>>)
  ELSE SrvShareControl(b, i, lim)

(***************************************************************************)
(* Connection phase.                                                       *)
(***************************************************************************)
\* server GCC data blocks: [ok, types, version, ioChannel, nchannels]
RECURSIVE ScBlocks(_, _, _, _)
ScBlocks(b, i, lim, acc) ==
  IF i = lim + 1 THEN acc
  ELSE IF i + 3 > lim THEN Bad("gcc: truncated server block header")
  ELSE LET t == U16LE(b, i)  n == U16LE(b, i+2) IN
  IF n < 4 \/ i + n - 1 > lim THEN Bad("gcc: server block exceeds user data")
  ELSE IF t = 3073 THEN
         IF n \notin {8, 12, 16} THEN Bad("sc_core: bad size")
         ELSE ScBlocks(b, i+n, lim, [acc EXCEPT !.types = Append(@, t), !.version = B4(b, i+4), !.coreLen = n])
  ELSE IF t = 3075 THEN
         IF n < 8 THEN Bad("sc_net: bad size")
         ELSE IF n < 8 + 2 * U16LE(b, i+6) THEN Bad("sc_net: channelCount exceeds the block")
         ELSE ScBlocks(b, i+n, lim, [acc EXCEPT !.types = Append(@, t), !.ioChannel = U16LE(b, i+4), !.nchannels = U16LE(b, i+6),
                                               !.channels = [k \in 1..U16LE(b, i+6) |-> U16LE(b, i + 8 + 2 * (k - 1))]])
  ELSE ScBlocks(b, i+n, lim, [acc EXCEPT !.types = Append(@, t)])

GccRspPrefix == <<0, 5, 0, 20, 124, 0, 1>>

\* the GCC conference create response alone (the userData of the MCS connect response)
DecGccResponse(b) ==
  LET lim == Len(b) IN
  IF lim < 7 + 1 + 13 + 1 \/ Sub(b, 1, 7) # GccRspPrefix THEN Bad("gcc: bad conference create response")
  ELSE LET l1 == W!PerLen(b, 8) IN IF ~l1.ok THEN l1
  ELSE LET j == 8 + l1.hl
           l2 == W!PerLen(b, j + 13) IN IF ~l2.ok THEN l2
  ELSE LET k == j + 13 + l2.hl IN
  IF k + l2.n - 1 # lim THEN Bad("gcc: server userData length # size")
  ELSE ScBlocks(b, k, lim, [ok |-> TRUE, types |-> <<>>, version |-> <<>>, coreLen |-> 0, ioChannel |-> 0, nchannels |-> 0, channels |-> <<>>])

ConnectResponse(b, i, lim) ==
  IF i + 2 > lim \/ b[i] # 127 \/ b[i+1] # 102 THEN Bad("mcs: connect-response tag expected")
  ELSE LET h == W!Tlv(b, i + 1) IN IF ~h.ok THEN h
  ELSE LET s == i + 1 + h.hl IN
  IF s + h.len - 1 # lim THEN Bad("mcs: connect-response length # size")
  ELSE LET r == W!TlvIn(b, s, lim, 10) IN IF ~r.ok THEN r
  ELSE LET c == W!TlvIn(b, s + r.hl + r.len, lim, 2) IN IF ~c.ok THEN c
  ELSE LET d == W!TlvIn(b, s + r.hl + r.len + c.hl + c.len, lim, 48) IN IF ~d.ok THEN d
  ELSE LET p == s + r.hl + r.len + c.hl + c.len + d.hl + d.len
           u == W!TlvIn(b, p, lim, 4) IN IF ~u.ok THEN u
  ELSE LET g == p + u.hl IN
  IF lim - g + 1 < 7 + 1 + 13 + 1 \/ Sub(b, g, 7) # GccRspPrefix THEN Bad("gcc: bad conference create response")
  ELSE LET l1 == W!PerLen(b, g + 7) IN IF ~l1.ok THEN l1
  ELSE LET j == g + 7 + l1.hl
           l2 == W!PerLen(b, j + 13) IN IF ~l2.ok THEN l2
  ELSE LET k == j + 13 + l2.hl IN
  IF k + l2.n - 1 # lim THEN Bad("gcc: server userData length # size")
  ELSE LET bl == ScBlocks(b, k, lim, [ok |-> TRUE, types |-> <<>>, version |-> <<>>, coreLen |-> 0, ioChannel |-> 0, nchannels |-> 0, channels |-> <<>>]) IN
  IF ~bl.ok THEN bl
  ELSE [ok |-> TRUE, kind |-> "ConnectResponse", result |-> b[s + 2], blocks |-> bl.types,
        version |-> bl.version, coreLen |-> bl.coreLen, ioChannel |-> bl.ioChannel, nchannels |-> bl.nchannels]

Licence(b, i, lim) ==     \* after the security header
  IF i + 3 > lim THEN Bad("licence: truncated preamble")
  ELSE IF U16LE(b, i+2) # lim - i + 1 THEN Bad("licence: wMsgSize # size")
  ELSE IF b[i] = 255 THEN
       IF lim - i + 1 < 16 THEN Bad("licence: truncated error alert")
       ELSE [ok |-> TRUE, kind |-> "Licence", msg |-> "ErrorAlert", pflags |-> b[i+1], code |-> B4(b, i+4), transition |-> B4(b, i+8)]
  ELSE [ok |-> TRUE, kind |-> "Licence", msg |-> (IF b[i] = 3 THEN "NewLicense" ELSE "Other"), pflags |-> b[i+1], mtype |-> b[i]]

SrvMcs(b, i, lim) ==
  IF i > lim THEN Bad("mcs: empty")
  ELSE LET op == b[i] \div 4 IN
  IF b[i] = 127 THEN ConnectResponse(b, i, lim)
  ELSE IF op = 11 THEN
     IF lim - i + 1 # 4 \/ b[i] # 46 THEN Bad("mcs: attach-user confirm must be 4 octets with initiator")
     ELSE [ok |-> TRUE, kind |-> "AttachConfirm", result |-> b[i+1], uidOff |-> U16BE(b, i+2)]
  ELSE IF op = 15 THEN
     IF lim - i + 1 # 8 \/ b[i] # 62 THEN Bad("mcs: channel-join confirm must be 8 octets with channelId")
     ELSE [ok |-> TRUE, kind |-> "JoinConfirm", result |-> b[i+1], uidOff |-> U16BE(b, i+2), requested |-> U16BE(b, i+4), channel |-> U16BE(b, i+6)]
  ELSE IF op = 8 THEN [ok |-> TRUE, kind |-> "SrvUltimatum"]
  ELSE IF op = 26 THEN
     IF lim - i + 1 < 7 THEN Bad("mcs: truncated send-data indication")
     ELSE LET l == W!PerLen(b, i + 6) IN IF ~l.ok THEN l
     ELSE LET s == i + 6 + l.hl IN
     IF s + l.n - 1 # lim THEN Bad("mcs: send-data indication length # size")
     \* security header with SEC_LICENSE_PKT and flagsHi = 0; a share control header never has pduType 0
     ELSE IF l.n >= 4 /\ HasBit(U16LE(b, s), 128) /\ U16LE(b, s + 2) = 0 THEN Licence(b, s + 4, lim)
     ELSE LET m == SrvShareControlOrTrain(b, s, lim) IN
          IF ~m.ok THEN m ELSE m @@ [channel |-> U16BE(b, i+3)]
  ELSE Bad("mcs: unexpected domain PDU from server")

ConnConfirm(b, n) ==
  IF b[5] # n - 5 THEN Bad("x224: LI # size - 1")
  ELSE IF n = 11 THEN [ok |-> TRUE, kind |-> "ConnConfirm", neg |-> "absent"]
  ELSE IF n # 19 THEN Bad("x224: connection confirm with unexpected size")
  ELSE [ok |-> TRUE, kind |-> "ConnConfirm",
        neg |-> (IF b[12] = 2 THEN "rsp" ELSE IF b[12] = 3 THEN "failure" ELSE IF b[12] = 1 THEN "req" ELSE "unknown"),
        ntype |-> b[12], flags |-> b[13], nlen |-> U16LE(b, 14), sel |-> B4(b, 16)]

DecServer(b) ==
  LET n == Len(b) IN
  IF n < 1 THEN Bad("empty frame")
  ELSE IF b[1] # 3 THEN FastPath(b)
  ELSE IF n < 4 THEN Bad("tpkt: truncated")
  ELSE IF U16BE(b, 3) # n THEN Bad("tpkt: length # size")
  ELSE IF n < 7 THEN Bad("x224: truncated")
  ELSE IF b[6] = 208 THEN ConnConfirm(b, n)
  ELSE IF b[6] = 240 /\ b[5] = 2 /\ b[7] = 128 THEN SrvMcs(b, 8, n)
  ELSE Bad("x224: unexpected TPDU")
=============================================================================
