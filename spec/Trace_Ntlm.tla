----------------------------- MODULE Trace_Ntlm -----------------------------
(* Trace validation for C15 / C16.  `auth` events: the AUTHENTICATE token the *)
(* real Ntlm object produced for a challenge of the reference server must be  *)
(* accepted by Ntlm!Verify, which derives everything from the account's NT    *)
(* hash and the three messages.  `wrap` / `unwrap` events: the real security  *)
(* interface must produce byte-identical sealed messages to Ntlm!Wrap in the  *)
(* state the trace has reached, unseal what Ntlm!Wrap of the peer produced,   *)
(* and reject exactly what Ntlm!Unwrap rejects.                               *)
EXTENDS Ntlm, TraceLib

N2 == INSTANCE WireNla WITH Strict <- TRUE

VARIABLES l, c2s, s2c, keyOk
tvars == <<l, c2s, s2c, keyOk>>

IsEvent(e) == l <= Len(Rec) /\ Rec[l].ev = e /\ l' = l + 1
NoCtx == [seal |-> <<>>, sign |-> <<>>, ks |-> 0, seq |-> 0]

TInit == l = 1 /\ c2s = NoCtx /\ s2c = <<>> /\ keyOk = FALSE
TReset == IsEvent("reset") /\ c2s' = NoCtx /\ s2c' = <<>> /\ keyOk' = FALSE

TAuth == /\ IsEvent("auth")
         /\ LET e == Rec[l]
                a == N2!Ntlm(e.auth, 1, Len(e.auth))
                v == Verify(NTHash(e.password), e.neg, e.chal, a) IN
            /\ e.res = "ok"
            /\ a.ok /\ a.kind = "NtlmAuthenticate"
            /\ v.ok
            /\ v.user = e.user /\ v.domain = e.domain       \* the token names the configured account
            /\ c2s' = Ctx(v.exported, TRUE) /\ s2c' = << Ctx(v.exported, FALSE) >> /\ keyOk' = TRUE

TCtx == /\ IsEvent("ctx")
        /\ c2s' = Ctx(Rec[l].exported, TRUE) /\ s2c' = << Ctx(Rec[l].exported, FALSE) >> /\ keyOk' = TRUE

TWrap == /\ IsEvent("wrap") /\ keyOk
         /\ LET e == Rec[l]
                w == Wrap(c2s, e.m) IN
            /\ e.res = "ok" /\ e.token = w.token
            /\ c2s' = w.ctx /\ UNCHANGED <<s2c, keyOk>>

TUnwrap == /\ IsEvent("unwrap") /\ keyOk
           /\ LET e == Rec[l] IN
              /\ e.prior + 1 <= Len(s2c)
              /\ LET u == Unwrap(s2c[e.prior + 1], e.token) IN
                 IF u.ok THEN /\ e.res = "ok" /\ e.plain = u.plain
                              /\ IF e.fresh THEN UNCHANGED s2c ELSE (e.prior + 1 = Len(s2c) /\ s2c' = Append(s2c, u.ctx))
                 ELSE /\ e.res = "err" /\ e.plain = <<>> /\ UNCHANGED s2c
           /\ UNCHANGED <<c2s, keyOk>>

\* a token that was refused is refused again when it is presented a second time to the same context (whether the refusal
\* came before or after the decryption: nothing a refused token did may make it acceptable)
TUnwrapAgain == IsEvent("unwrap_again") /\ Rec[l].res = "err" /\ UNCHANGED <<c2s, s2c, keyOk>>
TNext == TReset \/ TAuth \/ TCtx \/ TWrap \/ TUnwrap \/ TUnwrapAgain
TSpec == TInit /\ [][TNext]_tvars
=============================================================================
