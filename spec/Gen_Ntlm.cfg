INIT Init
NEXT Next
CONSTANTS
  NAuth = 600
  NSess = 200
  MaxLen = 64
CHECK_DEADLOCK FALSE
