---------------------------- MODULE MC_GuiThread ----------------------------
EXTENDS GuiThread
B(k) == <<"bmp", k>>
Rec(p) == [op |-> "rec", pdus |-> p]
End(m) == [op |-> "end", mode |-> m]
Modes == {"ultimatum", "notify", "abrupt", "bad_rdp", "bad_io"}
\* packings of up to three bitmaps: one per record, several per record, one split across records
Packings == { << Rec(<<B(1)>>), Rec(<<B(2)>>) >>, << Rec(<<B(1), B(2)>>) >>, << Rec(<<B(1), B(2), B(3)>>) >>,
              << Rec(<< <<"part1", 1>> >>), Rec(<< <<"part2", 1>>, B(2) >>) >>, << Rec(<<B(1)>>), Rec(<<B(2), B(3)>>) >>, <<>>,
              << Rec(<< <<"bmp3", 1>> >>), Rec(<<B(4)>>) >>,       \* one PDU carrying three rectangles
              << Rec(<< <<"ctl", "sync">>, <<"ctl", "coop">>, B(1), B(2) >>) >> }   \* handshake PDUs and bitmaps in one record
\* the PDU that ends the session in the same record as the PDUs in front of it, the server silent (socket open) afterwards
InRecordEnds == { << Rec(<<B(1), <<t>> >>) >> : t \in {"ult", "bad_rdp", "bad_io"} } \cup { << Rec(<<B(1)>>), Rec(<<B(2), B(3), <<"ult">> >>) >> }
MCScripts == { p \o <<End(m)>> : p \in Packings, m \in Modes } \cup Packings \cup InRecordEnds
=============================================================================
