SPECIFICATION GSpec
CONSTANTS
  W = 2
  H = 2
  Palette = {4660}
  Masks = {165}
  MaxImageRun = 1
INVARIANTS Emit Agree
CHECK_DEADLOCK FALSE
