SPECIFICATION TSpec
CONSTANTS
  Payloads <- TEmpty
  MaxFrame = 65535
  WriteLoop = "all"
INVARIANTS CompleteOrError OnlyFramePrefix
POSTCONDITION Accepted
CHECK_DEADLOCK FALSE
