-------------------------------- MODULE Faults --------------------------------
(* Fault algebra for hostile server messages (C05, C06, C07).  A fault is      *)
(* applied to one region of an otherwise valid server message (the whole       *)
(* frame, the MCS user data, the body after the share control header, the      *)
(* body after the share data header, a fast-path payload, a TSRequest, an NTLM *)
(* token ...).  The catalogue is structure agnostic: EVERY byte is an 8-bit    *)
(* field, EVERY 2-byte window a 16-bit field of either endianness, EVERY       *)
(* 4-byte window a little-endian 32-bit field, so every real field of every    *)
(* layout is covered without trusting a layout description.                    *)
EXTENDS Bytes

U8Boundary  == {0, 1, 2, 3, 4, 5, 6, 7, 8, 15, 16, 17, 19, 20, 22, 23, 26, 27, 28, 31, 32, 40, 47, 48, 127, 128, 129, 160, 161, 163, 254, 255}
U16Boundary == {0, 1, 2, 3, 4, 5, 6, 7, 8, 9, 13, 14, 17, 18, 19, 22, 23, 24, 127, 128, 255, 256, 257, 1001, 1003, 32767, 32768, 64534, 64535, 65534, 65535}
U32Boundary == { <<0, 0, 0, 0>>, <<1, 0, 0, 0>>, <<4, 0, 0, 0>>, <<7, 0, 0, 0>>, <<8, 0, 0, 0>>, <<255, 0, 0, 0>>, <<0, 1, 0, 0>>, <<255, 255, 0, 0>>,
                 <<0, 0, 1, 0>>, <<255, 255, 255, 127>>, <<0, 0, 0, 128>>, <<255, 255, 255, 255>> }

\* small displacements of the honest value: lengths, counts and offsets that are off by a little
Deltas == {-2, -1, 1, 2, 3, 4, 8, 10, 11, 12}

\* all single faults of a region of n bytes; full = every value of every byte
Descs(n, full) ==
       { [op |-> "set8", off |-> o, v |-> v] : o \in 0..(n - 1), v \in (IF full THEN 0..255 ELSE U8Boundary) }
  \cup { [op |-> "add8", off |-> o, d |-> dl] : o \in 0..(n - 1), dl \in Deltas }
  \cup { [op |-> "set16le", off |-> o, v |-> v] : o \in 0..(n - 2), v \in U16Boundary }
  \cup { [op |-> "set16be", off |-> o, v |-> v] : o \in 0..(n - 2), v \in U16Boundary }
  \cup { [op |-> "set32le", off |-> o, b |-> v] : o \in 0..(n - 4), v \in U32Boundary }
  \cup { [op |-> "trunc", at |-> k] : k \in 0..(n - 1) }
  \cup { [op |-> "extend", n |-> k] : k \in {1, 2, 255, 1500} }

\* the faulted region
Apply(b, d) ==
  CASE d.op = "set8"    -> [b EXCEPT ![d.off + 1] = d.v]
    [] d.op = "add8"    -> [b EXCEPT ![d.off + 1] = (@ + d.d + 256) % 256]
    [] d.op = "set16le" -> [b EXCEPT ![d.off + 1] = d.v % 256, ![d.off + 2] = d.v \div 256]
    [] d.op = "set16be" -> [b EXCEPT ![d.off + 1] = d.v \div 256, ![d.off + 2] = d.v % 256]
    [] d.op = "set32le" -> [b EXCEPT ![d.off + 1] = d.b[1], ![d.off + 2] = d.b[2], ![d.off + 3] = d.b[3], ![d.off + 4] = d.b[4]]
    [] d.op = "trunc"   -> SubSeq(b, 1, d.at)
    [] d.op = "extend"  -> b \o [i \in 1..d.n |-> (i * 37) % 256]
=============================================================================
