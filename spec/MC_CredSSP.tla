----------------------------- MODULE MC_CredSSP -----------------------------
EXTENDS CredSSP
MCCerts == {"leaf", "leaf2", "selfsigned"}
MCKeys == {"kc", "kx"}
MCModes == [admin : BOOLEAN, blank : BOOLEAN, hash : BOOLEAN]
=============================================================================
