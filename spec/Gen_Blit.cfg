INIT Init
NEXT Next
CONSTANTS
  MaxW = 3
  MaxH = 3
  MaxC = 4
  MaxI = 4
CHECK_DEADLOCK FALSE
