-------------------------------- MODULE Codec --------------------------------
(* BitmapEvent::decompress as a function: (width, height, bpp, compressed,    *)
(* data) -> Image(bytes) | Reject.  Reference for C09 (pixel exactness on     *)
(* conformant input) and C08 (totality: Reject or exactly width*height*4).    *)
EXTENDS Bytes
R == INSTANCE Rle16
P == INSTANCE Planar
X == INSTANCE Pixels

\* [ok |-> TRUE, bytes] for conformant input, Bad(reason) otherwise
Decompress(w, h, bpp, comp, data) ==
  IF bpp = 16 THEN
    IF comp THEN LET d == R!Decode16(data, w, h) IN IF ~d.ok THEN d ELSE [ok |-> TRUE, bytes |-> X!Out565(R!TopDown(d.stream, w, h))]
    ELSE LET d == X!Raw16(data, w, h) IN IF ~d.ok THEN d ELSE [ok |-> TRUE, bytes |-> X!Out565(R!TopDown(d.stream, w, h))]
  ELSE IF bpp = 32 THEN
    IF comp THEN P!Decode32(data, w, h) ELSE X!Raw32(data, w, h)
  ELSE Bad("unsupported colour depth")
=============================================================================
