------------------------------- MODULE Decode -------------------------------
(* Pass A of trace validation: every distinct byte blob recorded by the      *)
(* harness is decoded ONCE by the TLA+ wire grammar into an abstract message *)
(* (or Bad(reason)); the result table is what the trace specifications use.  *)
(* The harness never decodes client bytes for a verdict.                     *)
EXTENDS Naturals, Sequences, TLC, Json, IOUtils

C == INSTANCE WireClient
S == INSTANCE WireServer
N == INSTANCE WireNla WITH Strict <- TRUE
NL == INSTANCE WireNla WITH Strict <- FALSE

Blobs == ndJsonDeserialize(IOEnv.BLOBS)

DecodeOne(x) ==
  IF x.side = "c" THEN C!DecClient(x.b)
  ELSE IF x.side = "s" THEN S!DecServer(x.b)
  ELSE IF x.side = "d" THEN N!DecTsRequest(x.b)               \* CredSSP TSRequest from the client: strict DER
  ELSE IF x.side = "e" THEN                                   \* ... from the server: strict, and what a lenient BER reader sees
       LET s == N!DecTsRequest(x.b) IN IF s.ok THEN s ELSE [ok |-> FALSE, why |-> s.why, lenient |-> NL!DecTsRequest(x.b)]
  ELSE [ok |-> TRUE, kind |-> "raw"]

VARIABLE done
Init == done = ndJsonSerialize(IOEnv.DECODED, [i \in 1..Len(Blobs) |-> DecodeOne(Blobs[i])])
Next == UNCHANGED done
=============================================================================
