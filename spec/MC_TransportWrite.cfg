SPECIFICATION WSpec
CONSTANTS
  Payloads <- MCPayloads
  MaxFrame = 9
  WriteLoop = "all"
INVARIANTS CompleteOrError OnlyFramePrefix
CHECK_DEADLOCK FALSE
