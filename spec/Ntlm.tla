-------------------------------- MODULE Ntlm --------------------------------
(* MS-NLMP (NTLMv2 with extended session security, key exchange, 128-bit     *)
(* session keys) and the CredSSP binding of MS-CSSP, as an independent        *)
(* server / verifier would implement them: everything is derived from the     *)
(* account's NT hash and the three handshake messages on the wire.  The       *)
(* primitives (MD4, MD5, HMAC-MD5, RC4, upper-casing) are Java overrides      *)
(* (RdpPrims); the protocol composition is TLA+.                              *)
EXTENDS Bytes, Text, RdpPrims

LOCAL N == INSTANCE WireNla WITH Strict <- TRUE

ASSUME Loaded      \* refuse to run without the Java primitives

NEGOTIATE_KEY_EXCH == 1073741824      \* 0x40000000

NTHash(passwordCps) == MD4(Utf16LE(passwordCps))
\* MS-NLMP 3.3.2: NTOWFv2 = LMOWFv2 = HMAC_MD5(NT hash, UNICODE(Uppercase(user) + domain))
NTOWFv2(ntHash, userCps, domainCps) == HMAC_MD5(ntHash, Utf16LE(UpperSimple(userCps) \o domainCps))

MagicC2SSign == <<115,101,115,115,105,111,110,32,107,101,121,32,116,111,32,99,108,105,101,110,116,45,116,111,45,115,101,114,118,101,114,32,115,105,103,110,105,110,103,32,107,101,121,32,109,97,103,105,99,32,99,111,110,115,116,97,110,116,0>>
MagicS2CSign == <<115,101,115,115,105,111,110,32,107,101,121,32,116,111,32,115,101,114,118,101,114,45,116,111,45,99,108,105,101,110,116,32,115,105,103,110,105,110,103,32,107,101,121,32,109,97,103,105,99,32,99,111,110,115,116,97,110,116,0>>
MagicC2SSeal == <<115,101,115,115,105,111,110,32,107,101,121,32,116,111,32,99,108,105,101,110,116,45,116,111,45,115,101,114,118,101,114,32,115,101,97,108,105,110,103,32,107,101,121,32,109,97,103,105,99,32,99,111,110,115,116,97,110,116,0>>
MagicS2CSeal == <<115,101,115,115,105,111,110,32,107,101,121,32,116,111,32,115,101,114,118,101,114,45,116,111,45,99,108,105,101,110,116,32,115,101,97,108,105,110,103,32,107,101,121,32,109,97,103,105,99,32,99,111,110,115,116,97,110,116,0>>

SignKey(exported, fromClient) == MD5(exported \o (IF fromClient THEN MagicC2SSign ELSE MagicS2CSign))
SealKey(exported, fromClient) == MD5(exported \o (IF fromClient THEN MagicC2SSeal ELSE MagicS2CSeal))

(***************************************************************************)
(* Session security (MS-NLMP 3.4.2 - 3.4.4): one context per direction.    *)
(* ctx = [seal, sign, ks (keystream bytes consumed so far), seq]           *)
(***************************************************************************)
Ctx(exported, fromClient) == [seal |-> SealKey(exported, fromClient), sign |-> SignKey(exported, fromClient), ks |-> 0, seq |-> 0]

\* sealed message = Version(1) || RC4(HMAC_MD5(sign, seq || m)[0..7]) || seq || RC4(m), cipher stream continuing
Wrap(ctx, m) ==
  LET enc == RC4(ctx.seal, ctx.ks, m)
      mac == Sub(HMAC_MD5(ctx.sign, EncU32LE(ctx.seq) \o m), 1, 8)
      chk == RC4(ctx.seal, ctx.ks + Len(m), mac) IN
  [token |-> <<1, 0, 0, 0>> \o chk \o EncU32LE(ctx.seq) \o enc,
   ctx |-> [ctx EXCEPT !.ks = @ + Len(m) + 8, !.seq = @ + 1]]

\* [ok, plain, ctx]: ok only when version, checksum (over the sequence number carried in the token) verify
Unwrap(ctx, t) ==
  IF Len(t) < 16 THEN [ok |-> FALSE, why |-> "short"]
  ELSE LET m == RC4(ctx.seal, ctx.ks, Rest(t, 17))
           chk == RC4(ctx.seal, ctx.ks + Len(t) - 16, Sub(t, 5, 8))
           mac == Sub(HMAC_MD5(ctx.sign, Sub(t, 13, 4) \o m), 1, 8) IN
       IF Sub(t, 1, 4) # <<1, 0, 0, 0>> THEN [ok |-> FALSE, why |-> "version"]
       ELSE IF chk # mac THEN [ok |-> FALSE, why |-> "checksum"]
       ELSE [ok |-> TRUE, plain |-> m, seqInToken |-> Sub(t, 13, 4), ctx |-> [ctx EXCEPT !.ks = @ + Len(t) - 8, !.seq = @ + 1]]

(***************************************************************************)
(* The server's verification of an AUTHENTICATE token (MS-NLMP 3.2.5.1.2). *)
(***************************************************************************)
\* AV pairs of a target-info block: sequence of [id, v]; ok = well formed and EOL terminated
RECURSIVE AvPairs(_, _, _)
AvPairs(b, i, acc) ==
  IF i + 3 > Len(b) THEN [ok |-> FALSE]
  ELSE LET id == U16LE(b, i)  n == U16LE(b, i + 2) IN
       IF id = 0 THEN [ok |-> n = 0, pairs |-> acc, end |-> i + 3]
       ELSE IF i + 4 + n - 1 > Len(b) THEN [ok |-> FALSE]
       ELSE AvPairs(b, i + 4 + n, Append(acc, [id |-> id, v |-> Sub(b, i + 4, n)]))
AvGet(pairs, id) == LET S == {k \in 1..Len(pairs) : pairs[k].id = id} IN IF S = {} THEN <<>> ELSE pairs[CHOOSE k \in S : TRUE].v

\* fields of a CHALLENGE token the verifier needs (it produced the token itself)
ChallengeParts(chal) ==
  LET tiLen == U16LE(chal, 41)  tiOff == Small32LE(chal, 45) IN
  [sc |-> Sub(chal, 25, 8), flags |-> B4(chal, 21), targetInfo |-> Sub(chal, tiOff + 1, tiLen)]

Names(a) == IF a.unicode THEN [user |-> FromUtf16LE(a.user), domain |-> FromUtf16LE(a.domain)]
            ELSE [user |-> a.user, domain |-> a.domain]        \* OEM: bytes are code points (ASCII only, stated)

\* a = N!Ntlm decoding of the AUTHENTICATE token.  Returns [ok, why / exported]
Verify(ntHash, neg, chal, a) ==
  LET c == ChallengeParts(chal)
      nm == Names(a)
      rk == NTOWFv2(ntHash, nm.user, nm.domain)
      nt == a.nt IN
  IF Len(nt) < 16 + 28 THEN [ok |-> FALSE, why |-> "NtChallengeResponse too short"]
  ELSE LET proof == Sub(nt, 1, 16)
           temp == Rest(nt, 17)
           av == AvPairs(c.targetInfo, 1, <<>>)
           ts == IF av.ok THEN AvGet(av.pairs, 7) ELSE <<>> IN
  IF HMAC_MD5(rk, c.sc \o temp) # proof THEN [ok |-> FALSE, why |-> "NTProofStr does not verify against the account's NT hash"]
  ELSE IF temp[1] # 1 \/ temp[2] # 1 THEN [ok |-> FALSE, why |-> "temp: RespType/HiRespType # 1"]
  ELSE IF ts # <<>> /\ Sub(temp, 9, 8) # ts THEN [ok |-> FALSE, why |-> "temp does not carry the challenge's MsvAvTimestamp"]
  ELSE IF Len(temp) < 28 + Len(c.targetInfo) \/ Sub(temp, 29, Len(c.targetInfo)) # c.targetInfo THEN [ok |-> FALSE, why |-> "temp does not embed the challenge's target info"]
  ELSE IF ~(a.lm = <<>> \/ (Len(a.lm) = 24 /\ (AllZero(a.lm, 1, 24) \/ HMAC_MD5(rk, c.sc \o Sub(a.lm, 17, 8)) = Sub(a.lm, 1, 16))))
       THEN [ok |-> FALSE, why |-> "LMv2 response does not verify"]
  ELSE IF Len(a.lm) = 24 /\ ~AllZero(a.lm, 1, 24) /\ Sub(a.lm, 17, 8) # Sub(temp, 17, 8) THEN [ok |-> FALSE, why |-> "LM and NT responses use different client challenges"]
  ELSE LET base == HMAC_MD5(rk, proof)
           keyx == N!FlagsHas(a.flags, 1, NEGOTIATE_KEY_EXCH) IN
  IF keyx /\ Len(a.sessionKey) # 16 THEN [ok |-> FALSE, why |-> "EncryptedRandomSessionKey is not 16 bytes"]
  ELSE LET exported == IF keyx THEN RC4(base, 0, a.sessionKey) ELSE base
           zeroed == Sub(a.token, 1, a.micAt) \o Zeros(16) \o Rest(a.token, a.micAt + 17) IN
  IF HMAC_MD5(exported, neg \o chal \o zeroed) # a.mic THEN [ok |-> FALSE, why |-> "MIC does not verify over NEGOTIATE || CHALLENGE || AUTHENTICATE"]
  ELSE [ok |-> TRUE, exported |-> exported, user |-> nm.user, domain |-> nm.domain]

(***************************************************************************)
(* CredSSP binding (MS-CSSP 3.1.5, versions 2-4): the server proves it     *)
(* holds the session key and sees the same TLS certificate by returning    *)
(* the client's SubjectPublicKey + 1, sealed in its own direction.         *)
(***************************************************************************)
\* little-endian increment with carry (the comparison is numeric)
RECURSIVE LeInc(_, _)
LeInc(v, i) == IF i > Len(v) THEN v ELSE IF v[i] < 255 THEN [v EXCEPT ![i] = @ + 1] ELSE LeInc([v EXCEPT ![i] = 0], i + 1)
\* numeric equality of little-endian byte strings (trailing zero bytes are insignificant)
RECURSIVE StripZ(_)
StripZ(v) == IF v # <<>> /\ v[Len(v)] = 0 THEN StripZ(SubSeq(v, 1, Len(v) - 1)) ELSE v
NumEq(a, b) == StripZ(a) = StripZ(b)
\* all-0xff overflow: the incremented value has one more byte
PlusOne(v) == IF \A i \in 1..Len(v) : v[i] = 255 THEN Zeros(Len(v)) \o <<1>> ELSE LeInc(v, 1)
=============================================================================
