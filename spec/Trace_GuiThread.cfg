SPECIFICATION TSpec
CONSTANTS
  Scripts <- TNone
  PollSource = "tls_aware"
  ExitOn = "any_error"
  GuiWrites = 0
INVARIANTS NotDone ForwardedInOrder
CONSTRAINT Progress
POSTCONDITION Report
CHECK_DEADLOCK FALSE
