SPECIFICATION Spec
CONSTANTS
  Scripts <- MCScripts
  PollSource = "raw"
  ExitOn = "any_error"
  GuiWrites = 1
INVARIANTS NoStall ForwardedInOrder
PROPERTIES StopsWithSession KeepsUp
CHECK_DEADLOCK FALSE
