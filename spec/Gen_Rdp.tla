------------------------------- MODULE Gen_Rdp -------------------------------
(* Plan generation for the connection-level properties.  A plan is the        *)
(* environment's side of one behaviour of Rdp.tla: the connector              *)
(* configuration and every choice of the server.  NegoPlans is the complete   *)
(* product needed by C02; ConnPlans draws conforming servers x configurations *)
(* for C03 / C04 / C17 (random elements of each class set, TLC's seed).       *)
EXTENDS Naturals, Sequences, FiniteSets, TLC, Json, IOUtils, SequencesExt

CONSTANTS NConn,        \* number of random conforming-server plans
          FlagSet       \* negotiation flag bytes to combine with every reply

B4(n) == << n % 256, (n \div 256) % 256, (n \div 65536) % 256, (n \div 16777216) % 256 >>

Str(s) == s      \* code point sequences are given literally below
Ascii == <<117, 115, 101, 114>>                                   \* "user"
Empty == <<>>
TwoByte == <<233, 224, 1046, 1103, 945>>                          \* 2-byte UTF-8: e-acute a-grave Zhe ya alpha
ThreeByte == <<8364, 26085, 26412, 12354>>                        \* euro, CJK, hiragana
Astral == <<128512, 97, 66560, 120120>>                           \* surrogate pairs mixed with ASCII
Long64 == [i \in 1..64 |-> 97 + (i % 26)]
Exact15 == [i \in 1..15 |-> 65 + i]
Exact16 == [i \in 1..16 |-> 65 + i]
Exact17 == [i \in 1..17 |-> 65 + i]
Mixed9 == <<1046, 1046, 1046, 1046, 1046, 1046, 1046, 1046, 1046>>   \* 9 two-byte characters
NameClasses == {Empty, <<97>>, Ascii, TwoByte, ThreeByte, Astral, Exact15, Exact16, Exact17, Long64, Mixed9, <<114, 100, 112, 45, 114, 115>>}
CredClasses == {Empty, <<120>>, Ascii, TwoByte, ThreeByte, Astral, Long64}
Secret(k) == <<83, 51, 99, 114, 8364, 116, 45>> \o <<48 + (k % 10), 65 + (k % 26), 97 + ((k \div 7) % 26)>>   \* password: >= 6 code points, distinctive

BaseCfg == [api |-> "connector", mask |-> 0, nla |-> FALSE, check |-> FALSE, admin |-> FALSE, blank |-> FALSE, auto |-> FALSE, hash |-> FALSE,
            domain |-> <<100>>, user |-> Ascii, password |-> Secret(1), name |-> <<118, 104>>, w |-> 800, h |-> 600, layout |-> "us"]
BaseSrv == [reply |-> [kind |-> "rsp", sel |-> B4(1), flags |-> 0], ident |-> "leaf", mode |-> "full", uid |-> 1004,
            account |-> [domain |-> <<100>>, user |-> Ascii, password |-> Secret(1)]]

(***************************************************************************)
(* C02: every (configuration, reply) pair.                                 *)
(***************************************************************************)
SelValues == { B4(n) : n \in 0..255 } \cup { B4(256), B4(257), B4(258), B4(513), B4(32768), B4(65536), B4(65538), B4(16777216),
                                               <<0, 0, 0, 128>>, <<2, 0, 0, 128>>, <<255, 255, 255, 127>>, <<255, 255, 255, 255>>, <<1, 0, 0, 255>> }
NegoCfgs == { [BaseCfg EXCEPT !.nla = n, !.check = c] : n \in BOOLEAN, c \in BOOLEAN }
       \cup { [BaseCfg EXCEPT !.api = "x224", !.mask = m] : m \in 0..15 }
NegoReplies == { [kind |-> "rsp", sel |-> s, flags |-> f] : s \in SelValues, f \in FlagSet }
          \cup { [kind |-> k, sel |-> s, flags |-> f] : k \in {"failure", "req"}, s \in {B4(0), B4(1), B4(2), B4(5)}, f \in FlagSet }
          \cup { [kind |-> "absent", sel |-> B4(0), flags |-> 0] }
          \cup { [kind |-> "unknown", sel |-> B4(1), flags |-> f, ntype |-> t] : t \in {0, 4, 7, 255}, f \in FlagSet }
TlsPossible(r) == r.kind = "rsp" /\ r.sel \in {B4(1), B4(2)}
NegoSet == { [cfg |-> c, srv |-> [BaseSrv EXCEPT !.reply = r, !.ident = i, !.mode = IF c.api = "x224" THEN "negox" ELSE "nego"]] :
               c \in NegoCfgs, r \in NegoReplies, i \in {"leaf", "selfsigned"} }
NegoPlans == SetToSeq({ p \in NegoSet : p.srv.ident = "leaf" \/ TlsPossible(p.srv.reply) })

(***************************************************************************)
(* C03 / C04 / C17: conforming servers x configurations.                   *)
(***************************************************************************)
UidBoundaries == {1001, 1002, 1004, 1007, 32767, 32768, 65534, 65535}
Versions == { <<1, 0, 8, 0>>, <<4, 0, 8, 0>>, <<5, 0, 8, 0>>, <<6, 0, 8, 0>>, <<15, 0, 8, 0>>, <<0, 0, 0, 0>> }
Orders == { <<"core", "sec", "net">>, <<"net", "core", "sec">>, <<"core", "unk", "net", "sec">>, <<"sec", "net", "msgchannel", "core">> }
Sizes == { <<800, 600>>, <<1, 1>>, <<0, 0>>, <<4096, 2048>>, <<65535, 65535>>, <<1024, 768>> }

Pick(S) == RandomElement(S)
ConnPlan(k) ==
  LET nla == Pick(BOOLEAN)  admin == Pick(BOOLEAN)  hash == Pick({FALSE, FALSE, TRUE})
      dom == Pick(CredClasses)  usr == Pick(CredClasses \ {Empty})  pw == Secret(k)
      size == Pick(Sizes)  check == Pick(BOOLEAN)
      sel == IF nla THEN Pick({1, 2}) ELSE 1
      \* any user id 1001..65535 except the I/O channel id 1003 (conforming-server assumption: a server never
      \* assigns the I/O channel's id to a user)
      uid == IF k % 3 = 0 THEN Pick(UidBoundaries) ELSE 1001 + RandomElement((0..64534) \ {2}) IN
  [cfg |-> [BaseCfg EXCEPT !.nla = nla, !.check = check, !.admin = admin, !.blank = Pick(BOOLEAN), !.auto = Pick(BOOLEAN), !.hash = hash,
                           !.domain = dom, !.user = usr, !.password = pw, !.name = Pick(NameClasses), !.w = size[1], !.h = size[2], !.layout = Pick({"ar", "bg", "zh", "cs", "da", "de", "el", "us", "es", "fi", "fr", "he", "hu", "is", "it", "ja", "ko", "nl", "no"})],
   srv |-> [BaseSrv EXCEPT !.reply = [kind |-> "rsp", sel |-> B4(sel), flags |-> Pick({0, 1, 8, 255})], !.ident = Pick({"leaf", "leaf2"}) , !.uid = uid,
                           !.account = [domain |-> dom, user |-> usr, password |-> pw]]
           @@ [blocks |-> [version |-> Pick(Versions), core_opt |-> Pick(0..2), with_security |-> Pick(BOOLEAN), order |-> Pick(Orders)],
               licence |-> Pick({"valid", "new"}), licflags |-> Pick({2, 3, 130, 131}), share |-> B4(Pick({0, 1, 66538, 16777215})) , capv |-> Pick(0..7), activations |-> Pick({1, 1, 2}), errinfo |-> Pick(BOOLEAN)],
   inputs |-> << [api |-> "write", dev |-> "ptr", x |-> Pick({0, 1, 65535}), y |-> 5, b |-> Pick(0..3), down |-> Pick(BOOLEAN)],
                 [api |-> "try_write", dev |-> "key", code |-> Pick({0, 30, 65535}), down |-> Pick(BOOLEAN)] >>,
   shutdown |-> TRUE]
ConnPlans == [k \in 1..NConn |-> ConnPlan(k)]

(***************************************************************************)
(* C17: every combination of the five mode switches x credential classes.  *)
(***************************************************************************)
ModeSet == { [nla |-> n, admin |-> a, blank |-> b, auto |-> g, hash |-> h, dom |-> d, usr |-> u, sel |-> s] :
               n \in BOOLEAN, a \in BOOLEAN, b \in BOOLEAN, g \in BOOLEAN, h \in BOOLEAN,
               d \in {Empty, Ascii, Astral}, u \in {Ascii, TwoByte}, s \in {1, 2} }
ModeSeq == SetToSeq({ m \in ModeSet : m.sel = 1 \/ m.nla })
ModePlan(k) == LET m == ModeSeq[k] IN
  [cfg |-> [BaseCfg EXCEPT !.nla = m.nla, !.admin = m.admin, !.blank = m.blank, !.auto = m.auto, !.hash = m.hash,
                           !.domain = m.dom, !.user = m.usr, !.password = Secret(k)],
   srv |-> [BaseSrv EXCEPT !.reply = [kind |-> "rsp", sel |-> B4(m.sel), flags |-> 0], !.uid = 1001 + ((k * 37) % 60000),
                           !.account = [domain |-> m.dom, user |-> m.usr, password |-> Secret(k)]]
           @@ [blocks |-> [version |-> IF k % 2 = 0 THEN <<4, 0, 8, 0>> ELSE <<1, 0, 8, 0>>, core_opt |-> 2, with_security |-> TRUE, order |-> <<"core", "sec", "net">>],
               licence |-> "valid", share |-> B4(66538), capv |-> 0, activations |-> 1, errinfo |-> FALSE],
   inputs |-> << [api |-> "write", dev |-> "key", code |-> 30, down |-> TRUE] >>, shutdown |-> TRUE]
ASSUME ndJsonSerialize(IOEnv.MODEPLANS, [k \in 1..Len(ModeSeq) |-> ModePlan(k)])

ASSUME ndJsonSerialize(IOEnv.NEGOPLANS, NegoPlans)
ASSUME ndJsonSerialize(IOEnv.CONNPLANS, ConnPlans)
VARIABLE done
Init == done = TRUE
Next == UNCHANGED done
=============================================================================
