---------------------------- MODULE Gen_FastPath ----------------------------
(* Behaviour generation for C10: from the active session the server sends    *)
(* Depth fast-path PDUs; each PDU is a shape (sequence of 0..MaxUpd updates, *)
(* each a bitmap update with 0..3 rectangles or an update of another kind)   *)
(* in either length form.  Field values and data lengths are drawn by the    *)
(* harness; the expected callbacks are derived by WireServer.tla from the    *)
(* bytes actually sent.                                                      *)
EXTENDS Activation, Json

CONSTANTS Depth, MaxUpd
VARIABLE hist

GShareIds == {<<7, 0, 0, 128>>}
GUserIds == {1004}
GCoords == {"c"}
GRectSeqs == {<<>>}

UpdKinds == { [t |-> "Bitmap", n |-> k] : k \in 0..3 } \cup { [t |-> "Other", code |-> c] : c \in {0, 3, 5, 7, 9, 13, 15} }
Shapes == UNION { [1..n -> UpdKinds] : n \in 0..MaxUpd }

\* rectangles are opaque tokens <<update index, rect index>> in the model
RECURSIVE CC(_)
CC(ss) == IF ss = <<>> THEN <<>> ELSE Head(ss) \o CC(Tail(ss))

GInit == /\ act = "Active" /\ shareId = <<7, 0, 0, 128>> /\ userId = 1004 /\ out = <<>> /\ cbs = <<>>
         /\ inres = "none" /\ obs = [stage |-> "data", open |-> TRUE] /\ hist = <<>>
GNext == /\ Len(hist) < Depth
         /\ \E sh \in Shapes, long \in BOOLEAN :
              /\ Srv([kind |-> "FastPath", updates |-> [k \in 1..Len(sh) |-> [t |-> sh[k].t]],
                      rects |-> CC([k \in 1..Len(sh) |-> IF sh[k].t = "Bitmap" THEN [j \in 1..sh[k].n |-> <<k, j>>] ELSE <<>>])])
              /\ hist' = Append(hist, [srv |-> [kind |-> "FastPath", shape |-> sh, long |-> long]])
GSpec == GInit /\ [][GNext]_<<vars, hist>>
\* exactly once, in order: the delivered tokens are the rectangles of the last PDU in wire order
ExactlyOnceInOrder ==
  hist # <<>> => LET sh == hist[Len(hist)].srv.shape IN
                 cbs = CC([k \in 1..Len(sh) |-> IF sh[k].t = "Bitmap" THEN [j \in 1..sh[k].n |-> <<k, j>>] ELSE <<>>])
Emit == Len(hist) = Depth => PrintT("PLAN " \o ToJson(hist))
=============================================================================
