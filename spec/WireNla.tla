------------------------------ MODULE WireNla ------------------------------
(* Strict grammar of the CredSSP / NTLM messages (MS-CSSP 2.2.1, MS-NLMP     *)
(* 2.2.1): TSRequest in DER with minimal lengths, NegoData, TSCredentials,   *)
(* TSPasswordCreds, and the three NTLM messages with their length / offset   *)
(* pairs.  DecTsRequest is used for both directions.                         *)
EXTENDS Bytes

\* TRUE: DER (minimal definite lengths); FALSE: any definite-length BER (used only to recognise an honest
\* proof inside a non-DER envelope, see Trace_Rdp!TSDer2)
CONSTANT Strict

LOCAL W == INSTANCE WireClient

\* strict DER TLV inside b[i..lim] with an expected tag
Der(b, i, lim, t) ==
  LET h == W!TlvG(b, i, Strict) IN
  IF ~h.ok THEN h
  ELSE IF h.tag # t THEN Bad("der: unexpected tag")
  ELSE IF i + h.hl + h.len - 1 > lim THEN Bad("der: value exceeds container")
  ELSE h

\* [ctx] EXPLICIT wrapper around one inner TLV with tag t: returns the inner [ok, s (content start), len, next]
Explicit(b, i, lim, ctx, t) ==
  LET o == Der(b, i, lim, 160 + ctx) IN IF ~o.ok THEN o
  ELSE LET n == Der(b, i + o.hl, i + o.hl + o.len - 1, t) IN IF ~n.ok THEN n
  ELSE IF n.hl + n.len # o.len THEN Bad("der: explicit tag does not wrap exactly one value")
  ELSE [ok |-> TRUE, s |-> i + o.hl + n.hl, len |-> n.len, next |-> i + o.hl + o.len]

(***************************************************************************)
(* NTLM messages.                                                          *)
(***************************************************************************)
NtlmSig == <<78, 84, 76, 77, 83, 83, 80, 0>>
NEGOTIATE_VERSION == 33554432      \* 0x02000000
NEGOTIATE_UNICODE == 1

\* a (Len, MaxLen, BufferOffset) triple at b[i..i+7] of a token that starts at b[s] and has n bytes
Field(b, i, s, n, hdr) ==
  LET len == U16LE(b, i)  mx == U16LE(b, i+2) IN
  IF len # mx THEN Bad("ntlm: Len # MaxLen")
  ELSE IF ~FitsSmall32LE(b, i+4) THEN Bad("ntlm: BufferOffset out of range")
  ELSE LET off == Small32LE(b, i+4) IN
  IF len > 0 /\ off < hdr THEN Bad("ntlm: field overlaps the fixed header")
  ELSE IF len > 0 /\ off + len > n THEN Bad("ntlm: field exceeds the token")
  ELSE [ok |-> TRUE, len |-> len, off |-> off, v |-> IF len = 0 THEN <<>> ELSE Sub(b, s + off, len)]

FlagsHas(b, i, p2) == IF p2 >= 16777216 THEN HasBit(b[i+3], p2 \div 16777216)
                      ELSE IF p2 >= 65536 THEN HasBit(b[i+2], p2 \div 65536)
                      ELSE IF p2 >= 256 THEN HasBit(b[i+1], p2 \div 256) ELSE HasBit(b[i], p2)

\* fields must lie one after the other, in the order given, without gaps or overlap, ending at n
RECURSIVE Packed(_, _, _)
Packed(fs, at, n) == IF fs = <<>> THEN at = n
                     ELSE IF Head(fs).len = 0 THEN Packed(Tail(fs), at, n)
                     ELSE Head(fs).off = at /\ Packed(Tail(fs), at + Head(fs).len, n)

Ntlm(b, s, n) ==       \* token = b[s..s+n-1]
  IF n < 12 THEN Bad("ntlm: truncated")
  ELSE IF Sub(b, s, 8) # NtlmSig THEN Bad("ntlm: bad signature")
  ELSE IF ~FitsSmall32LE(b, s+8) THEN Bad("ntlm: bad message type")
  ELSE LET mt == Small32LE(b, s+8) IN
  IF mt = 1 THEN
    IF n < 32 THEN Bad("ntlm negotiate: truncated")
    ELSE LET ver == FlagsHas(b, s+12, NEGOTIATE_VERSION)
             hdr == IF ver THEN 40 ELSE 32
             d == Field(b, s+16, s, n, hdr)  w == Field(b, s+24, s, n, hdr) IN
    IF n < hdr THEN Bad("ntlm negotiate: version flag set but no version")
    ELSE IF ~d.ok THEN d ELSE IF ~w.ok THEN w
    ELSE IF ~Packed(<<d, w>>, hdr, n) THEN Bad("ntlm negotiate: payload not exactly covered by its fields")
    ELSE [ok |-> TRUE, kind |-> "NtlmNegotiate", flags |-> B4(b, s+12), token |-> Sub(b, s, n)]
  ELSE IF mt = 2 THEN
    IF n < 48 THEN Bad("ntlm challenge: truncated")
    ELSE [ok |-> TRUE, kind |-> "NtlmChallenge", flags |-> B4(b, s+20), challenge |-> Sub(b, s+24, 8), token |-> Sub(b, s, n)]
  ELSE IF mt = 3 THEN
    IF n < 64 THEN Bad("ntlm authenticate: truncated")
    ELSE LET ver == FlagsHas(b, s+60, NEGOTIATE_VERSION)
             hdr == (IF ver THEN 72 ELSE 64) + 16          \* + MIC
             lm == Field(b, s+12, s, n, hdr)  nt == Field(b, s+20, s, n, hdr)  dom == Field(b, s+28, s, n, hdr)
             usr == Field(b, s+36, s, n, hdr) ws == Field(b, s+44, s, n, hdr)  key == Field(b, s+52, s, n, hdr) IN
    IF n < hdr THEN Bad("ntlm authenticate: shorter than its fixed part")
    ELSE IF ~lm.ok THEN lm ELSE IF ~nt.ok THEN nt ELSE IF ~dom.ok THEN dom ELSE IF ~usr.ok THEN usr ELSE IF ~ws.ok THEN ws ELSE IF ~key.ok THEN key
    ELSE IF ~Packed(<<lm, nt, dom, usr, ws, key>>, hdr, n) /\ ~Packed(<<dom, usr, ws, lm, nt, key>>, hdr, n)
         THEN Bad("ntlm authenticate: payload not exactly covered, in order, by its six fields")
    ELSE [ok |-> TRUE, kind |-> "NtlmAuthenticate", flags |-> B4(b, s+60), unicode |-> FlagsHas(b, s+60, NEGOTIATE_UNICODE),
          lm |-> lm.v, nt |-> nt.v, domain |-> dom.v, user |-> usr.v, workstation |-> ws.v, sessionKey |-> key.v,
          mic |-> Sub(b, s + hdr - 16, 16), micAt |-> hdr - 16, token |-> Sub(b, s, n)]
  ELSE Bad("ntlm: unknown message type")

(***************************************************************************)
(* TSRequest.                                                              *)
(***************************************************************************)
\* optional [ctx] EXPLICIT OCTET STRING at b[i..]; absent when the next tag differs or nothing is left
OptOctets(b, i, lim, ctx) ==
  IF i > lim \/ b[i] # 160 + ctx THEN [ok |-> TRUE, present |-> FALSE, v |-> <<>>, next |-> i]
  ELSE LET e == Explicit(b, i, lim, ctx, 4) IN
       IF ~e.ok THEN e ELSE [ok |-> TRUE, present |-> TRUE, v |-> Sub(b, e.s, e.len), next |-> e.next]

\* negoTokens [1] SEQUENCE OF SEQUENCE { negoToken [0] OCTET STRING } with exactly one token
NegoTokens(b, i, lim) ==
  IF i > lim \/ b[i] # 161 THEN [ok |-> TRUE, present |-> FALSE, next |-> i]
  ELSE LET e == Explicit(b, i, lim, 1, 48) IN IF ~e.ok THEN e          \* SEQUENCE OF
  ELSE LET one == Der(b, e.s, e.s + e.len - 1, 48) IN IF ~one.ok THEN one
  ELSE IF one.hl + one.len # e.len THEN Bad("tsrequest: negoTokens must hold exactly one token here")
  ELSE LET t == Explicit(b, e.s + one.hl, e.s + e.len - 1, 0, 4) IN IF ~t.ok THEN t
  ELSE IF t.next # e.s + e.len THEN Bad("tsrequest: bytes after negoToken")
  ELSE [ok |-> TRUE, present |-> TRUE, s |-> t.s, len |-> t.len, next |-> e.next]

DecTsRequest(b) ==
  LET n == Len(b)
      o == Der(b, 1, n, 48) IN IF ~o.ok THEN o
  ELSE IF o.hl + o.len # n THEN Bad("tsrequest: length # size")
  ELSE LET v == Explicit(b, 1 + o.hl, n, 0, 2) IN IF ~v.ok THEN v
  ELSE IF ~W!DerUIntOk(b, v.s, v.len) THEN Bad("tsrequest: version is not a minimal non-negative INTEGER")
  ELSE LET ng == NegoTokens(b, v.next, n) IN IF ~ng.ok THEN ng
  ELSE LET ai == OptOctets(b, ng.next, n, 2) IN IF ~ai.ok THEN ai
  ELSE LET pk == OptOctets(b, ai.next, n, 3) IN IF ~pk.ok THEN pk
  ELSE IF pk.next # n + 1 THEN Bad("tsrequest: unexpected trailing fields")
  ELSE LET tok == IF ng.present THEN Ntlm(b, ng.s, ng.len) ELSE [ok |-> TRUE, kind |-> "none"] IN
  IF ~tok.ok THEN tok
  ELSE [ok |-> TRUE, kind |-> "TsRequest", version |-> W!DerUIntVal(b, v.s, v.len),
        nego |-> tok, hasNego |-> ng.present,
        authInfo |-> ai.v, hasAuthInfo |-> ai.present, pubKeyAuth |-> pk.v, hasPubKeyAuth |-> pk.present,
        round |-> IF ng.present /\ tok.kind = "NtlmNegotiate" /\ ~ai.present /\ ~pk.present THEN 1
                  ELSE IF ng.present /\ tok.kind = "NtlmAuthenticate" /\ pk.present /\ ~ai.present THEN 2
                  ELSE IF ~ng.present /\ ai.present /\ ~pk.present THEN 3 ELSE 0]

\* TSCredentials { credType [0] INTEGER (1), credentials [1] OCTET STRING (TSPasswordCreds) }
\* TSPasswordCreds { domainName [0], userName [1], password [2] : OCTET STRING }
DecTsCredentials(b) ==
  LET n == Len(b)
      o == Der(b, 1, n, 48) IN IF ~o.ok THEN o
  ELSE IF o.hl + o.len # n THEN Bad("tscredentials: length # size")
  ELSE LET ct == Explicit(b, 1 + o.hl, n, 0, 2) IN IF ~ct.ok THEN ct
  ELSE IF ct.len # 1 \/ b[ct.s] # 1 THEN Bad("tscredentials: credType # 1 (password)")
  ELSE LET cr == Explicit(b, ct.next, n, 1, 4) IN IF ~cr.ok THEN cr
  ELSE IF cr.next # n + 1 THEN Bad("tscredentials: trailing bytes")
  ELSE LET lim == cr.s + cr.len - 1
           p == Der(b, cr.s, lim, 48) IN IF ~p.ok THEN p
  ELSE IF p.hl + p.len # cr.len THEN Bad("tspasswordcreds: length # size")
  ELSE LET d == Explicit(b, cr.s + p.hl, lim, 0, 4) IN IF ~d.ok THEN d
  ELSE LET u == Explicit(b, d.next, lim, 1, 4) IN IF ~u.ok THEN u
  ELSE LET pw == Explicit(b, u.next, lim, 2, 4) IN IF ~pw.ok THEN pw
  ELSE IF pw.next # lim + 1 THEN Bad("tspasswordcreds: trailing bytes")
  ELSE [ok |-> TRUE, kind |-> "TsCredentials", domain |-> Sub(b, d.s, d.len), user |-> Sub(b, u.s, u.len), password |-> Sub(b, pw.s, pw.len)]
=============================================================================
