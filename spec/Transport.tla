------------------------------ MODULE Transport ------------------------------
(* Shared definitions; the step machines are TransportRead / TransportWrite.  *)
(* The framing layer (Link / TPKT / X.224 data) as a transition system.      *)
(*                                                                           *)
(* Read side (C13): the reader of tpkt::Client::read is four sized reads     *)
(* (2, then 2 or 1, then the body); each sized read is completed by the      *)
(* stream in arbitrarily small pieces chosen by the environment              *)
(* (StreamDeliver).  RefFrames is an independent reference deframer over     *)
(* the whole byte stream; ExactFrames says the stepwise reader returns       *)
(* exactly its frames and consumes exactly their bytes, for every schedule.  *)
(*                                                                           *)
(* Write side (C14): a message is serialised into one frame and pushed to a  *)
(* stream that accepts any part of what it is offered (StreamAccept) or      *)
(* fails (StreamFail).                                                       *)
(*                                                                           *)
(* Two constants describe implementation choices so that TLC can show which  *)
(* choice the properties need (the required design is the first value):      *)
(*   ZeroLenBody in {"empty", "read_available"}: what a body read of size 0  *)
(*       does - nothing, or one unsized read of whatever the stream has;     *)
(*   WriteLoop   in {"all", "once"}: whether the writer loops until every    *)
(*       byte is accepted or issues a single write call.                     *)
EXTENDS Bytes

CONSTANT MaxFrame        \* largest frame length the 16-bit header can express (65535; small in models)

(***************************************************************************)
(* Reference deframer (independent of the step machine).                   *)
(***************************************************************************)
\* header interpretation at 1-based position i of a stream of total length L whose bytes are b
\* (only the header bytes b[i..i+3] are inspected):
\*   [st |-> "frame", kind, sec, from, plen, next] | [st |-> "reject", next] | [st |-> "eof"]
FrameMeta(b, i, L) ==
  IF i + 1 > L THEN [st |-> "eof"]
  ELSE IF b[i] = 3 THEN
    IF i + 3 > L THEN [st |-> "eof"]
    ELSE LET n == U16BE(b, i + 2) IN
         IF n < 4 THEN [st |-> "reject", next |-> i + 4]
         ELSE IF i + n - 1 > L THEN [st |-> "eof"]
         ELSE [st |-> "frame", kind |-> "raw", sec |-> 0, from |-> i + 4, plen |-> n - 4, next |-> i + n]
  ELSE LET sec == (b[i] \div 64) % 4 IN
    IF b[i+1] < 128 THEN
      LET n == b[i+1] IN
      IF n < 2 THEN [st |-> "reject", next |-> i + 2]
      ELSE IF i + n - 1 > L THEN [st |-> "eof"]
      ELSE [st |-> "frame", kind |-> "fp", sec |-> sec, from |-> i + 2, plen |-> n - 2, next |-> i + n]
    ELSE IF i + 2 > L THEN [st |-> "eof"]
    ELSE LET n == (b[i+1] - 128) * 256 + b[i+2] IN
      IF n < 3 THEN [st |-> "reject", next |-> i + 3]
      ELSE IF i + n - 1 > L THEN [st |-> "eof"]
      ELSE [st |-> "frame", kind |-> "fp", sec |-> sec, from |-> i + 3, plen |-> n - 3, next |-> i + n]

\* the frame starting at position i of b, with its payload
FrameAt(b, i) ==
  LET m == FrameMeta(b, i, Len(b)) IN
  IF m.st = "frame" THEN [st |-> "frame", kind |-> m.kind, sec |-> m.sec, payload |-> Sub(b, m.from, m.plen), next |-> m.next]
  ELSE m

\* results of successive reads until the first failure: sequence of
\*   [res |-> "ok", kind, sec, payload, consumed] | [res |-> "err", why]
RECURSIVE RefFrom(_, _)
RefFrom(b, i) ==
  LET f == FrameAt(b, i) IN
  IF f.st = "eof" THEN << [res |-> "err", why |-> "eof"] >>
  ELSE IF f.st = "reject" THEN << [res |-> "err", why |-> "short", consumed |-> f.next - 1] >>
  ELSE << [res |-> "ok", kind |-> f.kind, sec |-> f.sec, payload |-> f.payload, consumed |-> f.next - 1] >> \o RefFrom(b, f.next)
RefFrames(b) == RefFrom(b, 1)

\* X.224 data TPDU on top of a raw frame (x224::Client::read): 02 F0 80 then the user data
X224Strip(p) == IF Len(p) >= 3 /\ p[1] = 2 /\ p[2] = 240 /\ p[3] = 128 THEN [ok |-> TRUE, data |-> Rest(p, 4)] ELSE [ok |-> FALSE]

(***************************************************************************)
(* Reference framing of outbound messages.                                 *)
(***************************************************************************)
TpktFrame(p) == <<3, 0>> \o EncU16BE(Len(p) + 4) \o p
X224Frame(p) == TpktFrame(<<2, 240, 128>> \o p)
FrameOf(layer, p) == IF layer = "link" THEN p ELSE IF layer = "tpkt" THEN TpktFrame(p) ELSE X224Frame(p)
FrameLen(layer, n) == IF layer = "link" THEN n ELSE IF layer = "tpkt" THEN n + 4 ELSE n + 7
\* a frame longer than the 16-bit length can say must be refused (the link layer has no header)
TooLarge(layer, n) == layer # "link" /\ FrameLen(layer, n) > MaxFrame

=============================================================================
