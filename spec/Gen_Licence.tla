----------------------------- MODULE Gen_Licence -----------------------------
(* Enumerates the licensing decision table (Licence.tla) as plans for the      *)
(* setup driver: the licence reply of the reference server is replaced by the  *)
(* PDU of the row (fault list "truncate to 0, append bytes" on the user-data   *)
(* region), with the outcome C03 requires and the outcome the model of the     *)
(* implementation predicts.                                                    *)
EXTENDS Licence, Json, IOUtils, TLC, SequencesExt

SecFlags == {128, 640, 0, 136, 16, 32896}       \* LICENSE_PKT; + LICENSE_ENCRYPT_CS; none; + ENCRYPT; another bit only; + FLAGSHI_VALID
MsgTypes == 0..255
PFlags   == {0, 1, 2, 3, 4, 15, 18, 19, 130, 131, 128, 255}
Codes    == {0, 1, 2, 3, 4, 5, 6, 7, 8, 9, 11, 12, 13, 255, 65543}
Trans    == {0, 1, 2, 3, 4, 5, 258}

Row(sec, mt, pf, code, tr, body) ==
  [id |-> "L-" \o ToString(sec) \o "-" \o ToString(mt) \o "-" \o ToString(pf) \o "-" \o ToString(code) \o "-" \o ToString(tr),
   stage |-> "licence", layer |-> "user", uid |-> 1004,
   faults |-> << [op |-> "trunc", at |-> 0], [op |-> "append", bytes |-> UserData(sec, mt, pf, body)] >>,
   sec |-> sec, mt |-> mt, pf |-> pf, code |-> code, tr |-> tr,
   required |-> Required(sec, mt, pf, code, tr), asbuilt |-> AsBuilt(sec, mt, pf, code, tr)]

\* the same "finished" alert under every type an empty blob may carry: all required to succeed
BlobTypes == {0, 1, 4, 9, 5160, 65535}
RowT(sec, pf, bt) == [Row(sec, ERROR_ALERT, pf, STATUS_VALID_CLIENT, ST_NO_TRANSITION, ErrorAlertBodyT(STATUS_VALID_CLIENT, ST_NO_TRANSITION, bt))
                        EXCEPT !.id = "LB-" \o ToString(sec) \o "-" \o ToString(pf) \o "-" \o ToString(bt)]
EmptyBlobAlerts == { RowT(sec, pf, bt) : sec \in {128, 640}, pf \in {2, 3, 130, 131}, bt \in BlobTypes }

Alerts == { Row(sec, ERROR_ALERT, pf, code, tr, ErrorAlertBody(code, tr)) : sec \in SecFlags, pf \in PFlags, code \in Codes, tr \in Trans }
Others == { Row(sec, mt, pf, 0, 0, OtherBody(IF (mt % 3) = 0 THEN 0 ELSE 12 + (mt % 5))) : sec \in SecFlags, mt \in MsgTypes \ {ERROR_ALERT}, pf \in PFlags }

VARIABLE done
Init == done = ndJsonSerialize(IOEnv.LICPLANS, SetToSeq(Alerts \cup Others \cup EmptyBlobAlerts))
Next == UNCHANGED done
=============================================================================
