-------------------------- MODULE TransportTables --------------------------
(* Full-domain expectation tables (DESIGN 4.4): TLC evaluates the reference  *)
(* operators of Transport.tla over complete header domains - all 65536 TPKT  *)
(* lengths, all short and long fast-path lengths, all first bytes - and all  *)
(* payload lengths 0..70000 on the write side, and writes them as ndjson     *)
(* for comparison with what the implementation did on the same inputs.       *)
EXTENDS Transport, Json, IOUtils

CONSTANT WMaxN      \* largest payload length of the write table

\* read side: a header, then `plen' payload bytes if it is a frame
Row(hdr) == LET m == FrameMeta(hdr \o <<0, 0, 0, 0>>, 1, 100000) IN
            IF m.st = "frame" THEN [hdr |-> hdr, st |-> "frame", kind |-> m.kind, sec |-> m.sec, plen |-> m.plen, hlen |-> m.from - 1]
            ELSE [hdr |-> hdr, st |-> m.st, kind |-> "none", sec |-> 0, plen |-> 0, hlen |-> m.next - 1]

TpktHdrs    == [n \in 1..65536 |-> <<3, 0>> \o EncU16BE(n - 1)]
FpShortHdrs == [k \in 1..(128 * 64) |-> << ((k - 1) \div 128) * 4, (k - 1) % 128 >>]           \* all 64 conformant first bytes x all short lengths
FpLongHdrs  == [k \in 1..32768 |-> << ((k - 1) % 64) * 4, 128 + ((k - 1) \div 256), (k - 1) % 256 >>]  \* all long lengths, first byte cycling
FirstBytes  == [k \in 1..256 |-> << k - 1, 0, 9, 0 >>]                                          \* every first byte with a fixed 4-byte header

\* EVERY first byte other than 0x03 starts a fast-path frame (the reader looks at nothing else): all 255 of them, with
\* short and long lengths at the boundaries
OtherFirst  == [k \in 1..255 |-> IF k - 1 < 3 THEN k - 1 ELSE k]
BoundShort  == <<0, 1, 2, 3, 9, 127>>
BoundLong   == << <<128, 0>>, <<128, 2>>, <<128, 3>>, <<128, 9>>, <<129, 0>>, <<255, 255>> >>
AnyFirstHdrs == [k \in 1..(255 * 12) |-> LET f == OtherFirst[1 + ((k - 1) \div 12)]  j == 1 + ((k - 1) % 12) IN
                                          IF j <= 6 THEN <<f, BoundShort[j]>> ELSE <<f>> \o BoundLong[j - 6]]
ReadTable == [k \in 1..65536 |-> Row(TpktHdrs[k])] \o [k \in 1..(128*64) |-> Row(FpShortHdrs[k])]
             \o [k \in 1..32768 |-> Row(FpLongHdrs[k])] \o [k \in 1..(255 * 12) |-> Row(AnyFirstHdrs[k])]

\* write side: payload length n on each layer
\* header of the frame for payload length n: FrameOf(layer, p) only depends on Len(p) in its first bytes
WHdr(layer, n) == IF layer = "link" THEN <<>> ELSE IF layer = "tpkt" THEN <<3, 0>> \o EncU16BE(n + 4) ELSE <<3, 0>> \o EncU16BE(n + 7) \o <<2, 240, 128>>
WriteRow(layer, n) == [layer |-> layer, n |-> n, refuse |-> TooLarge(layer, n), flen |-> FrameLen(layer, n),
                       hdr |-> IF TooLarge(layer, n) THEN <<>> ELSE WHdr(layer, n)]
\* WHdr agrees with the reference framing on real payloads (checked for small ones when the table is produced)
ASSUME \A layer \in {"link", "tpkt", "x224"}, n \in 0..9 :
          LET p == [i \in 1..n |-> i] IN Sub(FrameOf(layer, p), 1, Len(WHdr(layer, n))) = WHdr(layer, n)
                                        /\ Len(FrameOf(layer, p)) = FrameLen(layer, n)

VARIABLE done
Init == done = /\ ndJsonSerialize(IOEnv.RTABLE, ReadTable)
               /\ ndJsonSerialize(IOEnv.WTABLE, [k \in 1..(3 * (WMaxN + 1)) |->
                     WriteRow(<<"link", "tpkt", "x224">>[1 + ((k - 1) % 3)], (k - 1) \div 3)])
Next == UNCHANGED done
=============================================================================
