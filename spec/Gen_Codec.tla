------------------------------ MODULE Gen_Codec ------------------------------
(* Exhaustive enumeration of conformant interleaved-RLE encodings (C09) and   *)
(* of their malformed neighbours (C08) for tiny images.  A behaviour appends  *)
(* one compression order at a time; the reference decoder Rle16!Step runs     *)
(* forward on the bytes, so that every complete behaviour is a pair           *)
(* (encoding, image).  Every order kind in every applicable form is offered:  *)
(* regular / lite / mega-mega headers, scaled and explicit FG/BG run lengths, *)
(* set-variants, dithered runs, specials.                                     *)
EXTENDS Codec, Json, TLC

CONSTANTS W, H, Palette, Masks, MaxImageRun

VARIABLES bytes, st, done
gvars == <<bytes, st, done>>

Lo(n) == n % 256
Hi(n) == n \div 256
C(c) == <<Lo(c), Hi(c)>>
RECURSIVE MaskSeqs(_)
MaskSeqs(n) == IF n = 0 THEN {<<>>} ELSE { <<m>> \o t : m \in Masks, t \in MaskSeqs(n - 1) }
RECURSIVE PixSeqs(_)
PixSeqs(n) == IF n = 0 THEN {<<>>} ELSE { C(c) \o t : c \in Palette, t \in PixSeqs(n - 1) }
NMask(r) == (r + 7) \div 8

\* byte strings of every order that produces between 1 and `room' pixels
Orders(room) ==
  LET runs == 1..room IN
       { <<r>> : r \in {x \in runs : x <= 31} } \cup { <<240, Lo(r), Hi(r)>> : r \in runs }                                  \* background run
  \cup { <<32 + r>> : r \in {x \in runs : x <= 31} } \cup { <<241, Lo(r), Hi(r)>> : r \in runs }                             \* foreground run
  \cup { <<96 + r>> \o C(c) : r \in {x \in runs : x <= 31}, c \in Palette } \cup { <<243, Lo(r), Hi(r)>> \o C(c) : r \in runs, c \in Palette }   \* colour run
  \cup UNION { { <<128 + r>> \o p : p \in PixSeqs(r) } : r \in {x \in runs : x <= MaxImageRun} }                             \* colour image
  \cup UNION { { <<244, Lo(r), Hi(r)>> \o p : p \in PixSeqs(r) } : r \in {x \in runs : x <= MaxImageRun} }
  \cup UNION { { <<64 + (r \div 8)>> \o m : m \in MaskSeqs(NMask(r)) } : r \in {x \in runs : x % 8 = 0} }                     \* FG/BG image, scaled run
  \cup UNION { { <<64, r - 1>> \o m : m \in MaskSeqs(NMask(r)) } : r \in runs }                                              \* ... explicit run
  \cup UNION { { <<242, Lo(r), Hi(r)>> \o m : m \in MaskSeqs(NMask(r)) } : r \in runs }
  \cup { <<192 + r>> \o C(c) : r \in {x \in runs : x <= 15}, c \in Palette } \cup { <<246, Lo(r), Hi(r)>> \o C(c) : r \in runs, c \in Palette }  \* set-fg run
  \cup UNION { { <<208 + (r \div 8)>> \o C(c) \o m : m \in MaskSeqs(NMask(r)), c \in Palette } : r \in {x \in runs : x % 8 = 0} }  \* set-fg FG/BG image
  \cup UNION { { <<208, r - 1>> \o C(c) \o m : m \in MaskSeqs(NMask(r)), c \in Palette } : r \in runs }
  \cup UNION { { <<247, Lo(r), Hi(r)>> \o C(c) \o m : m \in MaskSeqs(NMask(r)), c \in Palette } : r \in runs }
  \cup { <<224 + r>> \o C(a) \o C(b) : r \in {x \in runs : 2 * x <= room /\ x <= 15}, a \in Palette, b \in Palette }           \* dithered run
  \cup { <<248, Lo(r), Hi(r)>> \o C(a) \o C(b) : r \in {x \in runs : 2 * x <= room}, a \in Palette, b \in Palette }
  \cup (IF room >= 8 THEN { <<249>>, <<250>> } ELSE {})                                                                       \* specials
  \cup { <<253>>, <<254>> }                                                                                                   \* white, black

Start == [ok |-> TRUE, i |-> 1, out |-> <<>>, fg |-> R!WHITE, ins |-> FALSE, first |-> TRUE]
Room(s) == IF s.first /\ Len(s.out) < W THEN W - Len(s.out) ELSE W * H - Len(s.out)

GInit == bytes = <<>> /\ st = Start /\ done = FALSE
GNext == /\ ~done /\ Len(st.out) < W * H
         /\ \E o \in Orders(Room(st)) :
              LET b2 == bytes \o o
                  t == R!Step(b2, st, W, H) IN
              /\ t.ok                         \* only conformant continuations
              /\ bytes' = b2 /\ st' = t /\ done' = (Len(t.out) = W * H)
GSpec == GInit /\ [][GNext]_gvars

Expected == X!Out565(R!TopDown(st.out, W, H))
Emit == done => PrintT("PLAN " \o ToJson([w |-> W, h |-> H, bpp |-> 16, comp |-> TRUE, data |-> bytes, expect |-> Expected]))
\* the stepwise construction agrees with the one-shot reference decoder
Agree == done => LET d == Decompress(W, H, 16, TRUE, bytes) IN d.ok /\ d.bytes = Expected
=============================================================================
