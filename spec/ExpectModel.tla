----------------------------- MODULE ExpectModel -----------------------------
(* Expectation pass for the message algebra (C18): every (shape, value) case   *)
(* is completed (size fields computed from the encoded size of their target),  *)
(* serialised with MsgModel!Write and read back with MsgModel!Read.            *)
EXTENDS MsgModel, Json, IOUtils

Cases == ndJsonDeserialize(IOEnv.CASES)

\* fill the size fields (given as -1) from the encoded size of their target
RECURSIVE Fix(_, _)
RECURSIVE FixSeq(_, _, _)
FieldIndex(fs, name) == CHOOSE k \in 1..Len(fs) : fs[k].name = name
Fix(s, v) ==
  CASE s.t = "trame" -> [k \in 1..Len(v) |-> Fix(s.items[k], v[k])]
    [] s.t = "opt"   -> IF v = <<>> THEN <<>> ELSE <<Fix(s.s, v[1])>>
    [] s.t = "arr"   -> [k \in 1..Len(v) |-> Fix(s.s, v[k])]
    [] s.t = "comp"  -> LET inner == [k \in 1..Len(v) |-> Fix(s.fields[k].s, v[k])] IN
                        [k \in 1..Len(v) |->
                           IF s.fields[k].opt.k = "size" /\ inner[k] = -1
                           THEN LET j == FieldIndex(s.fields, s.fields[k].opt.target) IN Len(Write(s.fields[j].s, inner[j])) - s.fields[k].opt.add
                           ELSE inner[k]]
    [] OTHER -> v
FixSeq(s, v, k) == v

One(c) ==
  LET v == Fix(c.shape, c.value)
      b == Write(c.shape, v)
      r == Read(c.shape, b) IN
  [value |-> v, bytes |-> b, length |-> Len(b), readok |-> r.ok, readv |-> IF r.ok THEN r.v ELSE <<>>, used |-> IF r.ok THEN r.used ELSE 0]

VARIABLE x
Init == x = ndJsonSerialize(IOEnv.EXPECTED, [k \in 1..Len(Cases) |-> One(Cases[k])])
Next == UNCHANGED x
=============================================================================
