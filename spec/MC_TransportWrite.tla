------------------------- MODULE MC_TransportWrite -------------------------
EXTENDS TransportWrite
\* payloads of 0..3 bytes; with MaxFrame = 9 a 3-byte payload fits TPKT (7) but not X.224 (10)
MCPayloads == { <<>>, <<1>>, <<1, 2>>, <<3, 0, 0>> }
=============================================================================
