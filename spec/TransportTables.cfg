INIT Init
NEXT Next
CONSTANT MaxFrame = 65535
CONSTANT WMaxN = 70000
CHECK_DEADLOCK FALSE
