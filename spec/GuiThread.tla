------------------------------ MODULE GuiThread ------------------------------
(* The receive thread of the GUI client (mstsc-rs launch_rdp_thread) together *)
(* with the server's side of the socket and the GUI loop, in PlusCal.         *)
(*                                                                            *)
(* The server packs PDUs into TLS records (one per record, several per        *)
(* record, one PDU split over two records), may pause for ever at any point,  *)
(* and ends the session in one of four ways.  Rx is the loop of               *)
(* launch_rdp_thread step by step: select on the RAW descriptor, check the    *)
(* sync flag, lock the client, read ONE PDU through the TLS stream, dispatch, *)
(* unlock.  Two constants describe choices of the implementation so that TLC  *)
(* can compare the required design with the code as read:                     *)
(*   PollSource : "tls_aware" (wake up when decrypted data is pending) or     *)
(*                "raw" (look at the socket only)                             *)
(*   ExitOn     : "any_error" or "rdp_error_only" (leave the loop only for    *)
(*                errors of the library's own kind)                           *)
EXTENDS Naturals, Sequences, TLC

CONSTANTS Scripts,       \* server scripts: sequences of [op |-> "rec", pdus |-> <<...>>] / [op |-> "end", mode |-> ...]
          PollSource, ExitOn,
          GuiWrites      \* how many input writes the GUI thread attempts

\* PDU tokens: <<"bmp", k>> (a bitmap update), <<"obmp", k>> (one PDU: an update of a kind the library does not implement, then bitmap k), <<"bmp3", k>> (one PDU carrying three rectangles k, k+1, k+2), <<"ctl", name>> (a slow-path PDU that produces no event:
\* demand active, synchronize, control, font map, error info), <<"part1", k>> / <<"part2", k>> (halves of one), <<"ult">> (disconnect
\* provider ultimatum), <<"bad_rdp">> / <<"bad_io">> (undecodable PDU whose decode error is of the library's kind / an io kind),
\* <<"notify">> (TLS close_notify)

(* --algorithm GuiThread
variables script \in Scripts,
          sock = <<>>,            \* TLS records in the kernel buffer, not yet read
          sockEnd = "open",       \* "open" | "eof" | "rst"
          tlsbuf = <<>>,          \* decrypted PDUs the TLS layer holds, not yet consumed by RdpClient::read
          mutex = "free",
          sync = TRUE,
          sent = <<>>,            \* bitmap ids the server has sent
          forwarded = <<>>,       \* bitmap ids pushed into the channel
          ended = FALSE,          \* the server has ended the session
          err = "none",
          half = 0;               \* first half of a split PDU held by the reader

define
  SelectReady == sock # <<>> \/ sockEnd # "open" \/ (PollSource = "tls_aware" /\ tlsbuf # <<>>)
  BitmapsOf(pdus) == SelectSeq(pdus, LAMBDA p : p[1] \in {"bmp", "part2", "bmp3", "obmp"})
  IdsOf(p) == IF p[1] = "bmp3" THEN <<p[2], p[2] + 1, p[2] + 2>> ELSE <<p[2]>>
  RECURSIVE Ids(_)
  Ids(pdus) == IF pdus = <<>> THEN <<>> ELSE IdsOf(Head(pdus)) \o Ids(Tail(pdus))
end define;

process Server = "server"
begin
 S: while script # <<>> do
      either
        if Head(script).op = "rec" then
          sock := Append(sock, Head(script).pdus);
          sent := sent \o Ids(BitmapsOf(Head(script).pdus));
          \* a record may itself carry the PDU that ends the session, behind other PDUs; the connection stays open
          if \E i \in 1..Len(Head(script).pdus) : Head(script).pdus[i][1] \in {"ult", "bad_rdp", "bad_io"} then ended := TRUE; end if;
        elsif Head(script).mode = "ultimatum" then
          sock := Append(sock, << <<"ult">> >>); sockEnd := "eof"; ended := TRUE;
        elsif Head(script).mode = "notify" then
          sock := Append(sock, << <<"notify">> >>); sockEnd := "eof"; ended := TRUE;
        elsif Head(script).mode = "abrupt" then
          sockEnd := "rst"; ended := TRUE;
        elsif Head(script).mode = "bad_rdp" then
          sock := Append(sock, << <<"bad_rdp">> >>); ended := TRUE;
        else
          sock := Append(sock, << <<"bad_io">> >>); ended := TRUE;
        end if;
        script := Tail(script);
      or
        await FALSE;      \* the server may stay silent for ever (no fairness on this process)
      end either;
    end while;
end process;

fair process Rx = "rx"
begin
 Select:    await SelectReady;                       \* wait_for_fd returns
 CheckSync: if ~sync then goto Done; end if;
 Lock:      await mutex = "free"; mutex := "rx";
 Fill:      if tlsbuf = <<>> then                   \* the TLS layer needs a record from the socket
              if sock # <<>> then
                tlsbuf := Head(sock); sock := Tail(sock);
              elsif sockEnd # "open" then
                err := "io";                         \* EOF / reset surfaces as an io error
              else
                await sock # <<>> \/ sockEnd # "open";   \* blocking read (holding the mutex)
                goto Fill;
              end if;
            end if;
 ReadOne:   if err = "none" then
              if Head(tlsbuf)[1] = "bmp" \/ Head(tlsbuf)[1] = "obmp" then   \* obmp: an update of an unimplemented kind in front of the bitmap update, same PDU
                forwarded := Append(forwarded, Head(tlsbuf)[2]);
              elsif Head(tlsbuf)[1] = "bmp3" then
                forwarded := forwarded \o IdsOf(Head(tlsbuf));   \* every rectangle of the PDU, in wire order
              elsif Head(tlsbuf)[1] = "ctl" then
                skip;                                             \* consumed, nothing to forward
              elsif Head(tlsbuf)[1] = "part1" then
                half := Head(tlsbuf)[2];             \* rest of the PDU is in a later record: keep reading
              elsif Head(tlsbuf)[1] = "part2" then
                forwarded := Append(forwarded, Head(tlsbuf)[2]); half := 0;
              elsif Head(tlsbuf)[1] = "ult" \/ Head(tlsbuf)[1] = "bad_rdp" then
                err := "rdp";
              else
                err := "io";                         \* close_notify, truncated payload
              end if;
              tlsbuf := Tail(tlsbuf);
              if half # 0 then goto Fill; end if;
            end if;
 Unlock:    mutex := "free";
 Decide:    if err = "rdp" \/ (ExitOn = "any_error" /\ err # "none") then
              goto Done;
            else
              err := "none";
              goto Select;
            end if;
end process;

fair process Gui = "gui"
variable writes = 0;
begin
 G: while writes < GuiWrites do
      await mutex = "free"; mutex := "gui";
 W:   writes := writes + 1; mutex := "free";
    end while;
end process;
end algorithm; *)
\* BEGIN TRANSLATION
VARIABLES pc, script, sock, sockEnd, tlsbuf, mutex, sync, sent, forwarded, 
          ended, err, half

(* define statement *)
SelectReady == sock # <<>> \/ sockEnd # "open" \/ (PollSource = "tls_aware" /\ tlsbuf # <<>>)
BitmapsOf(pdus) == SelectSeq(pdus, LAMBDA p : p[1] \in {"bmp", "part2", "bmp3", "obmp"})
IdsOf(p) == IF p[1] = "bmp3" THEN <<p[2], p[2] + 1, p[2] + 2>> ELSE <<p[2]>>
RECURSIVE Ids(_)
Ids(pdus) == IF pdus = <<>> THEN <<>> ELSE IdsOf(Head(pdus)) \o Ids(Tail(pdus))

VARIABLE writes

vars == << pc, script, sock, sockEnd, tlsbuf, mutex, sync, sent, forwarded, 
           ended, err, half, writes >>

ProcSet == {"server"} \cup {"rx"} \cup {"gui"}

Init == (* Global variables *)
        /\ script \in Scripts
        /\ sock = <<>>
        /\ sockEnd = "open"
        /\ tlsbuf = <<>>
        /\ mutex = "free"
        /\ sync = TRUE
        /\ sent = <<>>
        /\ forwarded = <<>>
        /\ ended = FALSE
        /\ err = "none"
        /\ half = 0
        (* Process Gui *)
        /\ writes = 0
        /\ pc = [self \in ProcSet |-> CASE self = "server" -> "S"
                                        [] self = "rx" -> "Select"
                                        [] self = "gui" -> "G"]

S == /\ pc["server"] = "S"
     /\ IF script # <<>>
           THEN /\ \/ /\ IF Head(script).op = "rec"
                            THEN /\ sock' = Append(sock, Head(script).pdus)
                                 /\ sent' = sent \o Ids(BitmapsOf(Head(script).pdus))
                                 /\ IF \E i \in 1..Len(Head(script).pdus) : Head(script).pdus[i][1] \in {"ult", "bad_rdp", "bad_io"}
                                       THEN /\ ended' = TRUE
                                       ELSE /\ TRUE
                                            /\ ended' = ended
                                 /\ UNCHANGED sockEnd
                            ELSE /\ IF Head(script).mode = "ultimatum"
                                       THEN /\ sock' = Append(sock, << <<"ult">> >>)
                                            /\ sockEnd' = "eof"
                                            /\ ended' = TRUE
                                       ELSE /\ IF Head(script).mode = "notify"
                                                  THEN /\ sock' = Append(sock, << <<"notify">> >>)
                                                       /\ sockEnd' = "eof"
                                                       /\ ended' = TRUE
                                                  ELSE /\ IF Head(script).mode = "abrupt"
                                                             THEN /\ sockEnd' = "rst"
                                                                  /\ ended' = TRUE
                                                                  /\ sock' = sock
                                                             ELSE /\ IF Head(script).mode = "bad_rdp"
                                                                        THEN /\ sock' = Append(sock, << <<"bad_rdp">> >>)
                                                                             /\ ended' = TRUE
                                                                        ELSE /\ sock' = Append(sock, << <<"bad_io">> >>)
                                                                             /\ ended' = TRUE
                                                                  /\ UNCHANGED sockEnd
                                 /\ sent' = sent
                      /\ script' = Tail(script)
                   \/ /\ FALSE
                      /\ UNCHANGED <<script, sock, sockEnd, sent, ended>>
                /\ pc' = [pc EXCEPT !["server"] = "S"]
           ELSE /\ pc' = [pc EXCEPT !["server"] = "Done"]
                /\ UNCHANGED << script, sock, sockEnd, sent, ended >>
     /\ UNCHANGED << tlsbuf, mutex, sync, forwarded, err, half, writes >>

Server == S

Select == /\ pc["rx"] = "Select"
          /\ SelectReady
          /\ pc' = [pc EXCEPT !["rx"] = "CheckSync"]
          /\ UNCHANGED << script, sock, sockEnd, tlsbuf, mutex, sync, sent, 
                          forwarded, ended, err, half, writes >>

CheckSync == /\ pc["rx"] = "CheckSync"
             /\ IF ~sync
                   THEN /\ pc' = [pc EXCEPT !["rx"] = "Done"]
                   ELSE /\ pc' = [pc EXCEPT !["rx"] = "Lock"]
             /\ UNCHANGED << script, sock, sockEnd, tlsbuf, mutex, sync, sent, 
                             forwarded, ended, err, half, writes >>

Lock == /\ pc["rx"] = "Lock"
        /\ mutex = "free"
        /\ mutex' = "rx"
        /\ pc' = [pc EXCEPT !["rx"] = "Fill"]
        /\ UNCHANGED << script, sock, sockEnd, tlsbuf, sync, sent, forwarded, 
                        ended, err, half, writes >>

Fill == /\ pc["rx"] = "Fill"
        /\ IF tlsbuf = <<>>
              THEN /\ IF sock # <<>>
                         THEN /\ tlsbuf' = Head(sock)
                              /\ sock' = Tail(sock)
                              /\ pc' = [pc EXCEPT !["rx"] = "ReadOne"]
                              /\ err' = err
                         ELSE /\ IF sockEnd # "open"
                                    THEN /\ err' = "io"
                                         /\ pc' = [pc EXCEPT !["rx"] = "ReadOne"]
                                    ELSE /\ sock # <<>> \/ sockEnd # "open"
                                         /\ pc' = [pc EXCEPT !["rx"] = "Fill"]
                                         /\ err' = err
                              /\ UNCHANGED << sock, tlsbuf >>
              ELSE /\ pc' = [pc EXCEPT !["rx"] = "ReadOne"]
                   /\ UNCHANGED << sock, tlsbuf, err >>
        /\ UNCHANGED << script, sockEnd, mutex, sync, sent, forwarded, ended, 
                        half, writes >>

ReadOne == /\ pc["rx"] = "ReadOne"
           /\ IF err = "none"
                 THEN /\ IF Head(tlsbuf)[1] = "bmp" \/ Head(tlsbuf)[1] = "obmp"
                            THEN /\ forwarded' = Append(forwarded, Head(tlsbuf)[2])
                                 /\ UNCHANGED << err, half >>
                            ELSE /\ IF Head(tlsbuf)[1] = "bmp3"
                                       THEN /\ forwarded' = forwarded \o IdsOf(Head(tlsbuf))
                                            /\ UNCHANGED << err, half >>
                                       ELSE /\ IF Head(tlsbuf)[1] = "ctl"
                                                  THEN /\ TRUE
                                                       /\ UNCHANGED << forwarded, 
                                                                       err, 
                                                                       half >>
                                                  ELSE /\ IF Head(tlsbuf)[1] = "part1"
                                                             THEN /\ half' = Head(tlsbuf)[2]
                                                                  /\ UNCHANGED << forwarded, 
                                                                                  err >>
                                                             ELSE /\ IF Head(tlsbuf)[1] = "part2"
                                                                        THEN /\ forwarded' = Append(forwarded, Head(tlsbuf)[2])
                                                                             /\ half' = 0
                                                                             /\ err' = err
                                                                        ELSE /\ IF Head(tlsbuf)[1] = "ult" \/ Head(tlsbuf)[1] = "bad_rdp"
                                                                                   THEN /\ err' = "rdp"
                                                                                   ELSE /\ err' = "io"
                                                                             /\ UNCHANGED << forwarded, 
                                                                                             half >>
                      /\ tlsbuf' = Tail(tlsbuf)
                      /\ IF half' # 0
                            THEN /\ pc' = [pc EXCEPT !["rx"] = "Fill"]
                            ELSE /\ pc' = [pc EXCEPT !["rx"] = "Unlock"]
                 ELSE /\ pc' = [pc EXCEPT !["rx"] = "Unlock"]
                      /\ UNCHANGED << tlsbuf, forwarded, err, half >>
           /\ UNCHANGED << script, sock, sockEnd, mutex, sync, sent, ended, 
                           writes >>

Unlock == /\ pc["rx"] = "Unlock"
          /\ mutex' = "free"
          /\ pc' = [pc EXCEPT !["rx"] = "Decide"]
          /\ UNCHANGED << script, sock, sockEnd, tlsbuf, sync, sent, forwarded, 
                          ended, err, half, writes >>

Decide == /\ pc["rx"] = "Decide"
          /\ IF err = "rdp" \/ (ExitOn = "any_error" /\ err # "none")
                THEN /\ pc' = [pc EXCEPT !["rx"] = "Done"]
                     /\ err' = err
                ELSE /\ err' = "none"
                     /\ pc' = [pc EXCEPT !["rx"] = "Select"]
          /\ UNCHANGED << script, sock, sockEnd, tlsbuf, mutex, sync, sent, 
                          forwarded, ended, half, writes >>

Rx == Select \/ CheckSync \/ Lock \/ Fill \/ ReadOne \/ Unlock \/ Decide

G == /\ pc["gui"] = "G"
     /\ IF writes < GuiWrites
           THEN /\ mutex = "free"
                /\ mutex' = "gui"
                /\ pc' = [pc EXCEPT !["gui"] = "W"]
           ELSE /\ pc' = [pc EXCEPT !["gui"] = "Done"]
                /\ mutex' = mutex
     /\ UNCHANGED << script, sock, sockEnd, tlsbuf, sync, sent, forwarded, 
                     ended, err, half, writes >>

W == /\ pc["gui"] = "W"
     /\ writes' = writes + 1
     /\ mutex' = "free"
     /\ pc' = [pc EXCEPT !["gui"] = "G"]
     /\ UNCHANGED << script, sock, sockEnd, tlsbuf, sync, sent, forwarded, 
                     ended, err, half >>

Gui == G \/ W

(* Allow infinite stuttering to prevent deadlock on termination. *)
Terminating == /\ \A self \in ProcSet: pc[self] = "Done"
               /\ UNCHANGED vars

Next == Server \/ Rx \/ Gui
           \/ Terminating

Spec == /\ Init /\ [][Next]_vars
        /\ WF_vars(Rx)
        /\ WF_vars(Gui)

Termination == <>(\A self \in ProcSet: pc[self] = "Done")

\* END TRANSLATION

RxBlocked == pc["rx"] = "Select" /\ ~SelectReady
\* C20: a PDU the server has sent is never left waiting for further server traffic
NoStall == ~(RxBlocked /\ tlsbuf # <<>>)
\* bitmaps are forwarded in the order sent, without loss or duplication so far
ForwardedInOrder == Len(forwarded) <= Len(sent) /\ \A i \in 1..Len(forwarded) : forwarded[i] = sent[i]
\* the thread stops (and has released the client) whenever the connection ends
StopsWithSession == ended ~> (pc["rx"] = "Done" /\ mutex # "rx")
\* everything sent is eventually forwarded unless the session ends first
KeepsUp == \A k \in 1..4 : (Len(sent) >= k) ~> (Len(forwarded) >= k \/ ended)
=============================================================================
