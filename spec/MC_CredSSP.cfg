SPECIFICATION Spec
CONSTANTS
  Certs <- MCCerts
  Keys <- MCKeys
  Modes <- MCModes
INVARIANTS CredsOnlyAfterProof FailsUnlessProved OrderOK ModeTable
PROPERTIES SilentAfterFail
CHECK_DEADLOCK FALSE
