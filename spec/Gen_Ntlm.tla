------------------------------ MODULE Gen_Ntlm ------------------------------
(* Plan generation for C15 / C16: accounts, server challenges (flags, server  *)
(* challenge, target-info blocks: any subset and order of AV pairs 1..10      *)
(* around a timestamp, value lengths 0..400), constructor (password / hash),  *)
(* and seal / unseal scenarios.  Random elements of class sets (TLC's seed).  *)
EXTENDS Naturals, Sequences, FiniteSets, TLC, Json, IOUtils

CONSTANTS NAuth, NSess, MaxLen

Pick(S) == RandomElement(S)
Ascii == <<117, 115, 101, 114>>
Names == { <<>>, <<120>>, Ascii, <<85, 115, 69, 114, 49>>, <<233, 224, 1046, 1103, 945>>, <<8364, 26085, 26412>>, <<128512, 97, 66560>>,
           [i \in 1..64 |-> 97 + (i % 26)], <<65, 100, 109, 105, 110, 105, 115, 116, 114, 97, 116, 111, 114>>,
           <<117, 115, 64, 99, 111, 46, 101, 120>>, <<64>> }      \* UPN form "us@co.ex", a lone "@"
AsciiNames == { <<>>, <<120>>, Ascii, <<85, 115, 69, 114, 49>>, [i \in 1..64 |-> 97 + (i % 26)], <<117, 115, 64, 99, 111, 46, 101, 120>> }
Passwords == { <<>>, <<112>>, <<112, 97, 115, 115, 119, 111, 114, 100>>, <<80, 228, 223, 223, 119, 246, 114, 116, 8364>>, <<128273, 128274, 49>>, [i \in 1..64 |-> 33 + (i % 90)] }
Challenges == { <<0, 0, 0, 0, 0, 0, 0, 0>>, <<255, 255, 255, 255, 255, 255, 255, 255>>, <<1, 35, 69, 103, 137, 171, 205, 239>> }
RandBytes(n) == [i \in 1..n |-> RandomElement(0..255)]
FlagClasses == {"default", "noversion", "oem", "oem_noversion", "unicode_and_oem", "unicode_and_oem_noversion"}

ValLen(id) == IF id = 6 THEN 4 ELSE IF id = 7 THEN 8 ELSE IF id = 8 THEN 48 ELSE IF id = 10 THEN 16 ELSE Pick({0, 1, 2, 3, 7, 8, 30, 31, 400})
RECURSIVE Shuffle(_)
Shuffle(S) == IF S = {} THEN <<>> ELSE LET x == Pick(S) IN <<x>> \o Shuffle(S \ {x})
TargetInfo == LET ids == Shuffle({7} \cup { i \in {1, 2, 3, 4, 5, 6, 8, 9, 10} : Pick(BOOLEAN) }) IN
              [k \in 1..Len(ids) |-> << ids[k], RandBytes(ValLen(ids[k])) >>]

Steps(n) == [k \in 1..n |-> [dir |-> Pick({"c2s", "s2c"}), len |-> Pick(0..MaxLen), tamper |-> "none"]]

AuthPlan(k) ==
  LET fc == Pick(FlagClasses)
      oem == fc \in {"oem", "oem_noversion"} IN
  [domain |-> Pick(IF oem THEN AsciiNames ELSE Names), user |-> Pick(IF oem THEN AsciiNames ELSE Names), password |-> Pick(Passwords),
   mode |-> Pick({"password", "hash"}), flagclass |-> fc, sc |-> IF k % 4 = 0 THEN Pick(Challenges) ELSE RandBytes(8),
   ti |-> TargetInfo, tname |-> RandBytes(Pick({0, 2, 12, 64}))]

SessPlan(k) ==
  IF k % 2 = 0 THEN [exported |-> RandBytes(16), steps |-> Steps(Pick(1..8))]
  ELSE AuthPlan(k) @@ [steps |-> Steps(Pick(1..8))]

ASSUME ndJsonSerialize(IOEnv.AUTHPLANS, [k \in 1..NAuth |-> AuthPlan(k)])
ASSUME ndJsonSerialize(IOEnv.SESSPLANS, [k \in 1..NSess |-> SessPlan(k)])
VARIABLE done
Init == done = TRUE
Next == UNCHANGED done
=============================================================================
