SPECIFICATION RSpec
CONSTANTS
  Streams <- MCStreams
  MaxFrame = 65535
  ZeroLenBody = "empty"
INVARIANTS ExactFrames NoOverConsumption
CHECK_DEADLOCK FALSE
