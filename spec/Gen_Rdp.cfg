INIT Init
NEXT Next
CONSTANTS
  NConn = 300
  FlagSet = {0, 1, 255}
CHECK_DEADLOCK FALSE
