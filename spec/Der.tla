--------------------------------- MODULE Der ---------------------------------
(* Reference DER encoder (X.690) for the ASN.1 value shapes used by MCS        *)
(* (connect-initial / connect-response, domain parameters) and CredSSP          *)
(* (TSRequest, TSCredentials): INTEGER, ENUMERATED, BOOLEAN, OCTET STRING,      *)
(* SEQUENCE, SEQUENCE OF, explicit and implicit tags (context and application   *)
(* class).  Trees: [t |-> "int", v (4 bytes BE)] [t |-> "octets", v]            *)
(* [t |-> "bool", v] [t |-> "enum", v] [t |-> "seq", items] [t |-> "seqof",     *)
(* items] [t |-> "explicit" | "implicit", tag |-> [c, n], item].                *)
EXTENDS Bytes

Len_(n) == IF n < 128 THEN <<n>> ELSE IF n < 256 THEN <<129, n>> ELSE IF n < 65536 THEN <<130, n \div 256, n % 256>>
           ELSE IF n < 16777216 THEN <<131, n \div 65536, (n \div 256) % 256, n % 256>>      \* contents of 64 KiB and more
           ELSE <<132, n \div 16777216, (n \div 65536) % 256, (n \div 256) % 256, n % 256>>
Tlv(tagBytes, c) == tagBytes \o Len_(Len(c)) \o c

StripLead(v) == IF v[1] # 0 THEN v ELSE IF v[2] # 0 THEN Rest(v, 2) ELSE IF v[3] # 0 THEN Rest(v, 3) ELSE Rest(v, 4)
UIntContent(v) == LET m == StripLead(v) IN IF m[1] >= 128 THEN <<0>> \o m ELSE m
\* two's complement, minimal, for -32768 <= n < 2^31
SIntContent(n) == IF n >= 0 THEN UIntContent(EncU32BE(n))
                  ELSE IF n >= -128 THEN <<256 + n>> ELSE <<(65536 + n) \div 256, (65536 + n) % 256>>

Constructed(t) == t.t \in {"seq", "seqof", "explicit"} \/ (t.t = "implicit" /\ t.item.t \in {"seq", "seqof", "explicit"})
TagBytes(tag, constructed) ==
  LET cls == IF tag.c = "app" THEN 64 ELSE 128
      cb == IF constructed THEN 32 ELSE 0 IN
  IF tag.n < 31 THEN <<cls + cb + tag.n>> ELSE <<cls + cb + 31, tag.n>>      \* high tag numbers below 128

RECURSIVE Enc(_)
RECURSIVE Content(_)
Content(t) ==
  CASE t.t = "int"    -> UIntContent(t.v)
    [] t.t = "enum"   -> SIntContent(t.v)
    [] t.t = "bool"   -> IF t.v THEN <<255>> ELSE <<0>>
    [] t.t = "octets" -> t.v
    [] t.t \in {"seq", "seqof"} -> Concat([k \in 1..Len(t.items) |-> Enc(t.items[k])])
    [] t.t = "explicit" -> Enc(t.item)
    [] t.t = "implicit" -> Content(t.item)
Enc(t) ==
  CASE t.t = "int"    -> Tlv(<<2>>, Content(t))
    [] t.t = "enum"   -> Tlv(<<10>>, Content(t))
    [] t.t = "bool"   -> Tlv(<<1>>, Content(t))
    [] t.t = "octets" -> Tlv(<<4>>, Content(t))
    [] t.t \in {"seq", "seqof"} -> Tlv(<<48>>, Content(t))
    [] t.t = "explicit" -> Tlv(TagBytes(t.tag, TRUE), Content(t))
    [] t.t = "implicit" -> Tlv(TagBytes(t.tag, Constructed(t.item)), Content(t))
=============================================================================
