----------------------------- MODULE Gen_Input -----------------------------
(* Behaviour generation for C11: from the active session, every sequence of  *)
(* Depth user submissions (any button, both press states, keys, the unsend-  *)
(* able kind, strict and lenient write) interleaved with server traffic that *)
(* keeps or closes the input window.  Coordinates and scancodes are symbolic *)
(* classes here; the harness draws concrete members and the trace spec       *)
(* checks the concrete values.                                               *)
EXTENDS Activation, Json

CONSTANT Depth
VARIABLE hist

GShareIds == {<<7, 0, 0, 128>>}
GUserIds == {1004}
GCoords == {"c"}
GRectSeqs == {<<>>}

GenInputs == { e \in ModelInputs : TRUE }
GenSrv == { [kind |-> "ErrInfo"], [kind |-> "DeactivateAll"],
            [kind |-> "FastPath", updates |-> <<[t |-> "Other", code |-> 5]>>, rects |-> <<>>] }

GInit == /\ act = "Active" /\ shareId = <<7, 0, 0, 128>> /\ userId = 1004 /\ out = <<>> /\ cbs = <<>>
         /\ inres = "none" /\ obs = [stage |-> "data", open |-> TRUE] /\ hist = <<>>
GNext == /\ Len(hist) < Depth
         /\ \/ \E e \in GenInputs, len \in BOOLEAN :
                 Input(e, len) /\ hist' = Append(hist, [in |-> [api |-> IF len THEN "try_write" ELSE "write",
                                                                 dev |-> e.t, b |-> IF e.t = "ptr" THEN e.b ELSE 0,
                                                                 down |-> IF e.t = "bmp" THEN FALSE ELSE e.down]])
            \/ \E m \in GenSrv : Srv(m) /\ hist' = Append(hist, [srv |-> m])
GSpec == GInit /\ [][GNext]_<<vars, hist>>
Emit == Len(hist) = Depth => PrintT("PLAN " \o ToJson(hist))
=============================================================================
