-------------------------------- MODULE Blit --------------------------------
(* Painting a decoded bitmap into the window buffer (mstsc-rs                 *)
(* fast_bitmap_transfer), as a reference function over index sets.            *)
(*   window  : Wd x Hd pixels, row major                                      *)
(*   rect    : destLeft l, destTop t, destRight r, destBottom b (inclusive)   *)
(*   image   : w x h decoded pixels, row major, top-down                      *)
(* Class "inside": the rectangle is not inverted, lies in the window, and the *)
(* image has a row for every rectangle row and a column for every rectangle   *)
(* column.  For this class the result, when the call succeeds, is fixed:      *)
(* window pixel (t+i, l+j) := image pixel (i, j), nothing else changes.       *)
(* For every other geometry the call may fail or paint, but only inside the   *)
(* two buffers.                                                               *)
EXTENDS Naturals, Sequences, FiniteSets, TLC

Inside(Wd, Hd, l, t, r, b, w, h) ==
  /\ l <= r /\ t <= b /\ r < Wd /\ b < Hd
  /\ r - l + 1 <= w /\ b - t + 1 <= h

\* the writes of a successful paint of class "inside": sequence of [dst, src] 0-based linear indices
Writes(Wd, l, t, r, b, w) ==
  LET rows == b - t + 1  cols == r - l + 1 IN
  [k \in 1..(rows * cols) |->
     LET i == (k - 1) \div cols  j == (k - 1) % cols IN
     [dst |-> (t + i) * Wd + l + j, src |-> i * w + j]]

\* the result buffer: buf and img are sequences of pixel values (1-based storage of 0-based indices)
Paint(buf, img, Wd, l, t, r, b, w) ==
  LET ws == Writes(Wd, l, t, r, b, w) IN
  [p \in 1..Len(buf) |->
     LET hits == {k \in 1..Len(ws) : ws[k].dst = p - 1} IN
     IF hits = {} THEN buf[p] ELSE img[ws[CHOOSE k \in hits : TRUE].src + 1]]

\* Safety envelope for EVERY geometry: a call may succeed only if the rectangle is not inverted and every row it
\* copies lies inside both buffers (n = number of pixels of the decoded image as the painter sees it)
OkPermitted(Wd, Hd, l, t, r, b, w, n) ==
  /\ l <= r /\ t <= b
  /\ \A i \in 0..(b - t) : /\ (t + i) * Wd + l + (r - l + 1) <= Wd * Hd
                           /\ i * w + (r - l + 1) <= n
\* indices a memory-safe implementation may touch
DstOk(Wd, Hd, d) == d < Wd * Hd
SrcOk(w, h, s) == s < w * h
=============================================================================
