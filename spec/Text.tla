-------------------------------- MODULE Text --------------------------------
(* Unicode code points -> UTF-16LE / UTF-8 byte strings (reference encoders). *)
EXTENDS Naturals, Sequences
RECURSIVE TCat(_)
TCat(ss) == IF ss = <<>> THEN <<>> ELSE Head(ss) \o TCat(Tail(ss))
Utf16Unit(u) == << u % 256, u \div 256 >>
Utf16Cp(c) == IF c < 65536 THEN Utf16Unit(c)
              ELSE LET v == c - 65536 IN Utf16Unit(55296 + (v \div 1024)) \o Utf16Unit(56320 + (v % 1024))
Utf16LE(cps) == TCat([k \in 1..Len(cps) |-> Utf16Cp(cps[k])])
Utf16Units(cps) == Len(Utf16LE(cps)) \div 2
\* UTF-16LE bytes -> code points (unpaired surrogates are kept as they are)
RECURSIVE Units(_)
Units(b) == IF Len(b) < 2 THEN <<>> ELSE <<b[1] + 256 * b[2]>> \o Units(SubSeq(b, 3, Len(b)))
RECURSIVE Pair(_)
Pair(u) == IF u = <<>> THEN <<>>
           ELSE IF Len(u) >= 2 /\ u[1] >= 55296 /\ u[1] < 56320 /\ u[2] >= 56320 /\ u[2] < 57344
                THEN <<65536 + (u[1] - 55296) * 1024 + (u[2] - 56320)>> \o Pair(SubSeq(u, 3, Len(u)))
           ELSE <<u[1]>> \o Pair(Tail(u))
FromUtf16LE(b) == Pair(Units(b))
Utf8Cp(c) == IF c < 128 THEN <<c>>
             ELSE IF c < 2048 THEN << 192 + (c \div 64), 128 + (c % 64) >>
             ELSE IF c < 65536 THEN << 224 + (c \div 4096), 128 + ((c \div 64) % 64), 128 + (c % 64) >>
             ELSE << 240 + (c \div 262144), 128 + ((c \div 4096) % 64), 128 + ((c \div 64) % 64), 128 + (c % 64) >>
Utf8(cps) == TCat([k \in 1..Len(cps) |-> Utf8Cp(cps[k])])
=============================================================================
