-------------------------------- MODULE Text --------------------------------
(* Unicode code points -> UTF-16LE / UTF-8 byte strings (reference encoders). *)
EXTENDS Naturals, Sequences
RECURSIVE TCat(_)
TCat(ss) == IF ss = <<>> THEN <<>> ELSE Head(ss) \o TCat(Tail(ss))
Utf16Unit(u) == << u % 256, u \div 256 >>
Utf16Cp(c) == IF c < 65536 THEN Utf16Unit(c)
              ELSE LET v == c - 65536 IN Utf16Unit(55296 + (v \div 1024)) \o Utf16Unit(56320 + (v % 1024))
\* (text of the Basic Multilingual Plane only: two bytes a code point, written directly - linear, so that names of tens of
\* thousands of characters can be handled; the general definition is the concatenation below)
Utf16LE(cps) == IF \A k \in 1..Len(cps) : cps[k] < 65536
                THEN [i \in 1..(2 * Len(cps)) |-> IF i % 2 = 1 THEN cps[(i + 1) \div 2] % 256 ELSE cps[i \div 2] \div 256]
                ELSE TCat([k \in 1..Len(cps) |-> Utf16Cp(cps[k])])
Utf16Units(cps) == Len(Utf16LE(cps)) \div 2
\* UTF-16LE bytes -> code points (unpaired surrogates are kept as they are)
RECURSIVE Units(_)
Units(b) == IF Len(b) < 2 THEN <<>> ELSE <<b[1] + 256 * b[2]>> \o Units(SubSeq(b, 3, Len(b)))
RECURSIVE Pair(_)
Pair(u) == IF u = <<>> THEN <<>>
           ELSE IF Len(u) >= 2 /\ u[1] >= 55296 /\ u[1] < 56320 /\ u[2] >= 56320 /\ u[2] < 57344
                THEN <<65536 + (u[1] - 55296) * 1024 + (u[2] - 56320)>> \o Pair(SubSeq(u, 3, Len(u)))
           ELSE <<u[1]>> \o Pair(Tail(u))
UnitsFlat(b) == [k \in 1..(Len(b) \div 2) |-> b[2 * k - 1] + 256 * b[2 * k]]
FromUtf16LE(b) == LET u == UnitsFlat(b) IN
                  IF \A k \in 1..Len(u) : u[k] < 55296 \/ u[k] >= 57344 THEN u      \* no surrogate: the units are the code points
                  ELSE Pair(Units(b))
Utf8Cp(c) == IF c < 128 THEN <<c>>
             ELSE IF c < 2048 THEN << 192 + (c \div 64), 128 + (c % 64) >>
             ELSE IF c < 65536 THEN << 224 + (c \div 4096), 128 + ((c \div 64) % 64), 128 + (c % 64) >>
             ELSE << 240 + (c \div 262144), 128 + ((c \div 4096) % 64), 128 + ((c \div 64) % 64), 128 + (c % 64) >>
Utf8(cps) == TCat([k \in 1..Len(cps) |-> Utf8Cp(cps[k])])
=============================================================================
