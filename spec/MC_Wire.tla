------------------------------- MODULE MC_Wire -------------------------------
(* Self-consistency of the wire grammar on bytes that did not come from me:   *)
(* the vectors embedded in the repository's unit tests (captured from a real  *)
(* client / server) must be accepted, and single-field corruptions rejected,  *)
(* so that the strict parser is neither wrong about real traffic nor vacuous. *)
EXTENDS Bytes
C == INSTANCE WireClient
S == INSTANCE WireServer
N == INSTANCE WireNla WITH Strict <- TRUE

Tp(p) == <<3, 0>> \o EncU16BE(Len(p) + 4) \o p
X(p) == Tp(<<2, 240, 128>> \o p)
Sd(p) == X(<<100, 0, 3, 3, 235, 112>> \o (IF Len(p) > 127 THEN EncU16BE(Len(p) + 32768) ELSE <<Len(p)>>) \o p)
Si(p) == X(<<104, 0, 1, 3, 235, 112>> \o (IF Len(p) > 127 THEN EncU16BE(Len(p) + 32768) ELSE <<Len(p)>>) \o p)
Set(b, i, v) == [b EXCEPT ![i] = v]

\* x224.rs test_x224_connection_pdu
ConnReqV == <<14, 224, 0, 0, 0, 0, 0, 1, 0, 8, 0, 3, 0, 0, 0>>
\* global.rs test_share_control_header (confirm active with one brush capability)
ConfirmV == <<34, 0, 19, 0, 12, 0, 4, 0, 0, 0, 234, 3, 6, 0, 12, 0, 114, 100, 112, 45, 114, 115, 1, 0, 0, 0, 15, 0, 8, 0, 0, 0, 0, 0>>
\* global.rs server vectors
SyncV    == <<22, 0, 23, 0, 234, 3, 234, 3, 1, 0, 0, 2, 22, 0, 31, 0, 0, 0, 1, 0, 0, 0>>
CoopV    == <<26, 0, 23, 0, 234, 3, 234, 3, 1, 0, 0, 2, 26, 0, 20, 0, 0, 0, 4, 0, 0, 0, 0, 0, 0, 0>>
GrantedV == <<26, 0, 23, 0, 234, 3, 234, 3, 1, 0, 0, 2, 26, 0, 20, 0, 0, 0, 2, 0, 236, 3, 234, 3, 0, 0>>
FontMapV == <<26, 0, 23, 0, 234, 3, 234, 3, 1, 0, 0, 2, 26, 0, 40, 0, 0, 0, 0, 0, 0, 0, 3, 0, 4, 0>>
\* mcs.rs vectors
AttachConfirmV == <<46, 0, 0, 3>>
\* ntlm.rs test_ntlmv2_negotiate_message
NegotiateV == <<78, 84, 76, 77, 83, 83, 80, 0, 1, 0, 0, 0, 53, 130, 8, 96, 0, 0, 0, 0, 0, 0, 0, 0, 0, 0, 0, 0, 0, 0, 0, 0>>
\* cssp.rs test_create_ts_authinfo
AuthInfoV == <<48, 12, 160, 3, 2, 1, 2, 162, 5, 4, 3, 102, 111, 111>>
\* cssp.rs test_create_ts_credentials (domain, user, password)
CredsV == <<48, 41, 160, 3, 2, 1, 1, 161, 34, 4, 32, 48, 30, 160, 8, 4, 6, 100, 111, 109, 97, 105, 110, 161, 6, 4, 4, 117, 115, 101, 114, 162, 10, 4, 8, 112, 97, 115, 115, 119, 111, 114, 100>>

ASSUME C!DecClient(Tp(ConnReqV)).ok /\ C!DecClient(Tp(ConnReqV)).protocols = 3
ASSUME ~C!DecClient(Tp(Set(ConnReqV, 1, 13))).ok                  \* wrong length indicator
ASSUME ~C!DecClient(Tp(Set(ConnReqV, 10, 9))).ok                  \* RDP_NEG_REQ length # 8
ASSUME ~C!DecClient(Set(Tp(ConnReqV), 4, 20)).ok                  \* TPKT length # size
ASSUME C!DecClient(Sd(ConfirmV)).ok /\ C!DecClient(Sd(ConfirmV)).kind = "ConfirmActive" /\ C!DecClient(Sd(ConfirmV)).caps = <<15>>
ASSUME ~C!DecClient(Sd(Set(ConfirmV, 1, 35))).ok                  \* totalLength
ASSUME ~C!DecClient(Sd(Set(ConfirmV, 15, 13))).ok                 \* lengthCombinedCapabilities
ASSUME ~C!DecClient(Sd(Set(ConfirmV, 23, 2))).ok                  \* numberCapabilities
ASSUME ~C!DecClient(Sd(Set(ConfirmV, 29, 9))).ok                  \* lengthCapability of the brush set (fixed size 8)
ASSUME ~C!DecClient(Sd(Set(ConfirmV, 11, 235))).ok                \* originatorId
ASSUME S!DecServer(Si(SyncV)).kind = "Sync" /\ S!DecServer(Si(CoopV)).action = 4 /\ S!DecServer(Si(GrantedV)).action = 2
ASSUME S!DecServer(Si(FontMapV)).kind = "FontMap"
ASSUME S!DecServer(X(AttachConfirmV)).uidOff = 3
\* the same data PDUs sent by a client are accepted by the client grammar (uncompressedLength = totalLength convention)
ASSUME C!DecClient(Sd(SyncV)).kind = "Sync" /\ C!DecClient(Sd(CoopV)).kind = "Control"
ASSUME ~C!DecClient(Sd(Set(SyncV, 13, 21))).ok                    \* uncompressedLength matching no convention
ASSUME C!DecClient(Sd(Set(Set(SyncV, 13, 8), 14, 0))).ok          \* the convention of the MS-RDPBCGR examples (bytes from pduType2)
ASSUME N!Ntlm(NegotiateV, 1, 32).ok /\ N!Ntlm(NegotiateV, 1, 32).kind = "NtlmNegotiate"
ASSUME ~N!Ntlm(Set(NegotiateV, 17, 1), 1, 32).ok                  \* DomainNameLen # MaxLen
ASSUME N!DecTsRequest(AuthInfoV).ok /\ N!DecTsRequest(AuthInfoV).round = 3 /\ N!DecTsRequest(AuthInfoV).authInfo = <<102, 111, 111>>
ASSUME ~N!DecTsRequest(Set(AuthInfoV, 2, 13)).ok
ASSUME N!DecTsCredentials(CredsV).ok /\ N!DecTsCredentials(CredsV).user = <<117, 115, 101, 114>>
ASSUME ~N!DecTsCredentials(Set(CredsV, 7, 2)).ok                  \* credType # 1

VARIABLE x
Init == x = 0
Next == UNCHANGED x
=============================================================================
