-------------------------- MODULE ActivationProofs --------------------------
(* Machine-checked (TLAPS) proof that the window agreement of C12 is an       *)
(* inductive consequence of the Activation automaton for ARBITRARY constants  *)
(* (any set of share ids, user ids, coordinates, rectangle sequences) and for *)
(* behaviours of every length - TLC checks the same invariants exhaustively   *)
(* for the small constants of MC_Activation.cfg.                              *)
EXTENDS Activation, TLAPS

Stages == {"da", "sync", "coop", "granted", "fontmap", "data"}

IndInv == /\ act \in States
          /\ obs \in [stage : Stages, open : BOOLEAN]
          /\ StageOf(act) = obs.stage
          /\ obs.open <=> (obs.stage = "data")

LEMMA InitInv == Init => IndInv
  BY DEF Init, IndInv, ObsInit, States, Stages, StageOf

LEMMA ObsNextType == ASSUME NEW o \in [stage : Stages, open : BOOLEAN], NEW l
                     PROVE ObsNext(o, l) \in [stage : Stages, open : BOOLEAN]
  BY DEF ObsNext, Stages

LEMMA SrvInv == ASSUME IndInv, NEW m, Srv(m) PROVE IndInv'
  <1> DEFINE l == Letter(m)
  <1> USE DEF IndInv, States, Stages, StageOf, ObsNext, ObsInit, Advance, Expected, Quiet
  <1>1. CASE act = "WaitDemandActive" /\ l = "DA" /\ act' = "WaitSync" /\ obs' = ObsNext(obs, l)
        BY <1>1
  <1>2. CASE Advance("WaitSync", l, "SYNC", "WaitCoop") /\ obs' = ObsNext(obs, l)
        BY <1>2
  <1>3. CASE Advance("WaitCoop", l, "COOP", "WaitGranted") /\ obs' = ObsNext(obs, l)
        BY <1>3
  <1>4. CASE Advance("WaitGranted", l, "GRANTED", "WaitFontMap") /\ obs' = ObsNext(obs, l)
        BY <1>4
  <1>5. CASE Advance("WaitFontMap", l, "FONTMAP", "Active") /\ obs' = ObsNext(obs, l)
        BY <1>5
  <1>6. CASE Advance("Active", l, "DEACT", "WaitDemandActive") /\ obs' = ObsNext(obs, l)
        BY <1>6
  <1>7. CASE act = "Active" /\ l = "FPBMP" /\ UNCHANGED <<act, shareId>> /\ obs' = ObsNext(obs, l)
        BY <1>7
  <1>8. CASE act = "Active" /\ l = "FPOTHER" /\ UNCHANGED <<act, shareId>> /\ obs' = ObsNext(obs, l)
        BY <1>8
  <1>8a. CASE act = "Active" /\ l = "SPBMP" /\ UNCHANGED <<act, shareId>> /\ obs' = ObsNext(obs, l)
        BY <1>8a
  <1>9. CASE act # "Active" /\ l = "DEACT" /\ (UNCHANGED <<act, obs>> \/ (act' = "WaitDemandActive" /\ obs' = ObsInit))
        BY <1>9
  <1>10. CASE ~Expected(act, l) /\ l # "DEACT" /\ UNCHANGED <<act, shareId>> /\ obs' = ObsNext(obs, l)
        BY <1>10
  <1> QED BY <1>1, <1>2, <1>3, <1>4, <1>5, <1>6, <1>7, <1>8, <1>8a, <1>9, <1>10 DEF Srv

LEMMA TrainInv == ASSUME IndInv, NEW ms, SrvTrain(ms) PROVE IndInv'
  BY DEF SrvTrain, IndInv, States, Stages, StageOf, Quiet

LEMMA StepInv == IndInv /\ [Next]_vars => IndInv'
  <1> SUFFICES ASSUME IndInv, [Next]_vars PROVE IndInv' OBVIOUS
  <1>1. CASE \E m \in ModelMsgs : Srv(m) BY <1>1, SrvInv
  <1>1a. CASE \E ms \in ModelTrains : SrvTrain(ms) BY <1>1a, TrainInv
  <1>2. CASE \E e \in ModelInputs, len \in BOOLEAN : Input(e, len)
        BY <1>2 DEF Input, IndInv, States, Stages, StageOf
  <1>3. CASE Shutdown BY <1>3 DEF Shutdown, IndInv, States, Stages, StageOf
  <1>4. CASE UNCHANGED vars BY <1>4 DEF vars, IndInv, States, Stages, StageOf
  <1> QED BY <1>1, <1>1a, <1>2, <1>3, <1>4 DEF Next

THEOREM Safety == Spec => []IndInv
  BY InitInv, StepInv, PTL DEF Spec

THEOREM WindowAgreementHolds == Spec => [](WindowAgreement /\ AdvanceOnlyOnExpected)
  <1>1. IndInv => WindowAgreement /\ AdvanceOnlyOnExpected
        BY DEF IndInv, WindowAgreement, AdvanceOnlyOnExpected, States, Stages, StageOf
  <1> QED BY <1>1, Safety, PTL

(***************************************************************************)
(* Second layer: the gates themselves (what the last step delivered or     *)
(* accepted), on top of IndInv.                                            *)
(***************************************************************************)
InputGatedCore == /\ inres = "sent" => obs.open
                  /\ inres \in {"refused", "dropped"} => out = <<>>
Gates == IndInv /\ BitmapsInWindow /\ InputGatedCore

LEMMA GatesInit == Init => Gates
  BY InitInv DEF Init, Gates, BitmapsInWindow, InputGatedCore

LEMMA GatesSrv == ASSUME Gates, NEW m, Srv(m) PROVE Gates'
  <1>1. IndInv' BY SrvInv DEF Gates
  <1>2. inres' = "none" BY DEF Srv
  <1>3. InputGatedCore' BY <1>2 DEF InputGatedCore
  <1>4. BitmapsInWindow'
    <2> DEFINE l == Letter(m)
    <2> USE DEF Gates, IndInv, States, Stages, StageOf, ObsNext, ObsInit, Advance, Expected, Quiet, BitmapsInWindow
    <2>1. CASE cbs' = <<>> BY <2>1
    <2>2. CASE act = "Active" /\ l = "FPBMP" /\ UNCHANGED <<act, shareId>> /\ obs' = ObsNext(obs, l)
          BY <2>2
    <2>3. CASE act = "Active" /\ l = "SPBMP" /\ UNCHANGED <<act, shareId>> /\ obs' = ObsNext(obs, l)
          BY <2>3
    <2> QED BY <2>1, <2>2, <2>3 DEF Srv
  <1> QED BY <1>1, <1>3, <1>4 DEF Gates

LEMMA GatesStep == Gates /\ [Next]_vars => Gates'
  <1> SUFFICES ASSUME Gates, [Next]_vars PROVE Gates' OBVIOUS
  <1>0. IndInv' BY StepInv DEF Gates
  <1>1. CASE \E m \in ModelMsgs : Srv(m) BY <1>1, GatesSrv
  <1>1a. CASE \E ms \in ModelTrains : SrvTrain(ms)
        BY <1>0, <1>1a DEF SrvTrain, Quiet, Gates, IndInv, States, Stages, StageOf, BitmapsInWindow, InputGatedCore
  <1>2. CASE \E e \in ModelInputs, len \in BOOLEAN : Input(e, len)
        BY <1>0, <1>2 DEF Input, Gates, IndInv, States, Stages, StageOf, BitmapsInWindow, InputGatedCore
  <1>3. CASE Shutdown BY <1>0, <1>3 DEF Shutdown, Gates, IndInv, BitmapsInWindow, InputGatedCore
  <1>4. CASE UNCHANGED vars BY <1>0, <1>4 DEF vars, Gates, IndInv, BitmapsInWindow, InputGatedCore
  <1> QED BY <1>1, <1>1a, <1>2, <1>3, <1>4 DEF Next

THEOREM GatesHold == Spec => []Gates
  BY GatesInit, GatesStep, PTL DEF Spec
=============================================================================
