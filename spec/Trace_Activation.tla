------------------------- MODULE Trace_Activation -------------------------
(* Trace validation of recorded RdpClient executions against Activation.    *)
(* One trace action per recorded event: IsEvent /\ spec action /\ bindings   *)
(* of every logged field (TraceAct.tla).                                     *)
EXTENDS TraceAct

tvars == <<vars, l>>

TInit == /\ l = 1 /\ act = "WaitDemandActive" /\ shareId = <<>> /\ userId = 0
         /\ out = <<>> /\ cbs = <<>> /\ inres = "none" /\ obs = ObsInit

\* a new run: a freshly connected client
TReset == /\ IsEvent("reset")
          /\ Rec[l].connect = "ok"
          /\ act' = "WaitDemandActive" /\ Rec[l].state = act'
          /\ shareId' = <<>> /\ userId' = Rec[l].uid
          /\ out' = <<>> /\ cbs' = <<>> /\ inres' = "none" /\ obs' = ObsInit

TNext == TReset \/ TSrv \/ THostile \/ TInput \/ TShutdown
TSpec == TInit /\ [][TNext]_tvars
=============================================================================
