------------------------- MODULE Gen_TransportRead -------------------------
(* Writes the model's streams (all concatenations of up to 3 frames of the   *)
(* model frame set, plus truncated ones) for replay under many schedules.    *)
EXTENDS MC_TransportRead, Json, IOUtils, SequencesExt
ASSUME ndJsonSerialize(IOEnv.STREAMS, [i \in 1..Cardinality(MCStreams) |-> [stream |-> SetToSeq(MCStreams)[i]]])
One == {<<>>}
=============================================================================
