------------------------------ MODULE Gen_Faults ------------------------------
(* Fault plans: for every region of every reference server message (lengths    *)
(* dumped by the harness from its own encoders) every single fault of          *)
(* Faults!Descs.  Output: one record per (region, fault).                      *)
EXTENDS Faults, Json, IOUtils, SequencesExt

CONSTANT Full       \* TRUE: every value of every byte
Regions == ndJsonDeserialize(IOEnv.REGIONS)      \* records [kind, layer, len, ...]
PlansOf(r) == LET ds == SetToSeq(Descs(r.len, Full)) IN [k \in 1..Len(ds) |-> [region |-> r.id, fault |-> ds[k]]]
ASSUME ndJsonSerialize(IOEnv.FAULTPLANS, Concat([i \in 1..Len(Regions) |-> PlansOf(Regions[i])]))
\* Apply is consistent with its descriptors (spot check)
ASSUME Apply(<<1, 2, 3, 4>>, [op |-> "set16be", off |-> 1, v |-> 258]) = <<1, 1, 2, 4>>
ASSUME Apply(<<1, 2, 3, 4>>, [op |-> "trunc", at |-> 2]) = <<1, 2>>
ASSUME Apply(<<1, 2, 3, 4>>, [op |-> "add8", off |-> 0, d |-> -2]) = <<255, 2, 3, 4>>
VARIABLE x
Init == x = 0
Next == UNCHANGED x
=============================================================================
