-------------------------------- MODULE Rle16 --------------------------------
(* Interleaved RLE bitmap decompression at 16 bpp (MS-RDPBCGR                 *)
(* 2.2.9.1.1.3.1.2.4) as a transition system over                             *)
(*   [i (next source byte), out (pixels in stream order), fg, ins, first]     *)
(* with one step per compression order.  The stream order is bottom-up: the   *)
(* first scanline decoded is the bottom row of the image.                     *)
(*                                                                            *)
(* Conformance class (stated, see DESIGN C09): an order never straddles the   *)
(* end of the first scanline (the published pseudo-code decides "first line"  *)
(* per order, deployed decoders per pixel; real encoders split there and the  *)
(* two semantics coincide on this class).  Streams outside the class, runs    *)
(* past the end of the image, truncated streams and undefined order codes     *)
(* are classified Bad: for them only totality (C08) is required.              *)
EXTENDS Bytes, Bitwise

WHITE == 65535
BLACK == 0

Px(b, i) == b[i] + 256 * b[i + 1]          \* 16 bpp pixel, little endian

\* order header -> [ok, code, form, run (0 = read from the stream), hl (header length incl. run bytes)]
\* code: "bg" "fg" "fgbg" "color" "image" "setfg" "setfgbg" "dither" "special1" "special2" "white" "black"
Hdr(b, i) ==
  LET h == b[i]  n == Len(b) IN
  IF h >= 240 THEN        \* 0xF0..0xFF: mega-mega and single-byte special orders
    LET mm(code) == IF i + 2 > n THEN Bad("truncated run length") ELSE [ok |-> TRUE, code |-> code, run |-> b[i+1] + 256 * b[i+2], hl |-> 3, scaled |-> FALSE] IN
    CASE h = 240 -> mm("bg") [] h = 241 -> mm("fg") [] h = 242 -> mm("fgbg") [] h = 243 -> mm("color") [] h = 244 -> mm("image")
      [] h = 246 -> mm("setfg") [] h = 247 -> mm("setfgbg") [] h = 248 -> mm("dither")
      [] h = 249 -> [ok |-> TRUE, code |-> "special1", run |-> 8, hl |-> 1, scaled |-> FALSE]
      [] h = 250 -> [ok |-> TRUE, code |-> "special2", run |-> 8, hl |-> 1, scaled |-> FALSE]
      [] h = 253 -> [ok |-> TRUE, code |-> "white", run |-> 1, hl |-> 1, scaled |-> FALSE]
      [] h = 254 -> [ok |-> TRUE, code |-> "black", run |-> 1, hl |-> 1, scaled |-> FALSE]
      [] OTHER -> Bad("undefined order code")
  ELSE IF h >= 192 THEN   \* 0xC0..0xEF: lite orders, 4-bit run length
    LET code == CASE h \div 16 = 12 -> "setfg" [] h \div 16 = 13 -> "setfgbg" [] OTHER -> "dither"
        r == h % 16 IN
    IF r # 0 THEN [ok |-> TRUE, code |-> code, run |-> (IF code = "setfgbg" THEN 8 * r ELSE r), hl |-> 1, scaled |-> TRUE]
    ELSE IF i + 1 > n THEN Bad("truncated run length")
    ELSE [ok |-> TRUE, code |-> code, run |-> (IF code = "setfgbg" THEN b[i+1] + 1 ELSE b[i+1] + 16), hl |-> 2, scaled |-> FALSE]
  ELSE                    \* regular orders, 5-bit run length
    LET c == h \div 32  r == h % 32 IN
    IF c > 4 THEN Bad("undefined order code")
    ELSE LET code == <<"bg", "fg", "fgbg", "color", "image">>[c + 1] IN
    IF r # 0 THEN [ok |-> TRUE, code |-> code, run |-> (IF code = "fgbg" THEN 8 * r ELSE r), hl |-> 1, scaled |-> TRUE]
    ELSE IF i + 1 > n THEN Bad("truncated run length")
    ELSE [ok |-> TRUE, code |-> code, run |-> (IF code = "fgbg" THEN b[i+1] + 1 ELSE b[i+1] + 32), hl |-> 2, scaled |-> FALSE]

\* k pixels produced by a function of the position
Run(out, k, f(_)) == out \o [j \in 1..k |-> f(Len(out) + j - 1)]

\* a pixel of the scanline above the next output position
Above(out, w) == out[Len(out) + 1 - w]

\* later scanlines read pixels that the same run may have produced: pixel by pixel
RECURSIVE BgLong(_, _, _)
BgLong(out, k, w) == IF k = 0 THEN out ELSE BgLong(Append(out, Above(out, w)), k - 1, w)
RECURSIVE XorLong(_, _, _, _)
XorLong(out, k, w, fg) == IF k = 0 THEN out ELSE XorLong(Append(out, Above(out, w) ^^ fg), k - 1, w, fg)

\* `n' pixels selected by the bits of `mask' (LSB first), starting with bit `bit0'
RECURSIVE MaskBits(_, _, _, _, _, _, _)
MaskBits(out, mask, bit0, n, fg, first, w) ==
  IF n = 0 THEN out
  ELSE LET bit == (mask \div (2 ^ bit0)) % 2 = 1
           px == IF first THEN (IF bit THEN fg ELSE BLACK) ELSE (IF bit THEN Above(out, w) ^^ fg ELSE Above(out, w)) IN
       MaskBits(Append(out, px), mask, bit0 + 1, n - 1, fg, first, w)

\* FG/BG image: one mask byte per 8 pixels
RECURSIVE FgBg(_, _, _, _, _, _, _)
FgBg(out, b, i, k, fg, first, w) ==
  IF k = 0 THEN [ok |-> TRUE, out |-> out, next |-> i]
  ELSE IF i > Len(b) THEN Bad("truncated bitmask")
  ELSE LET n == IF k > 8 THEN 8 ELSE k IN
       FgBg(MaskBits(out, b[i], 0, n, fg, first, w), b, i + 1, k - n, fg, first, w)

Special(out, mask, fg, first, w) == MaskBits(out, mask, 0, 8, fg, first, w)

\* one order.  s = [i, out, fg, ins, first]
Step(b, s, w, h) ==
  LET first == s.first /\ Len(s.out) < w
      ins0 == IF s.first /\ ~first THEN FALSE ELSE s.ins       \* the insert flag is dropped when the first scanline ends
      hd == Hdr(b, s.i) IN
  IF ~hd.ok THEN hd
  ELSE LET room == w * h - Len(s.out)
           px == IF hd.code = "dither" THEN 2 * hd.run ELSE hd.run
           j == s.i + hd.hl IN
  IF hd.run = 0 THEN Bad("zero run length")
  ELSE IF px > room THEN Bad("run past the end of the image")
  ELSE IF first /\ Len(s.out) + px > w THEN Bad("order straddles the end of the first scanline (outside the conformance class)")
  ELSE IF ~first /\ w = 0 THEN Bad("zero width")
  ELSE
  IF hd.code = "bg" THEN
     LET o1 == IF ins0 THEN Append(s.out, IF first THEN s.fg ELSE Above(s.out, w) ^^ s.fg) ELSE s.out
         rest == IF ins0 THEN px - 1 ELSE px IN
     [ok |-> TRUE, i |-> j, out |-> (IF first THEN Run(o1, rest, LAMBDA p : BLACK) ELSE BgLong(o1, rest, w)), fg |-> s.fg, ins |-> TRUE, first |-> first]
  ELSE IF hd.code \in {"fg", "setfg"} THEN
     IF hd.code = "setfg" /\ j + 1 > Len(b) THEN Bad("truncated pixel")
     ELSE LET fg == IF hd.code = "setfg" THEN Px(b, j) ELSE s.fg
              k == IF hd.code = "setfg" THEN j + 2 ELSE j IN
          [ok |-> TRUE, i |-> k, out |-> (IF first THEN Run(s.out, px, LAMBDA p : fg) ELSE XorLong(s.out, px, w, fg)), fg |-> fg, ins |-> FALSE, first |-> first]
  ELSE IF hd.code \in {"fgbg", "setfgbg"} THEN
     IF hd.code = "setfgbg" /\ j + 1 > Len(b) THEN Bad("truncated pixel")
     ELSE LET fg == IF hd.code = "setfgbg" THEN Px(b, j) ELSE s.fg
              k == IF hd.code = "setfgbg" THEN j + 2 ELSE j
              r == FgBg(s.out, b, k, px, fg, first, w) IN
          IF ~r.ok THEN r ELSE [ok |-> TRUE, i |-> r.next, out |-> r.out, fg |-> fg, ins |-> FALSE, first |-> first]
  ELSE IF hd.code = "color" THEN
     IF j + 1 > Len(b) THEN Bad("truncated pixel")
     ELSE [ok |-> TRUE, i |-> j + 2, out |-> Run(s.out, px, LAMBDA p : Px(b, j)), fg |-> s.fg, ins |-> FALSE, first |-> first]
  ELSE IF hd.code = "dither" THEN
     IF j + 3 > Len(b) THEN Bad("truncated pixel")
     ELSE [ok |-> TRUE, i |-> j + 4, out |-> Run(s.out, px, LAMBDA p : IF (p - Len(s.out)) % 2 = 0 THEN Px(b, j) ELSE Px(b, j + 2)), fg |-> s.fg, ins |-> FALSE, first |-> first]
  ELSE IF hd.code = "image" THEN
     IF j + 2 * px - 1 > Len(b) THEN Bad("truncated pixels")
     ELSE [ok |-> TRUE, i |-> j + 2 * px, out |-> s.out \o [q \in 1..px |-> Px(b, j + 2 * (q - 1))], fg |-> s.fg, ins |-> FALSE, first |-> first]
  ELSE IF hd.code = "special1" THEN [ok |-> TRUE, i |-> j, out |-> Special(s.out, 3, s.fg, first, w), fg |-> s.fg, ins |-> FALSE, first |-> first]
  ELSE IF hd.code = "special2" THEN [ok |-> TRUE, i |-> j, out |-> Special(s.out, 5, s.fg, first, w), fg |-> s.fg, ins |-> FALSE, first |-> first]
  ELSE IF hd.code = "white" THEN [ok |-> TRUE, i |-> j, out |-> Append(s.out, WHITE), fg |-> s.fg, ins |-> FALSE, first |-> first]
  ELSE [ok |-> TRUE, i |-> j, out |-> Append(s.out, BLACK), fg |-> s.fg, ins |-> FALSE, first |-> first]

RECURSIVE Loop(_, _, _, _)
Loop(b, s, w, h) ==
  IF s.i > Len(b) THEN (IF Len(s.out) = w * h THEN [ok |-> TRUE, stream |-> s.out] ELSE Bad("stream ends before the image is complete"))
  ELSE LET t == Step(b, s, w, h) IN IF ~t.ok THEN t ELSE Loop(b, t, w, h)

\* [ok, stream (w*h pixels bottom-up)] | Bad
Decode16(b, w, h) == Loop(b, [i |-> 1, out |-> <<>>, fg |-> WHITE, ins |-> FALSE, first |-> TRUE], w, h)

\* bottom-up stream -> top-down rows
TopDown(stream, w, h) == [k \in 1..(w * h) |-> stream[(h - 1 - ((k - 1) \div w)) * w + ((k - 1) % w) + 1]]
=============================================================================
