SPECIFICATION GSpec
CONSTANTS
  ShareIds <- GShareIds
  UserIds <- GUserIds
  Coords <- GCoords
  RectSeqs <- GRectSeqs
  Depth = 1
  MaxUpd = 3
INVARIANTS Emit ExactlyOnceInOrder BitmapsInWindow
CHECK_DEADLOCK FALSE
