------------------------------ MODULE TraceLib ------------------------------
(* Shared plumbing of the trace specifications (pass B): the recorded events *)
(* and the decoded blob table, both read from files named in the             *)
(* environment, the event cursor and the acceptance test.                    *)
EXTENDS Naturals, Sequences, TLC, TLCExt, Json, IOUtils

Rec == ndJsonDeserialize(IOEnv.TRACE)
Dec == ndJsonDeserialize(IOEnv.DECODED)

\* acceptance: one state per consumed event plus the initial state
Accepted ==
  LET d == TLCGet("stats").diameter IN
  IF d - 1 = Len(Rec) THEN TRUE
  ELSE /\ PrintT(<<"TV_REJECT", d>>)
       /\ FALSE

Has(r, f) == f \in DOMAIN r
=============================================================================
