------------------------------ MODULE Gen_Planar ------------------------------
(* Exhaustive enumeration of conformant RDP 6.0 planar encodings (format      *)
(* header 0x10) of tiny images: every segmentation of every scanline of the   *)
(* four planes into (cRaw raw values, nRun repeats) segments, with raw values *)
(* (absolute on the first scanline, coded deltas above it) from a small set.  *)
EXTENDS Codec, Json, TLC

CONSTANTS W, H, Vals

VARIABLES bytes, plane, row, col, done
gvars == <<bytes, plane, row, col, done>>

RECURSIVE ValSeqs(_)
ValSeqs(n) == IF n = 0 THEN {<<>>} ELSE { <<v>> \o t : v \in Vals, t \in ValSeqs(n - 1) }

\* segments that fit in `room' remaining positions of the scanline
Segments(room) ==
       UNION { { <<16 * cr + nr>> \o v : v \in ValSeqs(cr) } : cr \in 0..(IF room < 15 THEN room ELSE 15), nr \in {0} \cup 3..15 }
  \cup { <<16 * (n - 16) + 1>> : n \in 16..31 } \cup { <<16 * (n - 32) + 2>> : n \in 32..47 }
SegLen(s) == LET n0 == s[1] % 16  r0 == s[1] \div 16 IN
             IF n0 = 1 THEN r0 + 16 ELSE IF n0 = 2 THEN r0 + 32 ELSE n0 + r0

GInit == bytes = <<16>> /\ plane = 1 /\ row = 1 /\ col = 0 /\ done = (W = 0 \/ H = 0)
GNext == /\ ~done
         /\ \E s \in Segments(W - col) :
              /\ SegLen(s) >= 1 /\ col + SegLen(s) <= W
              /\ bytes' = bytes \o s
              /\ IF col + SegLen(s) < W THEN col' = col + SegLen(s) /\ UNCHANGED <<plane, row>> /\ done' = FALSE
                 ELSE /\ col' = 0
                      /\ IF row < H THEN row' = row + 1 /\ UNCHANGED plane /\ done' = FALSE
                         ELSE row' = 1 /\ plane' = plane + 1 /\ done' = (plane = 4)
GSpec == GInit /\ [][GNext]_gvars

Expected == Decompress(W, H, 32, TRUE, bytes)
Emit == done => PrintT("PLAN " \o ToJson([w |-> W, h |-> H, bpp |-> 32, comp |-> TRUE, data |-> bytes, expect |-> Expected.bytes]))
Conformant == done => Expected.ok
=============================================================================
