SPECIFICATION RSpec
CONSTANTS
  Streams <- MCStreams
  MaxFrame = 65535
  ZeroLenBody = "read_available"
INVARIANTS ExactFrames NoOverConsumption
CHECK_DEADLOCK FALSE
