----------------------- MODULE Trace_TransportWrite -----------------------
(* Trace validation of Link::write / tpkt::Client::write / x224::Client::write  *)
(* against TransportWrite.  One recorded API call = Serialise, then one        *)
(* StreamAccept per write call the adversarial stream saw, then the result.    *)
(* The three are composed in a single trace action because the harness logs    *)
(* the call on return; the module's invariants are evaluated on the result.    *)
EXTENDS TransportWrite, TraceLib

VARIABLE l, layer
tvars == <<wvars, l, layer>>
TEmpty == {}
IsEvent(e) == l <= Len(Rec) /\ Rec[l].ev = e /\ l' = l + 1

TInit == /\ l = 1 /\ layer = "tpkt" /\ wphase = "idle" /\ frame = <<>> /\ off = 0 /\ outbuf = <<>>
         /\ wres = "none" /\ before = <<>> /\ zero = FALSE

TReset == /\ IsEvent("reset")
          /\ layer' = Rec[l].layer /\ wphase' = "idle" /\ frame' = <<>> /\ off' = 0 /\ outbuf' = <<>>
          /\ wres' = "none" /\ before' = <<>> /\ zero' = FALSE

TWrite ==
  /\ IsEvent("write")
  /\ LET e == Rec[l]
         p == e.payload
         acc == e.accepted IN
     /\ e.res \in {"ok", "err"}                        \* a panic is no behaviour of the writer
     /\ before' = outbuf /\ zero' = e.zero /\ layer' = layer
     /\ IF TooLarge(layer, Len(p))
        THEN /\ e.res = "err" /\ acc = <<>>            \* refused, nothing written
             /\ frame' = <<>> /\ off' = 0 /\ outbuf' = outbuf /\ wres' = "err" /\ wphase' = "done"
        ELSE \/ /\ wres = "err" /\ e.res = "err" /\ acc = <<>> /\ ~e.failed      \* after a failed write a writer may refuse to go on
                /\ frame' = <<>> /\ off' = 0 /\ outbuf' = outbuf /\ wres' = "err" /\ wphase' = "done"
             \/ /\ frame' = FrameOf(layer, p)
                /\ off' = Len(acc)
                /\ outbuf' = outbuf \o acc
                /\ wres' = e.res /\ wphase' = "done"
                \* the stream failed => the call reports an error (never swallowed)
                /\ e.failed => e.res = "err"
                \* an error is only allowed when the stream failed or answered Ok(0)
                /\ e.res = "err" => (e.failed \/ e.zero)
TNext == TReset \/ (wphase \in {"idle", "done"} /\ TWrite)
TSpec == TInit /\ [][TNext]_tvars
=============================================================================
