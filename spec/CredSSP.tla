------------------------------ MODULE CredSSP ------------------------------
(* The CredSSP exchange of cssp_connect as a transition system over SYMBOLIC *)
(* cryptographic terms, for exhaustive model checking of C01 (and the NLA    *)
(* part of C17).  Terms: Seal(k, dir, seq, m) is m sealed and signed under   *)
(* session key k in direction dir with sequence number seq; PubKey(c) the    *)
(* SubjectPublicKey of certificate c; Inc(x, n) the number x + n.  The       *)
(* server / attacker chooses the last reply from an explicit catalogue.      *)
(* The concrete counterpart (real bytes, real primitives) is Ntlm.tla, used  *)
(* by Trace_Rdp.tla.                                                         *)
EXTENDS Naturals, Sequences, TLC

CONSTANTS Certs,        \* certificates the TLS layer may have presented
          Keys,         \* session keys; the client's is "kc"
          Modes         \* credential modes: records [admin, blank, hash]

VARIABLES round,        \* 0..4 progress of the client
          seenCert,     \* certificate the client's TLS layer saw
          mode,
          wire,         \* client messages in order (abstract terms)
          reply,        \* the server's last-round reply (a term), or NoReply
          proved,       \* ghost: the reply satisfies the cryptographic definition of a proof
          result        \* "pending" | "ok" | "failed"

cvars == <<round, seenCert, mode, wire, reply, proved, result>>

Seal(k, dir, seq, m) == [t |-> "seal", k |-> k, dir |-> dir, seq |-> seq, m |-> m]
PubKey(c) == [t |-> "pubkey", c |-> c]
Inc(x, n) == [t |-> "inc", x |-> x, n |-> n]
Garbage(g) == [t |-> "garbage", g |-> g]
NoReply == [t |-> "none"]

\* what unsealing by the client (key kc, direction s2c, first server message) yields
Unseal(r) == IF r.t = "seal" /\ r.k = "kc" /\ r.dir = "s2c" /\ r.seq = 0 THEN [ok |-> TRUE, m |-> r.m] ELSE [ok |-> FALSE]
\* the cryptographic definition of "the server proved the session key and the certificate"
IsProof(r, c) == LET u == Unseal(r) IN u.ok /\ u.m = Inc(PubKey(c), 1)

Catalogue(c) ==
       { Seal("kc", "s2c", 0, Inc(PubKey(c), 1)) }                                  \* honest
  \cup { Seal("kc", "s2c", 0, Inc(PubKey(c), n)) : n \in {0, 2, 3, 256} }           \* wrong numeric offset
  \cup { Seal("kc", "s2c", 0, Inc(PubKey(o), 1)) : o \in Certs \ {c} }              \* bound to another certificate (relay)
  \cup { Seal(k, "s2c", 0, Inc(PubKey(c), 1)) : k \in Keys \ {"kc"} }               \* a key the server cannot know
  \cup { Seal("kc", "c2s", 0, PubKey(c)) }                                          \* reflection of the client's own token
  \cup { Seal("kc", "c2s", 0, Inc(PubKey(c), 1)), Seal("kc", "s2c", 1, Inc(PubKey(c), 1)) }   \* wrong direction / cipher position
  \cup { Garbage("bad checksum"), Garbage("truncated"), Garbage("extended"), Garbage("malformed DER"), Garbage("empty"), Inc(PubKey(c), 1) }

Creds(m) == IF m.admin \/ m.blank THEN "empty" ELSE IF m.hash THEN "names-only" ELSE "names+password"

Init == /\ round = 0 /\ seenCert \in Certs /\ mode \in Modes /\ wire = <<>> /\ reply = NoReply /\ proved = FALSE /\ result = "pending"

SendNegotiate == /\ round = 0 /\ wire' = Append(wire, [kind |-> "Negotiate"]) /\ round' = 1
                 /\ UNCHANGED <<seenCert, mode, reply, proved, result>>
RecvChallenge == /\ round = 1 /\ round' = 2 /\ UNCHANGED <<seenCert, mode, wire, reply, proved, result>>
SendAuthenticate == /\ round = 2
                    /\ wire' = Append(wire, [kind |-> "Authenticate", pubKeyAuth |-> Seal("kc", "c2s", 0, PubKey(seenCert))])
                    /\ round' = 3 /\ UNCHANGED <<seenCert, mode, reply, proved, result>>
\* the server's reply arrives; the client's own test is the numeric comparison after a successful unseal
RecvPubKeyAuth(r) == /\ round = 3 /\ reply' = r /\ proved' = IsProof(r, seenCert)
                     /\ LET u == Unseal(r) IN
                        IF u.ok /\ u.m = Inc(PubKey(seenCert), 1) THEN round' = 4 /\ UNCHANGED result
                        ELSE round' = 3 /\ result' = "failed"
                     /\ UNCHANGED <<seenCert, mode, wire>>
SendCredentials == /\ round = 4 /\ result = "pending"
                   /\ wire' = Append(wire, [kind |-> "Credentials", sealed |-> Seal("kc", "c2s", 1, Creds(mode))])
                   /\ result' = "ok" /\ UNCHANGED <<round, seenCert, mode, reply, proved>>

Next == SendNegotiate \/ RecvChallenge \/ SendAuthenticate \/ (\E r \in Catalogue(seenCert) : reply = NoReply /\ RecvPubKeyAuth(r)) \/ SendCredentials
Spec == Init /\ [][Next]_cvars

CredentialsOnWire == \E k \in 1..Len(wire) : wire[k].kind = "Credentials"
\* C01: credentials leave the client only after the server proved the key
CredsOnlyAfterProof == CredentialsOnWire => proved
\* ... and for any other reply the attempt fails and nothing further is written
SilentAfterFail == [][result = "failed" => wire' = wire]_cvars
FailsUnlessProved == (reply # NoReply /\ ~proved) => result = "failed"
\* order: negotiate, authenticate(+pubKeyAuth), credentials, each after the reply it depends on
OrderOK == /\ Len(wire) <= 3
           /\ Len(wire) >= 1 => wire[1].kind = "Negotiate"
           /\ Len(wire) >= 2 => wire[2].kind = "Authenticate" /\ round >= 3
           /\ Len(wire) >= 3 => wire[3].kind = "Credentials" /\ reply # NoReply
\* C17: restricted admin / blank credentials put no names or password in the sealed structure
ModeTable == \A k \in 1..Len(wire) : wire[k].kind = "Credentials" =>
                 (wire[k].sealed.m = "empty") = (mode.admin \/ mode.blank)
=============================================================================
