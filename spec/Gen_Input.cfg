SPECIFICATION GSpec
CONSTANTS
  ShareIds <- GShareIds
  UserIds <- GUserIds
  Coords <- GCoords
  RectSeqs <- GRectSeqs
  Depth = 3
INVARIANTS Emit InputGated WindowAgreement
CHECK_DEADLOCK FALSE
