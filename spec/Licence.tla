------------------------------- MODULE Licence -------------------------------
(* The licensing step of the connection sequence (sec::connect second half,   *)
(* license::client_connect) as a decision table over the server's licensing   *)
(* PDU: security header flags, preamble (bMsgType, flags, wMsgSize) and, for  *)
(* an error alert, dwErrorCode / dwStateTransition (MS-RDPBCGR 2.2.1.12).     *)
(*                                                                            *)
(* The client implements no licence negotiation: the only servers it can      *)
(* finish connecting to are those that end licensing at once.                 *)
(*   Required(..) - what C03 demands: the PDUs by which a conforming server   *)
(*                  says "licensing finished, go on" MUST let connect succeed.*)
(*   AsBuilt(..)  - what the implementation does with every other PDU (named  *)
(*                  deviation from a full client: everything else is refused).*)
EXTENDS Bytes

SEC_LICENSE_PKT     == 128
LICENSE_REQUEST     == 1
PLATFORM_CHALLENGE  == 2
NEW_LICENSE         == 3
UPGRADE_LICENSE     == 4
ERROR_ALERT         == 255
STATUS_VALID_CLIENT == 7
ST_NO_TRANSITION    == 2
KnownErrorCodes  == {1, 2, 3, 4, 6, 7, 8, 11, 12}
KnownTransitions == {1, 2, 3, 4}

LE32(n) == <<n % 256, (n \div 256) % 256, (n \div 65536) % 256, 0>>      \* n < 2^24

\* wire form: security header, preamble, body
\* the error alert ends with a licensing binary blob; when its length is 0 its type field is to be ignored
\* (MS-RDPBCGR 2.2.1.12.1.2): deployed servers send BB_ERROR_BLOB (4), BB_ANY_BLOB (0) or whatever was in the buffer
ErrorAlertBodyT(code, tr, bt) == LE32(code) \o LE32(tr) \o EncU16LE(bt) \o EncU16LE(0)
ErrorAlertBody(code, tr) == ErrorAlertBodyT(code, tr, 4)
OtherBody(n) == [i \in 1..n |-> (i * 7) % 256]
UserData(sec, mt, pf, body) == EncU16LE(sec) \o <<0, 0>> \o <<mt, pf>> \o EncU16LE(4 + Len(body)) \o body

IsLicencePkt(sec) == HasBit(sec % 256, SEC_LICENSE_PKT)
\* preamble flags: low nibble = version 2 (RDP 4.0) or 3 (RDP 5.0+); 0x80 = EXTENDED_ERROR_MSG_SUPPORTED; the rest undefined
VersionOk(pf) == (pf % 16) \in {2, 3}
DefinedFlags(pf) == pf \in {2, 3, 130, 131}

Finished(mt, code, tr) == mt = NEW_LICENSE \/ (mt = ERROR_ALERT /\ code = STATUS_VALID_CLIENT /\ tr = ST_NO_TRANSITION)

\* C03: "ok" is mandatory for these, everything else is outside what the property fixes ("free")
\* (SEC_ENCRYPT 0x0008 cannot be set under TLS security; other header flags such as SEC_LICENSE_ENCRYPT_CS 0x0200,
\* which deployed servers do set, are harmless)
Required(sec, mt, pf, code, tr) ==
  IF IsLicencePkt(sec) /\ ~HasBit(sec % 256, 8) /\ DefinedFlags(pf) /\ Finished(mt, code, tr) THEN "ok" ELSE "free"

\* the implementation: refuses whatever is not one of the two "finished" PDUs
AsBuilt(sec, mt, pf, code, tr) ==
  IF ~IsLicencePkt(sec) THEN "err"
  ELSE IF ~VersionOk(pf) THEN "err"
  ELSE IF mt = NEW_LICENSE THEN "ok"
  ELSE IF mt = ERROR_ALERT THEN
       (IF code \notin KnownErrorCodes \/ tr \notin KnownTransitions THEN "err"
        ELSE IF code = STATUS_VALID_CLIENT /\ tr = ST_NO_TRANSITION THEN "ok" ELSE "err")
  ELSE "err"

\* sanity of the table itself (checked by TLC when Gen_Licence starts)
ASSUME \A sec \in {0, 128, 136}, mt \in {1, 3, 255}, pf \in {2, 3, 131, 0}, code \in {7, 2}, tr \in {2, 1} :
          Required(sec, mt, pf, code, tr) = "ok" => AsBuilt(sec, mt, pf, code, tr) = "ok"
=============================================================================
