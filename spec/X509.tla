-------------------------------- MODULE X509 --------------------------------
(* Extraction of the SubjectPublicKey from a DER X.509 certificate (RFC 5280  *)
(* 4.1): Certificate.tbsCertificate.subjectPublicKeyInfo.subjectPublicKey,   *)
(* the BIT STRING content without its unused-bits octet - the value CredSSP   *)
(* binds the session to.                                                      *)
EXTENDS Bytes
LOCAL W == INSTANCE WireClient

\* skip k TLVs starting at i; returns the position after them
RECURSIVE Skip(_, _, _)
Skip(b, i, k) == IF k = 0 THEN i ELSE LET h == W!Tlv(b, i) IN Skip(b, i + h.hl + h.len, k - 1)

SubjectPublicKey(cert) ==
  LET c == W!Tlv(cert, 1)                       \* Certificate
      t == W!Tlv(cert, 1 + c.hl)                \* tbsCertificate
      f == 1 + c.hl + t.hl                      \* first field of tbsCertificate
      g == IF cert[f] = 160 THEN Skip(cert, f, 1) ELSE f      \* optional [0] version
      spki == Skip(cert, g, 5)                  \* serial, signature, issuer, validity, subject
      s == W!Tlv(cert, spki)                    \* SubjectPublicKeyInfo
      alg == W!Tlv(cert, spki + s.hl)
      bits == W!Tlv(cert, spki + s.hl + alg.hl + alg.len) IN
  Sub(cert, spki + s.hl + alg.hl + alg.len + bits.hl + 1, bits.len - 1)
=============================================================================
