----------------------------- MODULE Activation -----------------------------
(* The capability-exchange / connection-finalisation automaton of the client *)
(* (global channel), its input gate and its bitmap delivery, shaped like     *)
(* global::Client::read / write_input_event / RdpClient::{write,try_write}:  *)
(* one disjunct per (state, server letter) code path, one action per public  *)
(* call.  Next to the implementation-shaped state `act` the module carries   *)
(* an independent observer `obs` that is updated ONLY from the server's      *)
(* letters and the text of property C12; the invariants relate the two.      *)
(*                                                                           *)
(* Decides C12; its Input action is the reference for C11, its FastPath      *)
(* disjunct the reference for C10, its client messages carry the identifiers *)
(* checked by C03 (IdsEcho).                                                 *)
EXTENDS Naturals, Sequences, TLC

CONSTANTS ShareIds,      \* share identifiers the model server may use
          UserIds,       \* user ids the model server may have assigned
          Coords,        \* coordinate / scancode values used by the model user
          RectSeqs       \* sequences of rectangles the model server may send

VARIABLES act,      \* implementation-shaped activation state
          shareId,  \* share id of the last answered demand-active
          userId,   \* MCS user id assigned at attach (constant during a run)
          out,      \* client messages emitted by the last step, in order
          cbs,      \* bitmap events delivered to the application by the last step
          inres,    \* outcome of the last input attempt: none | sent | refused | dropped
          obs       \* property observer: [stage, open]

vars == <<act, shareId, userId, out, cbs, inres, obs>>

IoChan == 1003

States == {"WaitDemandActive", "WaitSync", "WaitCoop", "WaitGranted", "WaitFontMap", "Active"}
Letters == {"DA", "SYNC", "COOP", "GRANTED", "CTLOTHER", "FONTMAP", "ERRINFO", "UNKDATA", "DEACT", "FPBMP", "FPOTHER",
            "ULT", "OFFCHAN", "UNKCTL", "SPBMP"}    \* SPBMP: a well-formed slow-path bitmap update; session level: disconnect-provider ultimatum; a PDU on another channel than the I/O channel

(***************************************************************************)
(* Abstract server messages (what WireServer!DecServer returns).           *)
(***************************************************************************)
HasBitmapUpdate(m) == \E k \in 1..Len(m.updates) : m.updates[k].t = "Bitmap"

\* a slow-path PDU addressed to another MCS channel than the I/O channel is not for the activation automaton,
\* whatever it contains (mcs::Client::read / RdpClient::read refuse it)
OffChannel(m) == "channel" \in DOMAIN m /\ m.channel # IoChan

Letter(m) ==
  CASE m.kind = "SrvUltimatum"  -> "ULT"
    [] m.kind # "SrvUltimatum" /\ OffChannel(m) -> "OFFCHAN"
    [] ~OffChannel(m) /\ m.kind = "UnknownControl" -> "UNKCTL"     \* a share control PDU of a type the client does not handle
    [] ~OffChannel(m) /\ m.kind = "DemandActive"  -> "DA"
    [] ~OffChannel(m) /\ m.kind = "Sync"          -> "SYNC"
    [] ~OffChannel(m) /\ m.kind = "Control"       -> (IF m.action = 4 THEN "COOP" ELSE IF m.action = 2 THEN "GRANTED" ELSE "CTLOTHER")
    [] ~OffChannel(m) /\ m.kind = "FontMap"       -> "FONTMAP"
    [] ~OffChannel(m) /\ m.kind = "ErrInfo"       -> "ERRINFO"
    [] ~OffChannel(m) /\ m.kind = "UnknownData"   -> "UNKDATA"
    [] ~OffChannel(m) /\ m.kind = "SlowBitmap"    -> "SPBMP"
    [] ~OffChannel(m) /\ m.kind = "DeactivateAll" -> "DEACT"
    [] ~OffChannel(m) /\ m.kind = "FastPath"      -> (IF HasBitmapUpdate(m) THEN "FPBMP" ELSE "FPOTHER")

(***************************************************************************)
(* Client messages, as projections of what WireClient!DecClient returns.   *)
(***************************************************************************)
Env(u) == [initiator |-> u, channel |-> IoChan, pduSource |-> u]
ConfirmActive(u, s) == Env(u) @@ [kind |-> "ConfirmActive", shareId |-> s]
Sync(u, s)          == Env(u) @@ [kind |-> "Sync", shareId |-> s]
Control(u, s, a)    == Env(u) @@ [kind |-> "Control", shareId |-> s, action |-> a]
FontList(u, s)      == Env(u) @@ [kind |-> "FontList", shareId |-> s]
InputPdu(u, s, evs) == Env(u) @@ [kind |-> "Input", shareId |-> s, events |-> evs]

Ultimatum           == [kind |-> "Ultimatum"]

\* the answer owed to a demand-active: confirm-active, then the finalisation in the mandated order
Finalise(u, s) == << ConfirmActive(u, s), Sync(u, s), Control(u, s, 4), Control(u, s, 1), FontList(u, s) >>

(***************************************************************************)
(* Input events (C11).  A submission is [t |-> "ptr", x, y, b, down],      *)
(* [t |-> "key", code, down] or [t |-> "bmp"] (a kind that cannot be sent). *)
(***************************************************************************)
PTRFLAGS_MOVE == 2048
PTRFLAGS_DOWN == 32768
ButtonFlag(b) == CASE b = 1 -> 4096 [] b = 2 -> 8192 [] b = 3 -> 16384 [] OTHER -> PTRFLAGS_MOVE
\* the property fixes "the flag combination that encodes the submitted button and press state": the button flag
\* (MOVE for a button-less event) and DOWN exactly when the event says pressed - also for a button-less event,
\* whose press state would otherwise be lost
PtrFlagChoices(e) ==
  IF e.b \in {1, 2, 3} THEN { ButtonFlag(e.b) + (IF e.down THEN PTRFLAGS_DOWN ELSE 0) }
  ELSE IF e.down THEN { PTRFLAGS_MOVE + PTRFLAGS_DOWN } ELSE { PTRFLAGS_MOVE }
KBDFLAGS_RELEASE == 32768

WireEvents(e) ==      \* set of admissible wire encodings (without eventTime) of a submission
  IF e.t = "ptr" THEN { [t |-> "mouse", flags |-> f, x |-> e.x, y |-> e.y] : f \in PtrFlagChoices(e) }
  ELSE IF e.t = "key" THEN { [t |-> "scancode", flags |-> (IF e.down THEN 0 ELSE KBDFLAGS_RELEASE), code |-> e.code] }
  ELSE {}

(***************************************************************************)
(* Property observer, from the text of C12 only.                           *)
(***************************************************************************)
ObsInit == [stage |-> "da", open |-> FALSE]
ObsNext(o, l) ==
  CASE o.stage = "da"      /\ l = "DA"      -> [stage |-> "sync",    open |-> FALSE]
    [] o.stage = "sync"    /\ l = "SYNC"    -> [stage |-> "coop",    open |-> FALSE]
    [] o.stage = "coop"    /\ l = "COOP"    -> [stage |-> "granted", open |-> FALSE]
    [] o.stage = "granted" /\ l = "GRANTED" -> [stage |-> "fontmap", open |-> FALSE]
    [] o.stage = "fontmap" /\ l = "FONTMAP" -> [stage |-> "data",    open |-> TRUE]
    [] o.stage = "data"    /\ l = "DEACT"   -> [stage |-> "da",      open |-> FALSE]
    [] OTHER -> o

(***************************************************************************)
(* Actions.                                                                *)
(***************************************************************************)
Init == /\ act = "WaitDemandActive" /\ shareId = <<>> /\ userId \in UserIds
        /\ out = <<>> /\ cbs = <<>> /\ inres = "none" /\ obs = ObsInit

Quiet == out' = <<>> /\ cbs' = <<>>

\* the expected PDU of a handshake state moves to the next state, silently
Advance(from, l, want, to) == act = from /\ l = want /\ act' = to /\ Quiet /\ UNCHANGED shareId

Expected(s, l) == \/ s = "WaitDemandActive" /\ l = "DA"
                  \/ s = "WaitSync"    /\ l = "SYNC"
                  \/ s = "WaitCoop"    /\ l = "COOP"
                  \/ s = "WaitGranted" /\ l = "GRANTED"
                  \/ s = "WaitFontMap" /\ l = "FONTMAP"
                  \/ s = "Active"      /\ l \in {"DEACT", "FPBMP", "FPOTHER", "SPBMP"}

\* one call of RdpClient::read that consumes the server message m
Srv(m) ==
  LET l == Letter(m) IN
  /\ inres' = "none" /\ UNCHANGED userId
  /\ \/ /\ act = "WaitDemandActive" /\ l = "DA"                      \* answer the demand-active
        /\ act' = "WaitSync" /\ shareId' = m.shareId
        /\ out' = Finalise(userId, m.shareId) /\ cbs' = <<>>
        /\ obs' = ObsNext(obs, l)
     \/ Advance("WaitSync", l, "SYNC", "WaitCoop")        /\ obs' = ObsNext(obs, l)
     \/ Advance("WaitCoop", l, "COOP", "WaitGranted")     /\ obs' = ObsNext(obs, l)
     \/ Advance("WaitGranted", l, "GRANTED", "WaitFontMap") /\ obs' = ObsNext(obs, l)
     \/ Advance("WaitFontMap", l, "FONTMAP", "Active")    /\ obs' = ObsNext(obs, l)
     \/ Advance("Active", l, "DEACT", "WaitDemandActive") /\ obs' = ObsNext(obs, l)
     \/ /\ act = "Active" /\ l = "FPBMP"                              \* deliver every rectangle once, in order
        /\ UNCHANGED <<act, shareId>> /\ out' = <<>> /\ cbs' = m.rects
        /\ obs' = ObsNext(obs, l)
     \/ /\ act = "Active" /\ l = "FPOTHER"
        /\ UNCHANGED <<act, shareId>> /\ Quiet /\ obs' = ObsNext(obs, l)
     \/ /\ act = "Active" /\ l = "SPBMP"       \* slow-path bitmap update: the property leaves the client free to ignore
        /\ UNCHANGED <<act, shareId>>           \* it (what this client does) or to deliver exactly its rectangles
        /\ out' = <<>> /\ cbs' \in {<<>>, m.rects}
        /\ obs' = ObsNext(obs, l)
     \/ /\ act # "Active" /\ l = "DEACT"        \* DeactHandshake: the property is silent on a deactivate-all
        /\ UNCHANGED shareId /\ Quiet           \* during the handshake: staying or restarting are both allowed
        /\ \/ UNCHANGED <<act, obs>>
           \/ act' = "WaitDemandActive" /\ obs' = ObsInit
     \/ /\ ~Expected(act, l) /\ l # "DEACT"     \* everything else is ignored: no output, no delivery, no move
        /\ UNCHANGED <<act, shareId>> /\ Quiet /\ obs' = ObsNext(obs, l)

\* Several share control PDUs in one MCS user data, received in the active state (global::Client::read_data_pdu
\* walks the whole payload).  Class covered: slow-path PDUs only, and no demand-active after a deactivate-all of the
\* same train - on this class looking at every element in turn is exactly the sequential semantics of Srv, so the
\* window must close on a deactivate-all WHEREVER it stands in the train.  Outside the class the implementation
\* deviates from the sequential semantics (named deviations, not generated: a train received during the handshake
\* is read up to its first PDU only; a demand-active that follows a deactivate-all in the same train is not answered;
\* a share control PDU of a type the client does not know ends the processing of the train with an error, so a
\* deactivate-all standing BEHIND it in the same train is not seen - one standing before it is).
TrainLetters == {"DA", "SYNC", "COOP", "GRANTED", "CTLOTHER", "FONTMAP", "ERRINFO", "UNKDATA", "DEACT", "UNKCTL", "SPBMP"}
\* what a train may deliver: the rectangles of some of its slow-path bitmap updates, in train order - only of those standing
\* BEFORE its first deactivate-all (behind it the window is closed; nothing is delivered there)
InWindowOfTrain(ms) == { k \in 1..Len(ms) : Letter(ms[k]) = "SPBMP" /\ \A j \in 1..(k-1) : Letter(ms[j]) # "DEACT" }
PickRects(ms, S) == LET f[k \in 0..Len(ms)] == IF k = 0 THEN <<>> ELSE f[k-1] \o (IF k \in S THEN ms[k].rects ELSE <<>>) IN f[Len(ms)]
TrainDeliveries(ms) == { PickRects(ms, S) : S \in SUBSET InWindowOfTrain(ms) }
TrainClass(ms) == /\ Len(ms) >= 2
                  /\ \A k \in 1..Len(ms) : Letter(ms[k]) \in TrainLetters
                  /\ \A j, k \in 1..Len(ms) : (j < k /\ Letter(ms[j]) = "DEACT") => Letter(ms[k]) # "DA"
                  /\ \A j, k \in 1..Len(ms) : (j < k /\ Letter(ms[j]) = "UNKCTL") => Letter(ms[k]) # "DEACT"
SrvTrain(ms) ==
  /\ act = "Active" /\ TrainClass(ms)
  /\ inres' = "none" /\ UNCHANGED <<userId, shareId>> /\ out' = <<>> /\ cbs' \in TrainDeliveries(ms)
  /\ IF \E k \in 1..Len(ms) : Letter(ms[k]) = "DEACT"
     THEN act' = "WaitDemandActive" /\ obs' = [stage |-> "da", open |-> FALSE]
     ELSE UNCHANGED <<act, obs>>

\* one call of RdpClient::write (lenient = FALSE) or try_write (lenient = TRUE)
Input(e, lenient) ==
  /\ UNCHANGED <<act, shareId, userId, obs>> /\ cbs' = <<>>
  /\ IF e.t = "bmp" THEN out' = <<>> /\ inres' = "refused"
     ELSE IF act = "Active"
          THEN /\ inres' = "sent"
               /\ \E w \in WireEvents(e) : out' = << InputPdu(userId, shareId, <<w>>) >>
          ELSE /\ out' = <<>>
               /\ inres' = IF lenient THEN "dropped" ELSE "refused"

\* RdpClient::shutdown: a disconnect-provider ultimatum, whatever the activation state (C03)
Shutdown ==
  /\ UNCHANGED <<act, shareId, userId, obs>> /\ cbs' = <<>> /\ inres' = "none"
  /\ out' = << Ultimatum >>

(***************************************************************************)
(* Model-checking instance: the environment chooses everything.            *)
(***************************************************************************)
ModelMsgs ==
       { [kind |-> "DemandActive", shareId |-> s] : s \in ShareIds }
  \cup { [kind |-> "Sync"], [kind |-> "FontMap"], [kind |-> "ErrInfo"], [kind |-> "DeactivateAll"],
         [kind |-> "UnknownData", t2 |-> 38] }
  \cup { [kind |-> "Control", action |-> a] : a \in {1, 2, 3, 4} }
  \cup { [kind |-> "FastPath", updates |-> <<[t |-> "Bitmap"]>>, rects |-> rs] : rs \in RectSeqs }
  \cup { [kind |-> "FastPath", updates |-> <<[t |-> "Other", code |-> 5]>>, rects |-> <<>>] }
  \cup { [kind |-> "SrvUltimatum"], [kind |-> "UnknownControl", ptype |-> 26] }
  \cup { [kind |-> "SlowBitmap", rects |-> rs] : rs \in RectSeqs }
  \cup { [kind |-> "Sync", channel |-> c] : c \in {1004, 1005} } \cup { [kind |-> "DemandActive", shareId |-> s, channel |-> 1004] : s \in ShareIds }

ModelInputs ==
       { [t |-> "ptr", x |-> x, y |-> y, b |-> b, down |-> d] : x \in Coords, y \in Coords, b \in 0..3, d \in BOOLEAN }
  \cup { [t |-> "key", code |-> c, down |-> d] : c \in Coords, d \in BOOLEAN }
  \cup { [t |-> "bmp"] }

ModelTrains == { <<a, b>> : a, b \in { m \in ModelMsgs : m.kind \in {"Sync", "ErrInfo", "DeactivateAll", "DemandActive", "UnknownControl", "SlowBitmap"} /\ ~OffChannel(m) } }
Next == \/ \E m \in ModelMsgs : Srv(m)
        \/ \E ms \in ModelTrains : SrvTrain(ms)
        \/ \E e \in ModelInputs, len \in BOOLEAN : Input(e, len)
        \/ Shutdown

Spec == Init /\ [][Next]_vars

(***************************************************************************)
(* Properties (C12).                                                       *)
(***************************************************************************)
TypeOK == act \in States /\ inres \in {"none", "sent", "refused", "dropped"} /\ obs.open \in BOOLEAN

\* the implementation-shaped state agrees with the window defined by the property text
WindowAgreement == (act = "Active") <=> obs.open

\* input is accepted only inside the window; outside it nothing reaches the wire
InputGated == /\ inres = "sent" => obs.open /\ Len(out) = 1 /\ out[1].kind = "Input"
              /\ inres \in {"refused", "dropped"} => out = <<>>

\* bitmap events are delivered only inside the window: by a step that ends inside it, or by the very step that closes it
\* (a train whose slow-path bitmap updates stand before its deactivate-all - SrvTrain is the only step that ends in
\* stage "da" with deliveries, and it starts in the window)
BitmapsInWindow == cbs # <<>> => (obs.open \/ obs.stage = "da")
\* ... and never by a step that STARTS outside the window (action property)
BitmapsStartInWindow == [][cbs' # <<>> => obs.open]_vars

IsFinalise(o) == Len(o) = 5 /\ o[1].kind = "ConfirmActive" /\ o[2].kind = "Sync" /\ o[3].kind = "Control"
                 /\ o[3].action = 4 /\ o[4].kind = "Control" /\ o[4].action = 1 /\ o[5].kind = "FontList"
ContainsHandshakePdu(o) == \E k \in 1..Len(o) : o[k].kind \in {"ConfirmActive", "Sync", "Control", "FontList"}

\* exactly one confirm-active + finalisation per demand-active received while awaiting activation,
\* carrying that demand-active's share id; no handshake PDU at any other step
OneFinalisePerDA ==
  [][ /\ (obs.stage = "da" /\ obs'.stage = "sync") => (IsFinalise(out') /\ \A k \in 1..5 : out'[k].shareId = shareId')
      /\ ~(obs.stage = "da" /\ obs'.stage = "sync") => ~ContainsHandshakePdu(out') ]_vars

\* the handshake advances only on the expected PDU (stated on the observer's stage, checked on act)
StageOf(s) == CASE s = "WaitDemandActive" -> "da" [] s = "WaitSync" -> "sync" [] s = "WaitCoop" -> "coop"
                [] s = "WaitGranted" -> "granted" [] s = "WaitFontMap" -> "fontmap" [] s = "Active" -> "data"
AdvanceOnlyOnExpected == StageOf(act) = obs.stage

\* identifiers echoed in every client message (C03 IdsEcho, activation part)
IdsEcho == \A k \in 1..Len(out) : out[k].kind # "Ultimatum" => out[k].initiator = userId /\ out[k].channel = IoChan /\ out[k].pduSource = userId
=============================================================================
