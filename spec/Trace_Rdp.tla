------------------------------ MODULE Trace_Rdp ------------------------------
(* Trace validation of whole connections (Connector::connect or               *)
(* x224::Client::connect against the in-process reference server over real    *)
(* TLS, then activation, input, shutdown) against Rdp.tla.  The reference     *)
(* server's log gives the order of client and server messages; every blob is  *)
(* decoded by the wire grammar (pass A).                                      *)
EXTENDS Rdp, TraceAct, Text

tvars == <<allvars, l>>

Num32(b4) == IF b4[4] < 128 THEN b4[1] + 256 * b4[2] + 65536 * b4[3] + 16777216 * b4[4] ELSE -1

CfgOf(c) == [api |-> c.api, mask |-> c.mask, nla |-> c.nla, check |-> c.check, admin |-> c.admin, auto |-> c.auto,
             blank |-> c.blank, hash |-> c.hash, w |-> c.w, h |-> c.h,
             domain |-> Utf16LE(c.domain), user |-> Utf16LE(c.user), password |-> Utf16LE(c.password)]

Trusted(ident) == ident \in {"leaf", "leaf2"}

TInit == /\ l = 1 /\ act = "WaitDemandActive" /\ shareId = <<>> /\ userId = 0
         /\ out = <<>> /\ cbs = <<>> /\ inres = "none" /\ obs = ObsInit
         /\ cfg = [api |-> "none"] /\ phase = "idle" /\ offered = 0 /\ sel = 0 /\ link = "raw"
         /\ wire = <<>> /\ joined = {} /\ srvOk = TRUE /\ result = "pending"

TReset == /\ IsEvent("reset")
          /\ cfg' = CfgOf(Rec[l].cfg) /\ offered' = OfferedOf(cfg')
          /\ phase' = "start" /\ sel' = 0 /\ link' = "raw" /\ wire' = <<>> /\ joined' = {} /\ srvOk' = TRUE /\ result' = "pending"
          /\ act' = "WaitDemandActive" /\ shareId' = <<>> /\ userId' = 0 /\ out' = <<>> /\ cbs' = <<>> /\ inres' = "none" /\ obs' = ObsInit

LastM == wire'[Len(wire')].m

TCWrite ==
  /\ IsEvent("c_write")
  /\ LET d == Dec[Rec[l].blob] IN
     /\ Rec[l].chan = link
     /\ d.ok
     /\ \/ d.kind = "ConnReq" /\ CSendConnReq /\ LastM = [kind |-> "ConnReq", protocols |-> d.protocols, flags |-> d.flags]
        \/ d.kind = "ConnectInitial" /\ CSendConnectInitial
             /\ LastM = [kind |-> "ConnectInitial", width |-> d.core.width, height |-> d.core.height, selectedProtocol |-> Num32(d.core.selectedProtocol)]
        \/ d.kind = "ErectDomain" /\ CSendErect
        \/ d.kind = "AttachUser" /\ CSendAttach
        \/ d.kind = "ChannelJoin" /\ CSendJoin(d.channel) /\ LastM = [kind |-> "ChannelJoin", initiator |-> d.initiator, channel |-> d.channel]
        \/ d.kind = "ClientInfo" /\ CSendClientInfo
             /\ LastM = [kind |-> "ClientInfo", initiator |-> d.initiator, channel |-> d.channel,
                         domain |-> d.domain, user |-> d.user, password |-> d.password, autologon |-> d.autologon]

ResponseConforms(d) == /\ d.result = 0 /\ d.ioChannel = 1003 /\ d.nchannels = 0
                       /\ \E k \in 1..Len(d.blocks) : d.blocks[k] = 3073
                       /\ \E k \in 1..Len(d.blocks) : d.blocks[k] = 3075
LicenceGood(d) == /\ d.pflags = 3
                  /\ \/ d.msg = "NewLicense"
                     \/ d.msg = "ErrorAlert" /\ d.code = <<7, 0, 0, 0>> /\ d.transition = <<2, 0, 0, 0>>

TSWrite ==
  /\ IsEvent("s_write") /\ Rec[l].label \notin {"TsReqChallenge", "TsReqPubKeyAuth"}
  /\ LET d == Dec[Rec[l].blob] IN
     /\ d.ok
     /\ \/ d.kind = "ConnConfirm" /\ SConfirm([neg |-> d.neg, sel |-> IF d.neg = "absent" THEN 0 ELSE Num32(d.sel)])
        \/ d.kind = "ConnectResponse" /\ SConnectResponse(ResponseConforms(d))
        \/ d.kind = "AttachConfirm" /\ d.result = 0 /\ SAttachConfirm(d.uidOff + 1001)
        \/ d.kind = "JoinConfirm" /\ d.result = 0 /\ SJoinConfirm
        \/ d.kind = "Licence" /\ SLicence(LicenceGood(d))

\* CredSSP: the client's TSRequests (round derived by WireNla from the fields present) ...
TCDer == /\ IsEvent("c_der")
         /\ LET d == Dec[Rec[l].blob] IN
            /\ Rec[l].chan = link /\ d.ok /\ d.round \in 1..3
            /\ CNla(d.round)
\* ... and the server's answers (label TsReq*): a challenge after round 1, a pubKeyAuth after round 2
TSDer == /\ IsEvent("s_write") /\ Rec[l].label \in {"TsReqChallenge", "TsReqPubKeyAuth"}
         /\ LET d == Dec[Rec[l].blob] IN
            \/ phase = "nlaWait1" /\ SNla(1, d.ok /\ d.hasNego /\ d.nego.kind = "NtlmChallenge")
            \/ phase = "nlaWait2" /\ SNla(2, d.ok /\ d.hasPubKeyAuth /\ Rec[l].honest)
\* observations of the reference server that carry no protocol step
TNote == (IsEvent("nla_keys") \/ IsEvent("nla_creds") \/ IsEvent("nla_note")) /\ UNCHANGED allvars

THello == IsEvent("c_hello") /\ CTlsHello
TTls == IsEvent("tls") /\ TlsDone([name |-> Rec[l].ident, trusted |-> Trusted(Rec[l].ident)], Rec[l].hs = "ok")
\* the server observed the client's end: no further bytes
TRest == IsEvent("c_rest") /\ Rec[l].b = <<>> /\ UNCHANGED allvars
TClose == IsEvent("s_close") /\ SHangUp
TRet == /\ IsEvent("ret") /\ Rec[l].api = "connect"
        /\ \/ Rec[l].res = "ok" /\ (CConnected \/ CConnectedPlain \/ CX224Up)
           \/ Rec[l].res = "err" /\ CGiveUp

TSrvS == Session(TSrv) /\ Rec[l].chan = link
TInputS == Session(TInput)
TShutdownS == Session(TShutdown) /\ Rec[l].trailing = 0

TNext == TReset \/ TCWrite \/ TCDer \/ TSDer \/ TNote \/ TSWrite \/ THello \/ TTls \/ TRest \/ TClose \/ TRet \/ TSrvS \/ TInputS \/ TShutdownS
TSpec == TInit /\ [][TNext]_tvars
=============================================================================
