------------------------------ MODULE Trace_Rdp ------------------------------
(* Trace validation of whole connections (Connector::connect or               *)
(* x224::Client::connect against the in-process reference server over real    *)
(* TLS, then activation, input, shutdown) against Rdp.tla.  The reference     *)
(* server's log gives the order of client and server messages; every blob is  *)
(* decoded by the wire grammar (pass A).                                      *)
EXTENDS Rdp, TraceAct, Text, Ntlm, X509

\* CredSSP state the validator derives from the wire (never from the harness): the NTLM messages,
\* the certificate the client saw, the session contexts of both directions
VARIABLE nla
tvars == <<allvars, l, nla>>
NlaInit == [neg |-> <<>>, chal |-> <<>>, cert |-> <<>>, c2s |-> <<>>, s2c |-> <<>>, unicode |-> TRUE]
Cps(c, f) == Rec[l].cfg[f]

NW == INSTANCE WireNla WITH Strict <- TRUE

Num32(b4) == IF b4[4] < 128 THEN b4[1] + 256 * b4[2] + 65536 * b4[3] + 16777216 * b4[4] ELSE -1

CfgOf(c) == [api |-> c.api, mask |-> c.mask, nla |-> c.nla, check |-> c.check, admin |-> c.admin, auto |-> c.auto,
             blank |-> c.blank, hash |-> c.hash, w |-> c.w, h |-> c.h,
             domain |-> Utf16LE(c.domain), user |-> Utf16LE(c.user), password |-> Utf16LE(c.password),
             domainCps |-> c.domain, userCps |-> c.user, passwordCps |-> c.password,
             layout |-> c.layout, nameCps |-> c.name,
             \* second connection of the same Connector / Ntlm object: the exported session key of the first one
             prevKey |-> IF "prev_exported" \in DOMAIN c THEN c.prev_exported ELSE <<>>]

Trusted(ident) == ident \in {"leaf", "leaf2", "edff", "edfe"}

TInit == /\ l = 1 /\ act = "WaitDemandActive" /\ shareId = <<>> /\ userId = 0
         /\ out = <<>> /\ cbs = <<>> /\ inres = "none" /\ obs = ObsInit
         /\ cfg = [api |-> "none"] /\ phase = "idle" /\ offered = 0 /\ sel = 0 /\ link = "raw"
         /\ wire = <<>> /\ joined = {} /\ srvOk = TRUE /\ result = "pending" /\ nla = NlaInit

TReset == /\ IsEvent("reset")
          /\ cfg' = CfgOf(Rec[l].cfg) /\ offered' = OfferedOf(cfg')
          /\ phase' = "start" /\ sel' = 0 /\ link' = "raw" /\ wire' = <<>> /\ joined' = {} /\ srvOk' = TRUE /\ result' = "pending"
          /\ act' = "WaitDemandActive" /\ shareId' = <<>> /\ userId' = 0 /\ out' = <<>> /\ cbs' = <<>> /\ inres' = "none" /\ obs' = ObsInit
          /\ nla' = NlaInit

LastM == wire'[Len(wire')].m

TCWrite ==
  /\ IsEvent("c_write")
  /\ LET d == Dec[Rec[l].blob] IN
     /\ Rec[l].chan = link
     /\ d.ok
     /\ \/ d.kind = "ConnReq" /\ CSendConnReq /\ LastM = [kind |-> "ConnReq", protocols |-> d.protocols, flags |-> d.flags]
        \/ d.kind = "ConnectInitial" /\ CSendConnectInitial
             /\ LastM = [kind |-> "ConnectInitial", width |-> d.core.width, height |-> d.core.height, selectedProtocol |-> Num32(d.core.selectedProtocol)]
        \/ d.kind = "ErectDomain" /\ CSendErect
        \/ d.kind = "AttachUser" /\ CSendAttach
        \/ d.kind = "ChannelJoin" /\ CSendJoin(d.channel) /\ LastM = [kind |-> "ChannelJoin", initiator |-> d.initiator, channel |-> d.channel]
        \/ d.kind = "ClientInfo" /\ CSendClientInfo
             /\ LastM = [kind |-> "ClientInfo", initiator |-> d.initiator, channel |-> d.channel,
                         domain |-> d.domain, user |-> d.user, password |-> d.password, autologon |-> d.autologon]

ResponseConforms(d) == /\ d.result = 0 /\ d.ioChannel = 1003 /\ d.nchannels = 0
                       /\ \E k \in 1..Len(d.blocks) : d.blocks[k] = 3073
                       /\ \E k \in 1..Len(d.blocks) : d.blocks[k] = 3075
\* preamble flags (MS-RDPBCGR 2.2.1.12.1.1): low nibble = preamble version 2 (RDP 4.0) or 3 (RDP 5.0 and later),
\* 0x80 = EXTENDED_ERROR_MSG_SUPPORTED; a conforming server may send any of the four combinations
LicenceGood(d) == /\ d.pflags \in {2, 3, 130, 131}
                  /\ \/ d.msg = "NewLicense"
                     \/ d.msg = "ErrorAlert" /\ d.code = <<7, 0, 0, 0>> /\ d.transition = <<2, 0, 0, 0>>

TSWrite ==
  /\ IsEvent("s_write") /\ Rec[l].label \notin {"TsReqChallenge", "TsReqPubKeyAuth"}
  /\ LET d == Dec[Rec[l].blob] IN
     /\ d.ok
     /\ \/ d.kind = "ConnConfirm" /\ SConfirm([neg |-> d.neg, sel |-> IF d.neg = "absent" THEN 0 ELSE Num32(d.sel)])
        \/ d.kind = "ConnectResponse" /\ SConnectResponse(ResponseConforms(d))
        \/ d.kind = "AttachConfirm" /\ d.result = 0 /\ SAttachConfirm(d.uidOff + 1001)
        \/ d.kind = "JoinConfirm" /\ d.result = 0 /\ SJoinConfirm
        \/ d.kind = "Licence" /\ SLicence(LicenceGood(d))

\* CredSSP round 1: the client's NEGOTIATE
TCDer1 == /\ IsEvent("c_der")
          /\ LET d == Dec[Rec[l].blob] IN
             /\ Rec[l].chan = link /\ d.ok /\ d.round = 1
             /\ CNla(1) /\ nla' = [nla EXCEPT !.neg = d.nego.token]
\* the server's CHALLENGE
TSDer1 == /\ IsEvent("s_write") /\ Rec[l].label = "TsReqChallenge" /\ phase = "nlaWait1"
          /\ LET d == Dec[Rec[l].blob] IN
             /\ SNla(1, d.ok /\ d.hasNego /\ d.nego.kind = "NtlmChallenge")
             /\ nla' = [nla EXCEPT !.chal = IF d.ok /\ d.hasNego THEN d.nego.token ELSE <<>>]
\* round 2: AUTHENTICATE + pubKeyAuth.  The token must be accepted by the independent MS-NLMP verifier for
\* the configured account (C15 in situ) and pubKeyAuth must be the SubjectPublicKey of the certificate the
\* TLS layer presented, sealed as the first client message (C01: the key the client actually saw)
TCDer2 == /\ IsEvent("c_der")
          /\ LET d == Dec[Rec[l].blob] IN
             /\ Rec[l].chan = link /\ d.ok /\ d.round = 2
             /\ LET v == Verify(NTHash(cfg.passwordCps), nla.neg, nla.chal, d.nego) IN
                /\ v.ok
                /\ v.exported # cfg.prevKey      \* ExportedSessionKey = NONCE(16), drawn per handshake (MS-NLMP 3.1.5.1.2): never the previous handshake's key
                /\ LET u == Unwrap(Ctx(v.exported, TRUE), d.pubKeyAuth) IN
                   /\ u.ok /\ u.plain = SubjectPublicKey(nla.cert)
                   /\ nla' = [nla EXCEPT !.c2s = u.ctx, !.s2c = Ctx(v.exported, FALSE), !.unicode = d.nego.unicode]
             /\ CNla(2)
\* the server's last TSRequest proves the session key and the certificate iff, decoded strictly, its pubKeyAuth
\* unseals under the server-to-client keys to a value numerically equal to SubjectPublicKey + 1
Proves(d) == /\ d.ok /\ d.hasPubKeyAuth
             /\ LET u == Unwrap(nla.s2c, d.pubKeyAuth) IN u.ok /\ NumEq(u.plain, PlusOne(SubjectPublicKey(nla.cert)))
\* a reply that is not DER but whose pubKeyAuth, read leniently (any definite-length BER), is an honest proof:
\* the server did prove the key, the envelope is malformed - the property allows either outcome
ProvesLeniently(d) == ~d.ok /\ Has(d, "lenient") /\ Proves(d.lenient)
TSDer2 == /\ IsEvent("s_write") /\ Rec[l].label = "TsReqPubKeyAuth" /\ phase = "nlaWait2"
          /\ LET d == Dec[Rec[l].blob] IN
             \/ SNla(2, Proves(d))
             \/ ProvesLeniently(d) /\ SNla(2, TRUE)
          /\ UNCHANGED nla
\* round 3: the sealed credentials (second client message of the cipher stream), C17 mode table:
\* restricted admin or blank credentials empty the TSPasswordCreds, otherwise the configured strings
CredStr(cps) == IF cfg.admin \/ cfg.blank THEN <<>> ELSE IF nla.unicode THEN Utf16LE(cps) ELSE Utf8(cps)
TCDer3 == /\ IsEvent("c_der")
          /\ LET d == Dec[Rec[l].blob] IN
             /\ Rec[l].chan = link /\ d.ok /\ d.round = 3
             /\ LET u == Unwrap(nla.c2s, d.authInfo) IN
                /\ u.ok
                /\ LET c == NW!DecTsCredentials(u.plain) IN
                   /\ c.ok
                   /\ c.domain = CredStr(cfg.domainCps) /\ c.user = CredStr(cfg.userCps)
                   /\ c.password = (IF cfg.hash THEN CredStr(<<>>) ELSE CredStr(cfg.passwordCps))
                /\ nla' = [nla EXCEPT !.c2s = u.ctx]
             /\ CNla(3)
TCDer == TCDer1 \/ TCDer2 \/ TCDer3
TSDer == TSDer1 \/ TSDer2
\* observations of the reference server that carry no protocol step
TNote == (IsEvent("nla_keys") \/ IsEvent("nla_creds") \/ IsEvent("nla_note")) /\ UNCHANGED <<allvars, nla>>

THello == IsEvent("c_hello") /\ CTlsHello
TTls == /\ IsEvent("tls") /\ TlsDone([name |-> Rec[l].ident, trusted |-> Trusted(Rec[l].ident)], Rec[l].hs = "ok")
        /\ nla' = [nla EXCEPT !.cert = IF Rec[l].hs = "ok" THEN Rec[l].cert ELSE <<>>]
\* the server observed the client's end: no further bytes
TRest == IsEvent("c_rest") /\ Rec[l].b = <<>> /\ UNCHANGED <<allvars, nla>>
TClose == IsEvent("s_close") /\ SHangUp
TRet == /\ IsEvent("ret") /\ Rec[l].api = "connect"
        /\ \/ Rec[l].res = "ok" /\ (CConnected \/ CConnectedPlain \/ CX224Up)
           \/ Rec[l].res = "err" /\ CGiveUp

TSrvS == Session(TSrv) /\ Rec[l].chan = link
TInputS == Session(TInput)
TShutdownS == Session(TShutdown) /\ Rec[l].trailing = 0

(***************************************************************************)
(* C17, negative part: the password occurs nowhere but in the two allowed  *)
(* containers.  Every raw byte the client wrote is searched (in TLA+) for  *)
(* the UTF-8 and UTF-16LE forms of the configured password.                *)
(***************************************************************************)
Blobs == ndJsonDeserialize(IOEnv.BLOBS)
Contains(hay, needle) == Len(needle) > 0 /\ \E i \in 1..(Len(hay) - Len(needle) + 1) : SubSeq(hay, i, i + Len(needle) - 1) = needle
HasSecret(bytes) == Contains(bytes, Utf8(cfg.passwordCps)) \/ Contains(bytes, Utf16LE(cfg.passwordCps))
\* containers that may carry the password: the Client Info PDU and the sealed TSCredentials (round 3)
MayCarry(d) == d.ok /\ (d.kind = "ClientInfo" \/ (d.kind = "TsRequest" /\ d.round = 3))
BlobClean(id) == MayCarry(Dec[id]) \/ ~HasSecret(Blobs[id].b)
EventClean ==
  LET e == Rec[l] IN
  /\ (e.ev \in {"c_write", "c_der"}) => BlobClean(e.blob)
  /\ (e.ev \in {"c_rest", "c_bytes", "c_partial"}) => ~HasSecret(e.b)
  /\ (e.ev \in {"srv", "input", "shutdown"}) => \A k \in 1..Len(e.w) : BlobClean(e.w[k])
\* the decrypted credentials carry the password only in the password field
TCDer3Clean == IsEvent("c_der") => LET d == Dec[Rec[l].blob] IN
   (d.ok /\ d.round = 3) => LET c == NW!DecTsCredentials(Unwrap(nla.c2s, d.authInfo).plain) IN ~HasSecret(c.domain) /\ ~HasSecret(c.user)

(***************************************************************************)
(* Beyond the listed properties: the configuration the application gave is *)
(* what the client asks the server for - desktop size and keyboard layout  *)
(* in the client core data AND in the capability sets of every confirm     *)
(* active, the client name (first 15 UTF-16 units) in the core data.       *)
(* Evaluated as an extra conjunct of the trace relation (TSpecCfgEcho); a  *)
(* mismatch is reported as a note, not as a violation of a listed property.*)
(***************************************************************************)
LayoutLow(name) == CASE name = "ar" -> 1 [] name = "bg" -> 2 [] name = "zh" -> 4 [] name = "cs" -> 5 [] name = "da" -> 6 [] name = "de" -> 7 [] name = "el" -> 8
                     [] name = "es" -> 10 [] name = "fi" -> 11 [] name = "fr" -> 12 [] name = "he" -> 13 [] name = "hu" -> 14 [] name = "is" -> 15 [] name = "it" -> 16
                     [] name = "ja" -> 17 [] name = "ko" -> 18 [] name = "nl" -> 19 [] name = "no" -> 20 [] OTHER -> 9
LayoutCode(name) == <<LayoutLow(name), 4, 0, 0>>
Name15(cps) == LET u == Utf16LE(cps) IN IF Len(u) > 30 THEN SubSeq(u, 1, 30) ELSE u
CoreEchoes(d) == /\ d.core.width = cfg.w /\ d.core.height = cfg.h
                 /\ d.core.kbdLayout = LayoutCode(cfg.layout)
                 /\ d.core.clientName = Name15(cfg.nameCps)
ConfirmEchoes(d) == /\ d.capDetail.bitmap # <<>> /\ d.capDetail.bitmap.w = cfg.w /\ d.capDetail.bitmap.h = cfg.h
                    /\ d.capDetail.input # <<>> /\ d.capDetail.input.layout = LayoutCode(cfg.layout)
CfgEchoOk ==
  LET e == Rec[l] IN
  /\ (e.ev = "c_write" /\ Dec[e.blob].ok /\ Dec[e.blob].kind = "ConnectInitial") => CoreEchoes(Dec[e.blob])
  /\ (e.ev = "srv") => \A k \in 1..Len(e.w) : (Dec[e.w[k]].ok /\ Dec[e.w[k]].kind = "ConfirmActive") => ConfirmEchoes(Dec[e.w[k]])

TNext == \/ TReset \/ TCDer \/ TSDer \/ TNote \/ TTls \/ TRest
         \/ ((TCWrite \/ TSWrite \/ THello \/ TClose \/ TRet \/ TSrvS \/ TInputS \/ TShutdownS) /\ UNCHANGED nla)
TSpec == TInit /\ [][TNext]_tvars
\* the same, additionally refusing any event whose bytes leak the password
TSecretNext == TNext /\ (l <= Len(Rec) => EventClean)
TCfgEchoNext == TNext /\ (l <= Len(Rec) => CfgEchoOk)
TSpecCfgEcho == TInit /\ [][TCfgEchoNext]_tvars
TSpecSecrets == TInit /\ [][TSecretNext]_tvars
=============================================================================
