SPECIFICATION Spec
CONSTANTS
  Scripts <- MCScripts
  PollSource = "raw"
  ExitOn = "rdp_error_only"
  GuiWrites = 1
INVARIANTS NoStall ForwardedInOrder
PROPERTIES StopsWithSession KeepsUp
CHECK_DEADLOCK FALSE
