----------------------------- MODULE WireClient -----------------------------
(* Strict, independent grammar of every PDU the rdp-rs client emits on the   *)
(* slow path (TPKT / X.224 / MCS-PER / BER connect-initial / GCC blocks /    *)
(* Client Info / share control + data headers / capability sets / input).    *)
(* Written from MS-RDPBCGR, T.125, T.124, X.691, X.690 - not from the code.  *)
(*                                                                           *)
(* DecClient(frame) takes ONE complete frame as written by the client in one *)
(* call and returns an abstract message [ok |-> TRUE, kind |-> ..., ...] or  *)
(* Bad(reason).  "Strict" means: every length / count field must equal the   *)
(* size / number of what it describes, fixed-size structures must have their *)
(* specified size, strings must be terminated as specified, nothing may      *)
(* trail.  Where the documents (or deployed practice) allow several values   *)
(* the grammar accepts all of them and says so in a comment.                 *)
EXTENDS Bytes

(***************************************************************************)
(* X.690 TLV reader, definite lengths.  der = TRUE additionally demands the *)
(* minimal length form (DER); BER contexts (T.125 connect PDUs) accept the   *)
(* long form for any value.                                                  *)
(***************************************************************************)
\* returns [ok, tag (first identifier octet), hl (header length), len (content length)]
TlvG(b, i, der) ==
  IF i + 1 > Len(b) THEN Bad("ber: truncated header")
  ELSE LET t == b[i]  l0 == b[i+1] IN
    IF l0 < 128 THEN [ok |-> TRUE, tag |-> t, hl |-> 2, len |-> l0]
    ELSE IF l0 = 129 THEN
           IF i + 2 > Len(b) THEN Bad("ber: truncated length")
           ELSE IF der /\ b[i+2] < 128 THEN Bad("der: non-minimal length (0x81)")
           ELSE [ok |-> TRUE, tag |-> t, hl |-> 3, len |-> b[i+2]]
    ELSE IF l0 = 130 THEN
           IF i + 3 > Len(b) THEN Bad("ber: truncated length")
           ELSE IF der /\ b[i+2] = 0 THEN Bad("der: non-minimal length (0x82)")
           ELSE [ok |-> TRUE, tag |-> t, hl |-> 4, len |-> U16BE(b, i+2)]
    ELSE IF l0 = 131 /\ ~der THEN
           IF i + 4 > Len(b) THEN Bad("ber: truncated length")
           ELSE IF b[i+2] # 0 THEN Bad("ber: length beyond 16 bits")
           ELSE [ok |-> TRUE, tag |-> t, hl |-> 5, len |-> U16BE(b, i+3)]
    ELSE Bad("ber: unsupported length form")

Tlv(b, i) == TlvG(b, i, FALSE)
TlvDer(b, i) == TlvG(b, i, TRUE)

\* a TLV that must have tag t and lie completely inside b[i..lim]
TlvIn(b, i, lim, t) ==
  LET h == Tlv(b, i) IN
  IF ~h.ok THEN h
  ELSE IF h.tag # t THEN Bad("ber: unexpected tag")
  ELSE IF i + h.hl + h.len - 1 > lim THEN Bad("ber: value exceeds container")
  ELSE h

\* DER INTEGER content: minimal two's complement, non negative, at most 4 octets
DerUIntOk(b, i, n) ==
  /\ n >= 1 /\ n <= 5
  /\ b[i] < 128
  /\ (n > 1 => ~(b[i] = 0 /\ b[i+1] < 128))
  /\ (n = 5 => b[i] = 0)

RECURSIVE BeNum(_, _, _)
BeNum(b, i, n) == IF n = 0 THEN 0 ELSE 256 * BeNum(b, i, n-1) + b[i+n-1]
\* value of a DER unsigned integer when it fits 31 bits, else -1
DerUIntVal(b, i, n) ==
  IF n <= 3 \/ (n = 4 /\ b[i] < 128) THEN BeNum(b, i, n) ELSE -1

(***************************************************************************)
(* X.691 aligned PER length determinant as used by T.125/T.124 here.       *)
(***************************************************************************)
\* [ok, n (value), hl]; strict: the two-octet form is only used for n > 127
PerLen(b, i) ==
  IF i > Len(b) THEN Bad("per: truncated length")
  ELSE IF b[i] < 128 THEN [ok |-> TRUE, n |-> b[i], hl |-> 1]
  ELSE IF i + 1 > Len(b) THEN Bad("per: truncated length")
  ELSE IF b[i] >= 192 THEN Bad("per: fragmented length not allowed")
  ELSE LET n == (b[i] - 128) * 256 + b[i+1] IN
       IF n < 128 THEN Bad("per: non-minimal length") ELSE [ok |-> TRUE, n |-> n, hl |-> 2]

(***************************************************************************)
(* Capability sets (MS-RDPBCGR 2.2.7): type -> allowed lengthCapability.   *)
(***************************************************************************)
CapLenOk(t, n) ==
  CASE t = 1  -> n = 24         \* general
    [] t = 2  -> n = 28         \* bitmap
    [] t = 3  -> n = 88         \* order
    [] t = 4  -> n = 40         \* bitmap cache rev 1
    [] t = 8  -> n \in {8, 10}  \* pointer (pointerCacheSize optional)
    [] t = 12 -> n = 8          \* sound
    [] t = 13 -> n = 88         \* input
    [] t = 15 -> n = 8          \* brush
    [] t = 16 -> n = 52         \* glyph cache
    [] t = 17 -> n = 12         \* offscreen cache
    [] t = 20 -> n \in {8, 12}  \* virtual channel (VCChunkSize optional)
    [] t = 26 -> n = 8          \* multifragment update
    [] OTHER  -> n >= 4

\* walk capability sets in b[i..lim]; returns [ok, types (sequence), count]
RECURSIVE Caps(_, _, _, _)
Caps(b, i, lim, acc) ==
  IF i = lim + 1 THEN [ok |-> TRUE, types |-> acc]
  ELSE IF i + 3 > lim THEN Bad("caps: truncated capability header")
  ELSE LET t == U16LE(b, i)  n == U16LE(b, i+2) IN
       IF n < 4 THEN Bad("caps: lengthCapability < 4")
       ELSE IF i + n - 1 > lim THEN Bad("caps: capability exceeds lengthCombinedCapabilities")
       ELSE IF ~CapLenOk(t, n) THEN Bad("caps: wrong fixed size for capability type")
       ELSE Caps(b, i + n, lim, Append(acc, t))

\* the fields of the capability sets that echo the connector configuration (MS-RDPBCGR 2.2.7.1.2 bitmap:
\* preferredBitsPerPixel, desktopWidth, desktopHeight; 2.2.7.1.6 input: keyboardLayout); <<>> when the set is absent
RECURSIVE CapDetail(_, _, _, _)
CapDetail(b, i, lim, acc) ==
  IF i + 3 > lim THEN acc
  ELSE LET t == U16LE(b, i)  n == U16LE(b, i+2) IN
       IF n < 4 THEN acc
       ELSE CapDetail(b, i + n, lim,
              IF t = 2 /\ n = 28 THEN [acc EXCEPT !.bitmap = [bpp |-> U16LE(b, i+4), w |-> U16LE(b, i+12), h |-> U16LE(b, i+14)]]
              ELSE IF t = 13 /\ n = 88 THEN [acc EXCEPT !.input = [layout |-> B4(b, i+8)]]
              ELSE acc)

(***************************************************************************)
(* Share control / share data PDUs (client to server).                     *)
(***************************************************************************)
\* uncompressedLength: the documents say "uncompressed length of the packet";
\* deployed stacks use three conventions, all tolerated by servers: the whole
\* share control PDU (rdesktop lineage), the bytes from pduType2 on (the
\* annotated examples of MS-RDPBCGR section 4), or the payload only.
UncompLenOk(u, total, payload) == u \in {total, payload + 4, payload}

InputEvent(b, i) ==     \* one TS_INPUT_EVENT = 12 bytes for the two kinds the client can send
  LET mt == U16LE(b, i+4) IN
  IF mt = 32769 THEN [ok |-> TRUE, t |-> "mouse", time |-> B4(b, i), flags |-> U16LE(b, i+6), x |-> U16LE(b, i+8), y |-> U16LE(b, i+10)]
  ELSE IF mt = 4 THEN
       IF U16LE(b, i+10) # 0 THEN Bad("input: scancode pad2Octets not zero")
       ELSE [ok |-> TRUE, t |-> "scancode", time |-> B4(b, i), flags |-> U16LE(b, i+6), code |-> U16LE(b, i+8)]
  ELSE Bad("input: unsupported messageType")

RECURSIVE InputEvents(_, _, _, _)
InputEvents(b, i, lim, acc) ==
  IF i = lim + 1 THEN [ok |-> TRUE, events |-> acc]
  ELSE IF i + 11 > lim THEN Bad("input: truncated event")
  ELSE LET e == InputEvent(b, i) IN
       IF ~e.ok THEN e ELSE InputEvents(b, i + 12, lim, Append(acc, e))

\* b[i..lim] is the payload after the share data header
DataBody(b, i, lim, t2, base) ==
  LET n == lim - i + 1 IN
  IF t2 = 31 THEN       \* synchronize
    IF n # 4 THEN Bad("sync: size # 4")
    ELSE IF U16LE(b, i) # 1 THEN Bad("sync: messageType # 1")
    ELSE base @@ [kind |-> "Sync", targetUser |-> U16LE(b, i+2)]
  ELSE IF t2 = 20 THEN  \* control
    IF n # 8 THEN Bad("control: size # 8")
    ELSE base @@ [kind |-> "Control", action |-> U16LE(b, i), grantId |-> U16LE(b, i+2), controlId |-> B4(b, i+4)]
  ELSE IF t2 = 39 THEN  \* font list
    IF n # 8 THEN Bad("fontlist: size # 8")
    ELSE base @@ [kind |-> "FontList", numberFonts |-> U16LE(b, i), totalNumFonts |-> U16LE(b, i+2),
                  listFlags |-> U16LE(b, i+4), entrySize |-> U16LE(b, i+6)]
  ELSE IF t2 = 28 THEN  \* input
    IF n < 4 THEN Bad("input: truncated header")
    ELSE IF U16LE(b, i+2) # 0 THEN Bad("input: pad2Octets not zero")
    ELSE LET ev == InputEvents(b, i + 4, lim, <<>>) IN
         IF ~ev.ok THEN ev
         ELSE IF Len(ev.events) # U16LE(b, i) THEN Bad("input: numEvents # number of events")
         ELSE base @@ [kind |-> "Input", events |-> ev.events]
  ELSE Bad("data pdu: pduType2 the client is not expected to send")

\* b[i..lim] is a complete share control PDU
ShareControl(b, i, lim, base0) ==
  LET n == lim - i + 1 IN
  IF n < 6 THEN Bad("share control: truncated header")
  ELSE IF U16LE(b, i) # n THEN Bad("share control: totalLength # size of the PDU")
  ELSE LET pt == U16LE(b, i+2)
           base == base0 @@ [pduSource |-> U16LE(b, i+4)] IN
  IF pt = 19 THEN   \* 0x13 confirm active
    IF n < 6 + 16 THEN Bad("confirm active: truncated")
    ELSE LET lsd == U16LE(b, i+12)
             lcc == U16LE(b, i+14)
             capStart == i + 16 + lsd + 4 IN
         IF U16LE(b, i+10) # 1002 THEN Bad("confirm active: originatorId # 0x03EA")
         ELSE IF i + 16 + lsd + lcc - 1 # lim THEN Bad("confirm active: lengthSourceDescriptor + lengthCombinedCapabilities # body size")
         ELSE IF lcc < 4 THEN Bad("confirm active: lengthCombinedCapabilities < 4")
         ELSE LET c == Caps(b, capStart, lim, <<>>) IN
              IF ~c.ok THEN c
              ELSE IF Len(c.types) # U16LE(b, i + 16 + lsd) THEN Bad("confirm active: numberCapabilities # number of capability sets")
              ELSE base @@ [ok |-> TRUE, kind |-> "ConfirmActive", shareId |-> B4(b, i+6),
                            source |-> Sub(b, i+16, lsd), caps |-> c.types,
                            capDetail |-> CapDetail(b, capStart, lim, [bitmap |-> <<>>, input |-> <<>>])]
  ELSE IF pt = 23 THEN   \* 0x17 data
    IF n < 18 THEN Bad("share data: truncated header")
    ELSE IF b[i+15] # 0 THEN Bad("share data: compressedType # 0")
    ELSE IF U16LE(b, i+16) # 0 THEN Bad("share data: compressedLength # 0")
    ELSE IF ~UncompLenOk(U16LE(b, i+12), n, n - 18) THEN Bad("share data: uncompressedLength matches no accepted convention")
    ELSE IF b[i+11] \notin {1, 2, 4} THEN Bad("share data: streamId not LOW/MED/HI")
    ELSE DataBody(b, i + 18, lim, b[i+14], base @@ [ok |-> TRUE, shareId |-> B4(b, i+6)])
  ELSE Bad("share control: pduType the client is not expected to send")

(***************************************************************************)
(* Client Info PDU (security header + TS_INFO_PACKET).                     *)
(***************************************************************************)
INFO_AUTOLOGON == 8
INFO_UNICODE == 16

\* well-formed UTF-16 (little endian bytes): every high surrogate D800..DBFF is followed by a low surrogate
\* DC00..DFFF and no low surrogate stands alone
RECURSIVE WellFormedUtf16(_)
WellFormedUtf16(s) ==
  IF Len(s) < 2 THEN TRUE
  ELSE LET u == s[1] + 256 * s[2] IN
       IF u >= 55296 /\ u <= 56319 THEN
          Len(s) >= 4 /\ (LET v == s[3] + 256 * s[4] IN v >= 56320 /\ v <= 57343) /\ WellFormedUtf16(SubSeq(s, 5, Len(s)))
       ELSE IF u >= 56320 /\ u <= 57343 THEN FALSE
       ELSE WellFormedUtf16(SubSeq(s, 3, Len(s)))

\* a UTF-16LE field of cb bytes followed by a 2-byte terminator, at b[i..]
InfoStr(b, i, cb, lim) ==
  IF cb % 2 # 0 THEN Bad("info: odd cb for a unicode string")
  ELSE IF i + cb + 1 > lim THEN Bad("info: string exceeds packet")
  ELSE IF b[i+cb] # 0 \/ b[i+cb+1] # 0 THEN Bad("info: string not null terminated")
  ELSE IF ~WellFormedUtf16(Sub(b, i, cb)) THEN Bad("info: string is not well-formed UTF-16 (unpaired surrogate)")
  ELSE [ok |-> TRUE, s |-> Sub(b, i, cb), next |-> i + cb + 2]

ExtInfo(b, i, lim) ==
  IF i + 3 > lim THEN Bad("extinfo: truncated")
  ELSE LET cba == U16LE(b, i+2) IN
  IF cba < 2 \/ cba % 2 # 0 THEN Bad("extinfo: cbClientAddress must count the mandatory null terminator")
  ELSE IF i + 4 + cba + 1 > lim THEN Bad("extinfo: clientAddress exceeds packet")
  ELSE IF b[i+4+cba-2] # 0 \/ b[i+4+cba-1] # 0 THEN Bad("extinfo: clientAddress not terminated")
  ELSE LET j == i + 4 + cba
           cbd == U16LE(b, j) IN
  IF cbd < 2 \/ cbd % 2 # 0 THEN Bad("extinfo: cbClientDir must count the mandatory null terminator")
  ELSE IF j + 2 + cbd - 1 > lim THEN Bad("extinfo: clientDir exceeds packet")
  ELSE IF b[j+2+cbd-2] # 0 \/ b[j+2+cbd-1] # 0 THEN Bad("extinfo: clientDir not terminated")
  ELSE LET k == j + 2 + cbd IN      \* clientTimeZone 172, clientSessionId 4, performanceFlags 4
  IF k - 1 = lim THEN Bad("extinfo: clientTimeZone missing") \* time zone is optional only as a whole tail
  ELSE IF k + 180 - 1 # lim THEN Bad("extinfo: tail is not timezone(172)+sessionId(4)+performanceFlags(4)")
  ELSE [ok |-> TRUE, family |-> U16LE(b, i)]

ClientInfo(b, i, lim, base) ==
  IF i + 4 + 18 - 1 > lim THEN Bad("info: truncated")
  ELSE LET flags == U16LE(b, i)  p == i + 4 IN
  IF flags # 64 THEN Bad("info: security flags # SEC_INFO_PKT")
  ELSE IF U16LE(b, i+2) # 0 THEN Bad("info: flagsHi # 0")
  ELSE LET iflags == U16LE(b, p+4)
           cbD == U16LE(b, p+8)  cbU == U16LE(b, p+10)  cbP == U16LE(b, p+12)
           cbA == U16LE(b, p+14) cbW == U16LE(b, p+16) IN
  IF ~HasBit(iflags, INFO_UNICODE) THEN Bad("info: INFO_UNICODE not set")
  ELSE LET d == InfoStr(b, p + 18, cbD, lim) IN IF ~d.ok THEN d
  ELSE LET u == InfoStr(b, d.next, cbU, lim) IN IF ~u.ok THEN u
  ELSE LET pw == InfoStr(b, u.next, cbP, lim) IN IF ~pw.ok THEN pw
  ELSE LET a == InfoStr(b, pw.next, cbA, lim) IN IF ~a.ok THEN a
  ELSE LET w == InfoStr(b, a.next, cbW, lim) IN IF ~w.ok THEN w
  ELSE LET r == base @@ [ok |-> TRUE, kind |-> "ClientInfo", codePage |-> B4(b, p), infoFlags |-> B4(b, p+4),
                         autologon |-> HasBit(iflags, INFO_AUTOLOGON),
                         domain |-> d.s, user |-> u.s, password |-> pw.s,
                         shell |-> a.s, workdir |-> w.s] IN
  IF w.next - 1 = lim THEN r @@ [extended |-> FALSE]
  ELSE LET x == ExtInfo(b, w.next, lim) IN
       IF ~x.ok THEN x ELSE r @@ [extended |-> TRUE]

(***************************************************************************)
(* GCC conference create request and client data blocks.                   *)
(***************************************************************************)
\* UTF-16 string in a fixed field of n bytes at b[i..]: some 16-bit unit must be 0
HasNulUnit(b, i, n) == \E k \in 0..((n \div 2) - 1) : b[i + 2*k] = 0 /\ b[i + 2*k + 1] = 0
\* the units before the first NUL
RECURSIVE Utf16Until0(_, _, _)
Utf16Until0(b, i, n) ==
  IF n < 2 \/ (b[i] = 0 /\ b[i+1] = 0) THEN <<>> ELSE <<b[i], b[i+1]>> \o Utf16Until0(b, i+2, n-2)

CsCoreCuts == {128, 130, 132, 136, 138, 140, 142, 206, 207, 208, 212, 216, 220, 222, 226, 230}

CsCore(b, i, n) ==      \* b[i..i+n-1] is the block body (without the 4 byte header)
  IF n \notin CsCoreCuts THEN Bad("cs_core: block size is not a valid cut of TS_UD_CS_CORE")
  ELSE IF ~HasNulUnit(b, i + 20, 32) THEN Bad("cs_core: clientName not null terminated within 32 bytes")
  ELSE IF ~HasNulUnit(b, i + 64, 64) THEN Bad("cs_core: imeFileName not null terminated")
  ELSE IF ~WellFormedUtf16(Utf16Until0(b, i+20, 32)) THEN Bad("cs_core: clientName is not well-formed UTF-16 (unpaired surrogate)")
  ELSE [ok |-> TRUE, version |-> B4(b, i), width |-> U16LE(b, i+4), height |-> U16LE(b, i+6),
        kbdLayout |-> B4(b, i+12), clientName |-> Utf16Until0(b, i+20, 32),
        selectedProtocol |-> IF n >= 212 THEN B4(b, i+208) ELSE <<>>]

\* walk client data blocks; returns [ok, blocks: sequence of [t, n]] and the decoded core
RECURSIVE CsBlocks(_, _, _, _)
CsBlocks(b, i, lim, acc) ==
  IF i = lim + 1 THEN acc
  ELSE IF i + 3 > lim THEN Bad("gcc: truncated user data header")
  ELSE LET t == U16LE(b, i)  n == U16LE(b, i+2) IN
  IF n < 4 \/ i + n - 1 > lim THEN Bad("gcc: user data block length exceeds userData")
  ELSE IF t = 49153 THEN        \* CS_CORE
         LET c == CsCore(b, i+4, n-4) IN IF ~c.ok THEN c
         ELSE CsBlocks(b, i+n, lim, [acc EXCEPT !.types = Append(@, t), !.core = c])
  ELSE IF t = 49154 THEN        \* CS_SECURITY
         IF n # 12 THEN Bad("cs_security: size # 12") ELSE CsBlocks(b, i+n, lim, [acc EXCEPT !.types = Append(@, t)])
  ELSE IF t = 49155 THEN        \* CS_NET
         IF n < 8 THEN Bad("cs_net: truncated")
         ELSE IF ~FitsSmall32LE(b, i+4) \/ n # 8 + 12 * Small32LE(b, i+4) THEN Bad("cs_net: channelCount # number of channel definitions")
         ELSE CsBlocks(b, i+n, lim, [acc EXCEPT !.types = Append(@, t), !.channels = Small32LE(b, i+4)])
  ELSE IF t \in {49156, 49157, 49158, 49160, 49162} THEN CsBlocks(b, i+n, lim, [acc EXCEPT !.types = Append(@, t)])
  ELSE Bad("gcc: unknown client data block type")

GccPrefix == <<0, 5, 0, 20, 124, 0, 1>>                       \* key: object, T.124 OID
GccMid    == <<0, 8, 0, 16, 0, 1, 192, 0, 68, 117, 99, 97>>   \* CCrq body up to the H.221 key "Duca"

GccRequest(b, i, lim) ==
  IF lim - i + 1 < 7 + 1 + 12 + 1 THEN Bad("gcc: truncated conference create request")
  ELSE IF Sub(b, i, 7) # GccPrefix THEN Bad("gcc: bad key / object identifier")
  ELSE LET l1 == PerLen(b, i + 7) IN IF ~l1.ok THEN l1
  ELSE LET j == i + 7 + l1.hl IN
  IF j + l1.n - 1 # lim THEN Bad("gcc: connectPDU length # remaining size")
  ELSE IF Sub(b, j, 12) # GccMid THEN Bad("gcc: bad conference create request header")
  ELSE LET l2 == PerLen(b, j + 12) IN IF ~l2.ok THEN l2
  ELSE LET k == j + 12 + l2.hl IN
  IF k + l2.n - 1 # lim THEN Bad("gcc: userData length # remaining size")
  ELSE LET r == CsBlocks(b, k, lim, [ok |-> TRUE, types |-> <<>>, core |-> <<>>, channels |-> 0]) IN
  IF ~r.ok THEN r
  ELSE IF r.types = <<>> \/ r.types[1] # 49153 THEN Bad("gcc: CS_CORE must be the first block")
  ELSE IF 49154 \notin {r.types[x] : x \in 1..Len(r.types)} THEN Bad("gcc: CS_SECURITY missing")
  ELSE r

(***************************************************************************)
(* MCS connect-initial (T.125, BER).                                       *)
(***************************************************************************)
\* DomainParameters ::= SEQUENCE of 8 INTEGERs, at b[i..], inside lim
RECURSIVE DomInts(_, _, _, _)
DomInts(b, i, lim, k) ==
  IF k = 0 THEN (IF i = lim + 1 THEN [ok |-> TRUE] ELSE Bad("mcs: DomainParameters has trailing bytes"))
  ELSE LET h == TlvIn(b, i, lim, 2) IN IF ~h.ok THEN h
  ELSE IF ~DerUIntOk(b, i + h.hl, h.len) THEN Bad("mcs: non-minimal or negative INTEGER in DomainParameters")
  ELSE DomInts(b, i + h.hl + h.len, lim, k - 1)

DomParams(b, i, lim) ==
  LET h == TlvIn(b, i, lim, 48) IN IF ~h.ok THEN h
  ELSE LET r == DomInts(b, i + h.hl, i + h.hl + h.len - 1, 8) IN
       IF ~r.ok THEN r ELSE [ok |-> TRUE, next |-> i + h.hl + h.len]

ConnectInitial(b, i, lim, base) ==
  IF i + 2 > lim \/ b[i] # 127 \/ b[i+1] # 101 THEN Bad("mcs: connect-initial tag [APPLICATION 101] expected")
  ELSE LET h == Tlv(b, i + 1) IN IF ~h.ok THEN h           \* length octets follow the 2-octet tag
  ELSE LET s == i + 1 + h.hl IN
  IF s + h.len - 1 # lim THEN Bad("mcs: connect-initial length # remaining size")
  ELSE LET a == TlvIn(b, s, lim, 4) IN IF ~a.ok THEN a                     \* callingDomainSelector
  ELSE LET c == TlvIn(b, s + a.hl + a.len, lim, 4) IN IF ~c.ok THEN c      \* calledDomainSelector
  ELSE LET p0 == s + a.hl + a.len + c.hl + c.len
           u == TlvIn(b, p0, lim, 1) IN IF ~u.ok THEN u                    \* upwardFlag BOOLEAN
  ELSE IF u.len # 1 \/ b[p0 + 2] \notin {0, 255} THEN Bad("mcs: upwardFlag is not a DER BOOLEAN")
  ELSE LET d1 == DomParams(b, p0 + 3, lim) IN IF ~d1.ok THEN d1
  ELSE LET d2 == DomParams(b, d1.next, lim) IN IF ~d2.ok THEN d2
  ELSE LET d3 == DomParams(b, d2.next, lim) IN IF ~d3.ok THEN d3
  ELSE LET ud == TlvIn(b, d3.next, lim, 4) IN IF ~ud.ok THEN ud
  ELSE IF d3.next + ud.hl + ud.len - 1 # lim THEN Bad("mcs: bytes after userData")
  ELSE LET g == GccRequest(b, d3.next + ud.hl, lim) IN IF ~g.ok THEN g
  ELSE base @@ [ok |-> TRUE, kind |-> "ConnectInitial", blocks |-> g.types, core |-> g.core, channels |-> g.channels]

(***************************************************************************)
(* X.224 / MCS dispatch.                                                   *)
(***************************************************************************)
\* b[i..lim] = MCS domain PDU
Mcs(b, i, lim) ==
  IF i > lim THEN Bad("mcs: empty PDU")
  ELSE LET op == b[i] \div 4 IN
  IF b[i] = 127 THEN ConnectInitial(b, i, lim, <<>>)
  ELSE IF op = 1 THEN        \* erect domain request: two PER INTEGERs
     IF Sub(b, i, lim - i + 1) # <<4, 1, 0, 1, 0>> THEN Bad("mcs: erect-domain is not 04 01 00 01 00")
     ELSE [ok |-> TRUE, kind |-> "ErectDomain"]
  ELSE IF op = 10 THEN
     IF lim # i \/ b[i] # 40 THEN Bad("mcs: attach-user request is not the single octet 0x28")
     ELSE [ok |-> TRUE, kind |-> "AttachUser"]
  ELSE IF op = 14 THEN
     IF lim - i + 1 # 5 \/ b[i] # 56 THEN Bad("mcs: channel-join request must be 5 octets, no optional fields")
     ELSE [ok |-> TRUE, kind |-> "ChannelJoin", initiator |-> U16BE(b, i+1) + 1001, channel |-> U16BE(b, i+3)]
  ELSE IF op = 8 THEN        \* disconnect provider ultimatum: 2 octets; trailing zero padding tolerated (noted)
     IF lim - i + 1 < 2 THEN Bad("mcs: truncated disconnect-provider ultimatum")
     ELSE IF ~AllZero(b, i + 2, lim - i - 1) THEN Bad("mcs: non-zero bytes after disconnect-provider ultimatum")
     ELSE [ok |-> TRUE, kind |-> "Ultimatum", reason |-> (b[i] % 4) * 2 + (b[i+1] \div 128), trailing |-> lim - i - 1]
  ELSE IF op = 25 THEN       \* send data request
     IF lim - i + 1 < 7 THEN Bad("mcs: truncated send-data request")
     ELSE IF b[i] # 100 THEN Bad("mcs: send-data request with option bits")
     ELSE IF b[i+5] # 112 THEN Bad("mcs: dataPriority/segmentation octet # 0x70")
     ELSE LET l == PerLen(b, i + 6) IN IF ~l.ok THEN l
     ELSE LET s == i + 6 + l.hl
              base == [initiator |-> U16BE(b, i+1) + 1001, channel |-> U16BE(b, i+3)] IN
     IF s + l.n - 1 # lim THEN Bad("mcs: send-data userData length # remaining size")
     \* a security header (flags 0x0040 SEC_INFO_PKT, flagsHi 0) cannot be confused with a share
     \* control header, whose second field (pduType) is never 0
     ELSE IF l.n >= 4 /\ U16LE(b, s) = 64 /\ U16LE(b, s + 2) = 0 THEN ClientInfo(b, s, lim, base)
     ELSE ShareControl(b, s, lim, base)
  ELSE Bad("mcs: domain PDU the client is not expected to send")

NegReq(b, i, lim) ==      \* X.224 connection request body after the 7 fixed octets
  LET n == lim - i + 1 IN
  IF n # 8 THEN Bad("x224: connection request without exactly one RDP_NEG_REQ (no cookie is sent by this client)")
  ELSE IF b[i] # 1 THEN Bad("x224: negotiation type # TYPE_RDP_NEG_REQ")
  ELSE IF U16LE(b, i+2) # 8 THEN Bad("x224: RDP_NEG_REQ length # 8")
  ELSE IF ~FitsSmall32LE(b, i+4) THEN Bad("x224: requestedProtocols out of range")
  ELSE [ok |-> TRUE, kind |-> "ConnReq", flags |-> b[i+1], protocols |-> Small32LE(b, i+4)]

DecClient(b) ==
  LET n == Len(b) IN
  IF n < 4 THEN Bad("tpkt: truncated header")
  ELSE IF b[1] # 3 THEN Bad("tpkt: version # 3")
  ELSE IF b[2] # 0 THEN Bad("tpkt: reserved # 0")
  ELSE IF U16BE(b, 3) # n THEN Bad("tpkt: length # size of the frame")
  ELSE IF n < 7 THEN Bad("x224: truncated")
  ELSE IF b[6] = 240 THEN           \* data TPDU
     IF b[5] # 2 \/ b[7] # 128 THEN Bad("x224: data header is not 02 F0 80")
     ELSE Mcs(b, 8, n)
  ELSE IF b[6] = 224 THEN           \* connection request
     IF b[5] # n - 5 THEN Bad("x224: length indicator # size of the TPDU - 1")
     ELSE IF n < 11 THEN Bad("x224: truncated connection request")
     ELSE IF ~AllZero(b, 7, 5) THEN Bad("x224: dst-ref/src-ref/class not zero")
     ELSE NegReq(b, 12, n)
  ELSE Bad("x224: TPDU code the client is not expected to send")
=============================================================================
