import tlc2.overrides.ITLCOverrides;
import tlc2.overrides.TLAPlusOperator;
import tlc2.value.impl.IntValue;
import tlc2.value.impl.TupleValue;
import tlc2.value.impl.Value;
import java.security.MessageDigest;
import javax.crypto.Mac;
import javax.crypto.spec.SecretKeySpec;

/** Cryptographic primitives for Ntlm.tla, evaluated by TLC through module overrides.
 *  MD5 and HMAC-MD5 come from the JDK; MD4 (RFC 1320) and RC4 are written out here. */
public class RdpPrims implements ITLCOverrides {

    @SuppressWarnings("rawtypes")
    @Override
    public Class[] get() { return new Class[] { RdpPrims.class }; }

    static byte[] bytes(Value v) {
        TupleValue t = (TupleValue) v.toTuple();
        byte[] b = new byte[t.size()];
        for (int i = 0; i < b.length; i++) b[i] = (byte) ((IntValue) t.elems[i]).val;
        return b;
    }

    static Value tuple(byte[] b) {
        Value[] e = new Value[b.length];
        for (int i = 0; i < b.length; i++) e[i] = IntValue.gen(b[i] & 0xff);
        return new TupleValue(e);
    }

    @TLAPlusOperator(identifier = "MD5", module = "RdpPrims", warn = false)
    public static Value md5(Value data) throws Exception {
        return tuple(MessageDigest.getInstance("MD5").digest(bytes(data)));
    }

    @TLAPlusOperator(identifier = "HMAC_MD5", module = "RdpPrims", warn = false)
    public static Value hmacMd5(Value key, Value data) throws Exception {
        byte[] k = bytes(key);
        if (k.length == 0) {
            // javax.crypto refuses empty keys; HMAC with an empty key = key of 64 zero bytes
            k = new byte[64];
        }
        Mac m = Mac.getInstance("HmacMD5");
        m.init(new SecretKeySpec(k, "HmacMD5"));
        return tuple(m.doFinal(bytes(data)));
    }

    /** RC4 keystream applied to data after discarding `skip` keystream bytes */
    @TLAPlusOperator(identifier = "RC4", module = "RdpPrims", warn = false)
    public static Value rc4(Value key, Value skip, Value data) {
        byte[] k = bytes(key);
        byte[] d = bytes(data);
        int sk = ((IntValue) skip).val;
        int[] s = new int[256];
        for (int i = 0; i < 256; i++) s[i] = i;
        int j = 0;
        for (int i = 0; i < 256; i++) { j = (j + s[i] + (k[i % k.length] & 0xff)) & 0xff; int t = s[i]; s[i] = s[j]; s[j] = t; }
        int a = 0, b = 0;
        byte[] out = new byte[d.length];
        for (int n = 0; n < sk + d.length; n++) {
            a = (a + 1) & 0xff; b = (b + s[a]) & 0xff; int t = s[a]; s[a] = s[b]; s[b] = t;
            int ks = s[(s[a] + s[b]) & 0xff];
            if (n >= sk) out[n - sk] = (byte) (d[n - sk] ^ ks);
        }
        return tuple(out);
    }

    @TLAPlusOperator(identifier = "MD4", module = "RdpPrims", warn = false)
    public static Value md4(Value data) {
        return tuple(md4bytes(bytes(data)));
    }

    /** simple (1:1) upper-casing of a sequence of Unicode code points */
    @TLAPlusOperator(identifier = "UpperSimple", module = "RdpPrims", warn = false)
    public static Value upper(Value cps) {
        TupleValue t = (TupleValue) cps.toTuple();
        Value[] e = new Value[t.size()];
        for (int i = 0; i < e.length; i++) e[i] = IntValue.gen(Character.toUpperCase(((IntValue) t.elems[i]).val));
        return new TupleValue(e);
    }

    // ---- MD4, RFC 1320
    static int rotl(int x, int n) { return (x << n) | (x >>> (32 - n)); }

    static byte[] md4bytes(byte[] msg) {
        int n = msg.length;
        int padded = ((n + 8) / 64 + 1) * 64;
        byte[] m = new byte[padded];
        System.arraycopy(msg, 0, m, 0, n);
        m[n] = (byte) 0x80;
        long bits = (long) n * 8;
        for (int i = 0; i < 8; i++) m[padded - 8 + i] = (byte) (bits >>> (8 * i));
        int a = 0x67452301, b = 0xefcdab89, c = 0x98badcfe, d = 0x10325476;
        int[] x = new int[16];
        for (int off = 0; off < padded; off += 64) {
            for (int i = 0; i < 16; i++)
                x[i] = (m[off + 4 * i] & 0xff) | ((m[off + 4 * i + 1] & 0xff) << 8) | ((m[off + 4 * i + 2] & 0xff) << 16) | ((m[off + 4 * i + 3] & 0xff) << 24);
            int aa = a, bb = b, cc = c, dd = d;
            int[] s1 = {3, 7, 11, 19};
            for (int i = 0; i < 16; i++) {
                int f = (b & c) | (~b & d);
                int t = rotl(a + f + x[i], s1[i % 4]);
                a = d; d = c; c = b; b = t;
            }
            int[] s2 = {3, 5, 9, 13};
            int[] o2 = {0, 4, 8, 12, 1, 5, 9, 13, 2, 6, 10, 14, 3, 7, 11, 15};
            for (int i = 0; i < 16; i++) {
                int g = (b & c) | (b & d) | (c & d);
                int t = rotl(a + g + x[o2[i]] + 0x5a827999, s2[i % 4]);
                a = d; d = c; c = b; b = t;
            }
            int[] s3 = {3, 9, 11, 15};
            int[] o3 = {0, 8, 4, 12, 2, 10, 6, 14, 1, 9, 5, 13, 3, 11, 7, 15};
            for (int i = 0; i < 16; i++) {
                int hh = b ^ c ^ d;
                int t = rotl(a + hh + x[o3[i]] + 0x6ed9eba1, s3[i % 4]);
                a = d; d = c; c = b; b = t;
            }
            a += aa; b += bb; c += cc; d += dd;
        }
        byte[] out = new byte[16];
        int[] r = {a, b, c, d};
        for (int i = 0; i < 4; i++) for (int k = 0; k < 4; k++) out[4 * i + k] = (byte) (r[i] >>> (8 * k));
        return out;
    }
}
