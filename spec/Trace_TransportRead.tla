----------------------- MODULE Trace_TransportRead -----------------------
(* Trace validation of tpkt::Client::read / x224::Client::read runs against  *)
(* TransportRead: each recorded call appends its result to `results` and     *)
(* moves `pos` to the number of bytes the implementation consumed from the   *)
(* stream; the module's own invariants ExactFrames and NoOverConsumption     *)
(* (the reference deframer) are then evaluated on every state by TLC.        *)
EXTENDS TransportRead, TraceLib

VARIABLE l, layer
tvars == <<rvars, l, layer>>
TEmpty == {}

IsEvent(e) == l <= Len(Rec) /\ Rec[l].ev = e /\ l' = l + 1

TInit == /\ l = 1 /\ layer = "tpkt" /\ buf = <<>> /\ pos = 0 /\ phase = "idle" /\ need = 0 /\ got = <<>>
         /\ h = [kind |-> "none", sec |-> 0] /\ results = <<>>

TReset == /\ IsEvent("reset")
          /\ buf' = Rec[l].stream /\ layer' = Rec[l].layer /\ pos' = 0 /\ phase' = "idle" /\ need' = 0 /\ got' = <<>>
          /\ h' = [kind |-> "none", sec |-> 0] /\ results' = <<>>

\* at the X.224 layer the implementation returns slow-path user data without the 02 F0 80 header;
\* the generated slow-path frames carry that header, so it is put back before comparing
Payload(e) == IF layer = "x224" /\ e.kind = "raw" THEN <<2, 240, 128>> \o e.payload ELSE e.payload

TRead == /\ IsEvent("read")
         /\ LET e == Rec[l] IN
            /\ e.res \in {"ok", "err"}          \* a panic or hang is no behaviour of the reader
            /\ phase = "idle"
            /\ IF e.res = "ok"
               THEN /\ results' = Append(results, [res |-> "ok", kind |-> e.kind, sec |-> e.sec, payload |-> Payload(e), consumed |-> e.consumed])
                    /\ phase' = "idle"
               ELSE IF layer = "x224" /\ e.ek = "InvalidConst"      \* not an X.224 data TPDU: refused, the framing stays in step
               THEN /\ results' = Append(results, [res |-> "err", why |-> "x224", consumed |-> e.consumed])
                    /\ phase' = "idle"
               ELSE /\ results' = Append(results, [res |-> "err", why |-> (IF e.ek = "InvalidSize" THEN "short" ELSE "eof"), consumed |-> e.consumed])
                    /\ phase' = "dead"
            /\ pos' = e.consumed
            /\ UNCHANGED <<buf, need, got, h, layer>>

TNext == TReset \/ TRead
TSpec == TInit /\ [][TNext]_tvars

\* ExactFrames, aware of the layer: at the X.224 layer a slow-path frame whose payload does not start with the data
\* header 02 F0 80 is refused after having been consumed whole, and the frames that follow are still returned exactly
ExactFramesL ==
  LET ref == RefFrames(buf) IN
  /\ Len(results) <= Len(ref)
  /\ \A i \in 1..Len(results) :
        LET r == ref[i]
            notData == layer = "x224" /\ r.res = "ok" /\ r.kind = "raw" /\ ~X224Strip(r.payload).ok IN
        IF notData                \* refused, or (the property does not say which header bytes are checked) accepted with the
                                  \* three header bytes stripped - in both cases the frame is consumed whole
        THEN \/ results[i] = [res |-> "err", why |-> "x224", consumed |-> r.consumed]
             \/ /\ results[i].res = "ok" /\ results[i].kind = "raw" /\ results[i].consumed = r.consumed
                /\ Rest(results[i].payload, 4) = Rest(r.payload, 4)
        ELSE StripWhy(results[i]) = StripWhy(r)

\* a rejected frame must not have consumed anything beyond its header
RejectConsumes == \A i \in 1..Len(results) :
   (results[i].res = "err" /\ results[i].why = "short") =>
      LET ref == RefFrames(buf) IN i <= Len(ref) /\ ref[i].res = "err" /\ ref[i].why = "short" /\ results[i].consumed = ref[i].consumed
=============================================================================
