------------------------------ MODULE TraceAct ------------------------------
(* Trace actions of the activation / input / shutdown calls, shared by        *)
(* Trace_Activation (scripted stream) and Trace_Rdp (whole connection over    *)
(* TLS).  Server messages and client messages are the abstract messages the   *)
(* wire grammar (pass A, Decode.tla) obtained from the recorded bytes.        *)
EXTENDS Activation, TraceLib

VARIABLE l

TEmpty == {}

IsEvent(e) == l <= Len(Rec) /\ Rec[l].ev = e /\ l' = l + 1

\* projection of a decoded client frame onto the message algebra of Activation
StripTime(ev) == IF ev.t = "mouse" THEN [t |-> "mouse", flags |-> ev.flags, x |-> ev.x, y |-> ev.y]
                 ELSE [t |-> "scancode", flags |-> ev.flags, code |-> ev.code]
ProjC(d) ==
  IF ~d.ok THEN [kind |-> "Malformed", why |-> d.why]
  ELSE IF d.kind \in {"ConfirmActive", "Sync", "FontList"}
       THEN [initiator |-> d.initiator, channel |-> d.channel, pduSource |-> d.pduSource, kind |-> d.kind, shareId |-> d.shareId]
  ELSE IF d.kind = "Control"
       THEN [initiator |-> d.initiator, channel |-> d.channel, pduSource |-> d.pduSource, kind |-> d.kind, shareId |-> d.shareId, action |-> d.action]
  ELSE IF d.kind = "Input"
       THEN [initiator |-> d.initiator, channel |-> d.channel, pduSource |-> d.pduSource, kind |-> d.kind, shareId |-> d.shareId,
             events |-> [k \in 1..Len(d.events) |-> StripTime(d.events[k])]]
  ELSE [kind |-> d.kind]

Writes(e) == [k \in 1..Len(e.w) |-> ProjC(Dec[e.w[k]])]

TSrv == /\ IsEvent("srv")
        /\ LET e == Rec[l]
               m == Dec[e.sb] IN
           /\ m.ok                       \* the reference server's bytes are a well-formed PDU
           /\ e.res \in {"ok", "err"}    \* a panic / hang has no spec action; ok vs err is left free ...
           /\ (m.kind # "Train" /\ Letter(m) = "ULT") => (e.res = "err" /\ e.ek = "Disconnect")   \* ... except that the end of the session must be reported as such
           /\ IF m.kind = "Train" THEN SrvTrain([k \in 1..Len(m.items) |-> m.items[k] @@ [channel |-> m.channel]]) ELSE Srv(m)
           /\ act' = e.state
           /\ out' = Writes(e)
           /\ cbs' = e.cb
           /\ e.left = 0                 \* exactly the frame was consumed

\* a hostile (faulted) server message: never a panic / hang / oversized allocation; either the client leaves it
\* without effect (state, wire, callbacks untouched - whether it answered Ok or Err), or it treats it as SOME
\* well-formed message, i.e. the step is Srv(m) for a message m of the alphabet with the parameters observed
HostileCandidates(e) ==
  LET w == Writes(e)
      sid == IF Len(w) >= 1 /\ w[1].kind = "ConfirmActive" THEN w[1].shareId ELSE <<>> IN
       { [kind |-> "DemandActive", shareId |-> sid], [kind |-> "Sync"], [kind |-> "FontMap"], [kind |-> "ErrInfo"],
         [kind |-> "DeactivateAll"], [kind |-> "UnknownData", t2 |-> 0] }
  \cup { [kind |-> "Control", action |-> a] : a \in 1..4 }
  \cup { [kind |-> "FastPath", updates |-> IF e.cb = <<>> THEN <<[t |-> "Other", code |-> 0]>> ELSE <<[t |-> "Bitmap"]>>, rects |-> e.cb] }
\* every nested 16-bit length field may legitimately ask for a buffer of up to 64 KiB before the read fails;
\* four nesting levels are the deepest the PDU grammar has
AllocBound(e) == e.peak <= 4 * 65536 + 64 * e.sent

THostile == /\ IsEvent("hostile")
            /\ LET e == Rec[l] IN
               /\ e.res \in {"ok", "err"}
               /\ AllocBound(e)
               /\ \/ /\ e.state = act /\ Writes(e) = <<>> /\ e.cb = <<>>
                     /\ UNCHANGED <<act, shareId, userId, obs>> /\ out' = <<>> /\ cbs' = <<>> /\ inres' = "none"
                  \/ \E m \in HostileCandidates(e) :
                        /\ Srv(m) /\ act' = e.state /\ out' = Writes(e) /\ cbs' = e.cb

TInput == /\ IsEvent("input")
          /\ LET e == Rec[l] IN
             /\ Input(e.e, e.api = "try_write")
             /\ act' = e.state
             /\ out' = Writes(e)
             /\ e.res = (IF inres' = "refused" THEN "err" ELSE "ok")

TShutdown == /\ IsEvent("shutdown")
             /\ Shutdown
             /\ out' = Writes(Rec[l])
             /\ Rec[l].res = "ok"

=============================================================================
