----------------------------- MODULE NtlmSession -----------------------------
(* NTLM session security as a transition system (C16): two directions, each  *)
(* with its own cipher stream position and sequence number.  Send(d, m)      *)
(* seals with the sender's context and the receiver, holding the mirrored    *)
(* context, unseals; Tamper(d, m, t) lets the network alter a sealed message *)
(* (t ranges over bit positions / truncations) and the receiver must reject. *)
EXTENDS Ntlm

CONSTANTS Key,       \* exported session key of the model
          Msgs,      \* plaintexts the parties may send
          MaxMsgs

VARIABLES snd,       \* snd[d] : sender context of direction d ("c2s", "s2c")
          rcv,       \* rcv[d] : receiver context of direction d
          count,
          last       \* observation of the last step: [sent, got, ok]

svars == <<snd, rcv, count, last>>
Dirs == {"c2s", "s2c"}

SInit == /\ snd = [d \in Dirs |-> Ctx(Key, d = "c2s")]
         /\ rcv = [d \in Dirs |-> Ctx(Key, d = "c2s")]
         /\ count = 0 /\ last = [sent |-> <<>>, got |-> <<>>, ok |-> TRUE, tampered |-> FALSE]

Send(d, m) ==
  /\ count < MaxMsgs
  /\ LET w == Wrap(snd[d], m)
         u == Unwrap(rcv[d], w.token) IN
     /\ snd' = [snd EXCEPT ![d] = w.ctx]
     /\ rcv' = [rcv EXCEPT ![d] = IF u.ok THEN u.ctx ELSE @]
     /\ last' = [sent |-> m, got |-> IF u.ok THEN u.plain ELSE <<>>, ok |-> u.ok, tampered |-> FALSE]
  /\ count' = count + 1

\* the network flips bit `bit` of the sealed message; the receiver's context is unchanged by a rejected message
Tamper(d, m, bit) ==
  /\ count < MaxMsgs
  /\ LET w == Wrap(snd[d], m)
         i == 1 + (bit \div 8)
         p == 2 ^ (bit % 8)
         t == [w.token EXCEPT ![i] = IF (@ \div p) % 2 = 1 THEN @ - p ELSE @ + p]
         u == Unwrap(rcv[d], t) IN
     /\ bit < 8 * Len(w.token)
     /\ last' = [sent |-> m, got |-> IF u.ok THEN u.plain ELSE <<>>, ok |-> u.ok, tampered |-> TRUE]
     /\ UNCHANGED <<snd, rcv>>
  /\ count' = count + 1

SNext == \E d \in Dirs, m \in Msgs : Send(d, m) \/ \E bit \in 0..255 : Tamper(d, m, bit)
SSpec == SInit /\ [][SNext]_svars

\* sealed messages of a conforming peer unseal to the original plaintext
RoundTrip == ~last.tampered => (last.ok /\ last.got = last.sent)
\* any alteration is rejected and yields no plaintext
TamperRejected == last.tampered => (~last.ok /\ last.got = <<>>)
\* cipher state and sequence numbers carry over and mirror each other
Mirrored == \A d \in Dirs : snd[d].ks = rcv[d].ks /\ snd[d].seq = rcv[d].seq
Continuity == [][\A d \in Dirs : snd'[d] # snd[d] => (snd'[d].seq = snd[d].seq + 1 /\ snd'[d].ks > snd[d].ks)]_svars
=============================================================================
