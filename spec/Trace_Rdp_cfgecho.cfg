SPECIFICATION TSpecCfgEcho
CONSTANTS
  ShareIds <- TEmpty
  UserIds <- TEmpty
  Coords <- TEmpty
  RectSeqs <- TEmpty
  Cfgs <- TEmpty
  Replies <- TEmpty
  Idents <- TEmpty
INVARIANTS SelectedWasOffered NoCredBeforeTls OnlyNegoOnRaw MustSucceed MandatedPrefix JoinsOncePerChannel ConnIdsEcho ModeTable WindowAgreement InputGated IdsEcho
PROPERTIES SilentAfterRefusal OneFinalisePerDA
POSTCONDITION Accepted
CHECK_DEADLOCK FALSE
