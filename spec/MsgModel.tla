------------------------------ MODULE MsgModel ------------------------------
(* The library's message algebra (src/model/data.rs) as a layout language with *)
(* a reference semantics: Write (bytes), Length, Read (value and bytes used).  *)
(* Shapes:                                                                     *)
(*   [t |-> "u8"] [t |-> "u16", e] [t |-> "u32", e]   e in {"le", "be"}         *)
(*   [t |-> "bytes", n]      byte block of fixed size n > 0                      *)
(*   [t |-> "rest"]          byte block that takes whatever is left             *)
(*   [t |-> "check", s, v]   constant-checked field: reading another value fails*)
(*   [t |-> "comp", fields]  record; a field is [name, s, opt] with opt          *)
(*        [k |-> "none"] | [k |-> "size", target, add]  this integer field gives *)
(*        the byte size (value + add) of the later field `target'                *)
(*        | [k |-> "skip", target, mask]  later field `target' is absent when    *)
(*        (value & mask) = 0                                                     *)
(*   [t |-> "trame", items]  sequence of shapes                                  *)
(*   [t |-> "opt", s]        optional trailing field (present iff it can be read)*)
(*   [t |-> "arr", s]        elements until the input is exhausted               *)
(* Values: integers (u32 as 4-byte big-endian-independent lists <<b0..b3>> in   *)
(* wire order), byte sequences, sequences of field values; opt: <<>> or <<v>>.  *)
EXTENDS Bytes, Bitwise

IsInt(s) == s.t \in {"u8", "u16", "u32"}
IntVal(s, v) == IF s.t = "u32" THEN (IF s.e = "le" THEN Small32LE(v, 1) ELSE Small32BE(v, 1)) ELSE v

RECURSIVE Write(_, _)
RECURSIVE WriteFields(_, _, _, _)
Write(s, v) ==
  CASE s.t = "u8"    -> <<v>>
    [] s.t = "u16"   -> IF s.e = "le" THEN EncU16LE(v) ELSE EncU16BE(v)
    [] s.t = "u32"   -> v
    [] s.t = "bytes" -> v
    [] s.t = "rest"  -> v
    [] s.t = "check" -> Write(s.s, s.v)
    [] s.t = "trame" -> Concat([k \in 1..Len(s.items) |-> Write(s.items[k], v[k])])
    [] s.t = "opt"   -> IF v = <<>> THEN <<>> ELSE Write(s.s, v[1])
    [] s.t = "arr"   -> Concat([k \in 1..Len(v) |-> Write(s.s, v[k])])
    [] s.t = "comp"  -> WriteFields(s.fields, v, 1, {})

\* the inner integer of a (possibly constant-checked) field
Inner(f, val) == IF f.s.t = "check" THEN IntVal(f.s.s, f.s.v) ELSE IntVal(f.s, val)
SkipTriggered(f, val) == f.opt.k = "skip" /\ (Inner(f, val) & f.opt.mask) = 0

WriteFields(fs, v, k, skipped) ==
  IF k > Len(fs) THEN <<>>
  ELSE IF fs[k].name \in skipped THEN WriteFields(fs, v, k + 1, skipped)
  ELSE Write(fs[k].s, v[k]) \o WriteFields(fs, v, k + 1, IF SkipTriggered(fs[k], v[k]) THEN skipped \cup {fs[k].opt.target} ELSE skipped)

Length(s, v) == Len(Write(s, v))

\* Read: [ok, v, used] ; b = available bytes
RECURSIVE Read(_, _)
RECURSIVE ReadFields(_, _, _, _, _, _)
RECURSIVE ReadItems(_, _, _, _)
RECURSIVE ReadArr(_, _, _)
Default(s) == CASE s.t = "u8" -> 0 [] s.t = "u16" -> 0 [] s.t = "u32" -> <<0, 0, 0, 0>> [] s.t = "bytes" -> Zeros(s.n) [] s.t = "rest" -> <<>>
                [] s.t = "check" -> s.v [] s.t = "opt" -> <<>> [] s.t = "arr" -> <<>> [] OTHER -> <<>>
Read(s, b) ==
  CASE s.t = "u8"    -> IF Len(b) < 1 THEN Bad("eof") ELSE [ok |-> TRUE, v |-> b[1], used |-> 1]
    [] s.t = "u16"   -> IF Len(b) < 2 THEN Bad("eof") ELSE [ok |-> TRUE, v |-> IF s.e = "le" THEN U16LE(b, 1) ELSE U16BE(b, 1), used |-> 2]
    [] s.t = "u32"   -> IF Len(b) < 4 THEN Bad("eof") ELSE [ok |-> TRUE, v |-> Sub(b, 1, 4), used |-> 4]
    [] s.t = "bytes" -> IF Len(b) < s.n THEN Bad("eof") ELSE [ok |-> TRUE, v |-> Sub(b, 1, s.n), used |-> s.n]
    [] s.t = "rest"  -> [ok |-> TRUE, v |-> b, used |-> Len(b)]
    [] s.t = "check" -> LET r == Read(s.s, b) IN IF ~r.ok THEN r ELSE IF r.v # s.v THEN Bad("constant") ELSE r
    [] s.t = "trame" -> ReadItems(s.items, b, 1, <<>>)
    [] s.t = "opt"   -> LET r == Read(s.s, b) IN IF r.ok THEN [ok |-> TRUE, v |-> <<r.v>>, used |-> r.used] ELSE [ok |-> TRUE, v |-> <<>>, used |-> 0]
    [] s.t = "arr"   -> ReadArr(s.s, b, <<>>)
    [] s.t = "comp"  -> ReadFields(s.fields, b, 1, <<>>, {}, <<>>)

ReadItems(items, b, k, acc) ==
  IF k > Len(items) THEN [ok |-> TRUE, v |-> acc, used |-> 0]
  ELSE LET r == Read(items[k], b) IN IF ~r.ok THEN r
       ELSE LET t == ReadItems(items, Rest(b, r.used + 1), k + 1, Append(acc, r.v)) IN
            IF ~t.ok THEN t ELSE [ok |-> TRUE, v |-> t.v, used |-> r.used + t.used]

ReadArr(s, b, acc) ==
  IF b = <<>> THEN [ok |-> TRUE, v |-> acc, used |-> 0]
  ELSE LET r == Read(s, b) IN
       IF ~r.ok \/ r.used = 0 THEN [ok |-> TRUE, v |-> acc, used |-> 0]     \* a partial last element is dropped
       ELSE LET t == ReadArr(s, Rest(b, r.used + 1), Append(acc, r.v)) IN [ok |-> TRUE, v |-> t.v, used |-> r.used + t.used]

\* sizes: sequence of [target, n]
SizeOf(sizes, name) == LET S == {k \in 1..Len(sizes) : sizes[k].target = name} IN IF S = {} THEN -1 ELSE sizes[CHOOSE k \in S : \A j \in S : j <= k].n
ReadFields(fs, b, k, acc, skipped, sizes) ==
  IF k > Len(fs) THEN [ok |-> TRUE, v |-> acc, used |-> 0]
  ELSE IF fs[k].name \in skipped THEN
       LET t == ReadFields(fs, b, k + 1, Append(acc, Default(fs[k].s)), skipped, sizes) IN t
  ELSE LET n == SizeOf(sizes, fs[k].name)
           avail == IF n >= 0 THEN (IF Len(b) < n THEN <<-1>> ELSE Sub(b, 1, n)) ELSE b IN
       IF avail = <<-1>> THEN Bad("eof")
       ELSE LET r == Read(fs[k].s, avail) IN IF ~r.ok THEN r
       ELSE LET used == IF n >= 0 THEN n ELSE r.used
                f == fs[k]
                sk == IF SkipTriggered(f, r.v) THEN skipped \cup {f.opt.target} ELSE skipped
                sz == IF f.opt.k = "size" THEN Append(sizes, [target |-> f.opt.target, n |-> Inner(f, r.v) + f.opt.add]) ELSE sizes
                t == ReadFields(fs, Rest(b, used + 1), k + 1, Append(acc, r.v), sk, sz) IN
            IF ~t.ok THEN t ELSE [ok |-> TRUE, v |-> t.v, used |-> used + t.used]
=============================================================================
