----------------------------- MODULE Gen_Variants -----------------------------
(* Structured variants of server PDUs for the hostile-input properties (C06): *)
(* not byte corruptions but well-framed messages whose ENUMERATED or SIZE      *)
(* fields take every value the protocol defines plus their neighbours - error  *)
(* info codes (MS-RDPBCGR 2.2.5.1.1), control actions, data PDU types,         *)
(* fast-path update codes with every fragmentation / compression bit pattern,  *)
(* bitmap rectangles over the product of depths, sizes, flags and data         *)
(* lengths.  A parser bug behind one particular enumerant or one particular    *)
(* combination of two fields is out of reach of single-byte faults and of      *)
(* random sampling; it is in reach of this catalogue.                          *)
EXTENDS Naturals, Sequences, FiniteSets, TLC, Json, IOUtils, SequencesExt

LE32(n) == <<n % 256, (n \div 256) % 256, (n \div 65536) % 256, (n \div 16777216) % 256>>

\* defined ranges of errorInfo with their neighbours
ErrInfoCodes == (0..40) \cup (250..280) \cup (1020..1050) \cup (4290..4510) \cup {65535, 65536, 16777215}
ErrInfo == { [l |-> "ERRINFO", code |-> LE32(c)] : c \in ErrInfoCodes } \cup { [l |-> "ERRINFO", code |-> <<255, 255, 255, 255>>], [l |-> "ERRINFO", code |-> <<0, 0, 0, 128>>] }

Controls == { [l |-> "CTLOTHER", action |-> a] : a \in (0..9) \cup {255, 256, 32767, 32768, 65535} }
DataTypes == { [l |-> "UNKDATA", t2 |-> t] : t \in 0..255 }

\* fast-path updates other than bitmaps: every update code x fragmentation x compression bits, three body sizes
Body(n) == [i \in 1..n |-> (i * 11) % 256]
FpOthers == { [l |-> "FPOTHER", long |-> lg, updates |-> << [t |-> "Other", code |-> c + 16 * fr + 64 * cp, data |-> Body(n)] >>] :
                c \in 0..15, fr \in 0..3, cp \in 0..3, n \in {0, 1, 6}, lg \in BOOLEAN }
\* an empty / tiny update in front of a bitmap update: the one must not disturb the other
FpMixed == { [l |-> "FPBMP", long |-> FALSE, updates |-> << [t |-> "Other", code |-> c, data |-> Body(n)],
                                                           [t |-> "Bitmap", rects |-> << [l |-> 1, t |-> 2, r |-> 3, b |-> 4, w |-> 2, h |-> 2, bpp |-> 16, flags |-> 0, data |-> Body(8)] >>] >>] :
               c \in {3, 5, 6, 8, 10, 11}, n \in {0, 1, 2} }

\* bitmap rectangles: depth x width x height x flags x data length (compressed / not, with / without the compression header)
Rects == { [l |-> 0, t |-> 0, r |-> w, b |-> h, w |-> w, h |-> h, bpp |-> bpp, flags |-> fl, data |-> Body(n)] :
             bpp \in {0, 1, 4, 7, 8, 15, 16, 24, 32, 33, 65535}, w \in {0, 1, 2, 65535}, h \in {0, 1, 65535}, fl \in {0, 1, 1024, 1025, 65535}, n \in {0, 1, 8, 9} }
FpRects == { [l |-> "FPBMP", long |-> (r.bpp % 2 = 0), updates |-> << [t |-> "Bitmap", rects |-> <<r>>] >>] : r \in Rects }
\* several rectangles, some of them empty, in one update
FpMulti == { [l |-> "FPBMP", long |-> FALSE, updates |-> << [t |-> "Bitmap", rects |-> << [l |-> 0, t |-> 0, r |-> 0, b |-> 0, w |-> 1, h |-> 1, bpp |-> 32, flags |-> fl, data |-> Body(n1)],
                                                                                              [l |-> 5, t |-> 5, r |-> 6, b |-> 6, w |-> 2, h |-> 2, bpp |-> 16, flags |-> 0, data |-> Body(n2)] >>] >>] :
               fl \in {0, 1, 1024, 1025}, n1 \in {0, 4}, n2 \in {0, 8} }

All == ErrInfo \cup Controls \cup DataTypes \cup FpOthers \cup FpMixed \cup FpRects \cup FpMulti

VARIABLE done
Init == done = ndJsonSerialize(IOEnv.VARIANTS, SetToSeq(All))
Next == UNCHANGED done
=============================================================================
