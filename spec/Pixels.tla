------------------------------- MODULE Pixels -------------------------------
(* Pixel formats: exact 5-6-5 -> 8-8-8 widening, BGRA byte order, raw        *)
(* (uncompressed) bottom-up bitmaps at 16 and 32 bpp, top-down output.       *)
EXTENDS Bytes

\* round(255 * v / maxv) in integer arithmetic
Widen(v, maxv) == (2 * 255 * v + maxv) \div (2 * maxv)
\* a 5-6-5 pixel as 4 bytes blue, green, red, alpha
Bgra565(p) == << Widen(p % 32, 31), Widen((p \div 32) % 64, 63), Widen((p \div 2048) % 32, 31), 255 >>

\* top-down pixel list -> output bytes
Out565(pixels) == [k \in 1..(4 * Len(pixels)) |-> Bgra565(pixels[((k - 1) \div 4) + 1])[((k - 1) % 4) + 1]]

\* raw 16 bpp data (bottom-up rows, little endian) -> bottom-up stream of pixels; Bad when the size is wrong
Raw16(data, w, h) == IF Len(data) # 2 * w * h THEN Bad("raw 16 bpp: data size # width * height * 2")
                     ELSE [ok |-> TRUE, stream |-> [k \in 1..(w * h) |-> data[2 * k - 1] + 256 * data[2 * k]]]
\* raw 32 bpp data (bottom-up rows of BGRA/BGRX) -> top-down bytes
Raw32(data, w, h) == IF Len(data) # 4 * w * h THEN Bad("raw 32 bpp: data size # width * height * 4")
                     ELSE [ok |-> TRUE, bytes |-> [k \in 1..(4 * w * h) |->
                              LET row == (k - 1) \div (4 * w)  col == (k - 1) % (4 * w) IN data[(h - 1 - row) * 4 * w + col + 1]]]
=============================================================================
