---------------------------- MODULE TransportWrite ----------------------------
(* Write side of the framing layer as a step machine (C14); see Transport.tla. *)
EXTENDS Transport

CONSTANTS Payloads,       \* payloads the client may be asked to send
          WriteLoop       \* "all" (required) | "once" (a single write call)

(***************************************************************************)
(* Write side.                                                             *)
(***************************************************************************)
VARIABLES wphase,   \* idle | writing | done
          frame,    \* the serialised frame being written
          off,      \* bytes of it accepted by the stream so far
          outbuf,   \* everything the stream accepted, in order
          wres,     \* none | ok | err
          before,   \* outbuf when the write started
          zero      \* the stream answered Ok(0) at least once during this write

wvars == <<wphase, frame, off, outbuf, wres, before, zero>>

WInit == wphase = "idle" /\ frame = <<>> /\ off = 0 /\ outbuf = <<>> /\ wres = "none" /\ before = <<>> /\ zero = FALSE

Serialise(layer, p) ==
  /\ wphase = "idle"
  /\ before' = outbuf /\ zero' = FALSE
  /\ IF TooLarge(layer, Len(p))
     THEN wres' = "err" /\ wphase' = "done" /\ frame' = <<>> /\ off' = 0 /\ UNCHANGED outbuf     \* RefuseTooLarge
     ELSE wres' = "none" /\ wphase' = "writing" /\ frame' = FrameOf(layer, p) /\ off' = 0 /\ UNCHANGED outbuf

\* the stream accepts k of the offered bytes
StreamAccept(k) ==
  /\ wphase = "writing" /\ k \in 0..(Len(frame) - off)
  /\ outbuf' = outbuf \o Sub(frame, off + 1, k) /\ off' = off + k
  /\ zero' = (zero \/ (k = 0 /\ off < Len(frame)))
  /\ IF off + k = Len(frame) THEN wres' = "ok" /\ wphase' = "done"
     ELSE IF WriteLoop = "once" THEN wres' = "ok" /\ wphase' = "done"          \* deviation: short write goes unnoticed
     ELSE IF k = 0 THEN (\/ wres' = "err" /\ wphase' = "done"                  \* Ok(0): give up with an error ...
                         \/ wres' = "none" /\ wphase' = "writing")             \* ... or try again (both allowed)
     ELSE wres' = "none" /\ wphase' = "writing"
  /\ UNCHANGED <<frame, before>>

StreamFail ==
  /\ wphase = "writing"
  /\ wres' = "err" /\ wphase' = "done" /\ UNCHANGED <<frame, off, outbuf, before, zero>>

\* next message: the model forgets what the stream holds (the property is per message and the
\* writer keeps no state between messages), which keeps the model finite without a bound
Again == wphase = "done" /\ wphase' = "idle" /\ wres' = "none" /\ outbuf' = <<>> /\ before' = <<>> /\ UNCHANGED <<frame, off, zero>>

WNext == \/ \E l \in {"link", "tpkt", "x224"}, p \in Payloads : Serialise(l, p)
         \/ \E k \in 0..8 : StreamAccept(k)
         \/ StreamFail \/ Again
WSpec == WInit /\ [][WNext]_wvars

\* C14: success means every byte of exactly one frame reached the stream, once, in order
CompleteOrError == wres = "ok" => outbuf = before \o frame
\* whatever happened, the stream only ever saw a prefix of the frame (no garbage, no duplicates)
OnlyFramePrefix == wphase \in {"writing", "done"} => outbuf = before \o Sub(frame, 1, off)
=============================================================================
