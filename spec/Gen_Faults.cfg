INIT Init
NEXT Next
CONSTANT Full = FALSE
CHECK_DEADLOCK FALSE
