------------------------------ MODULE RdpPrims ------------------------------
(* Cryptographic and text primitives evaluated by TLC through Java module    *)
(* overrides (spec/overrides/RdpPrims.java): JDK MessageDigest / Mac for MD5 *)
(* and HMAC-MD5, hand-written MD4 (RFC 1320) and RC4.  The TLA+ bodies below *)
(* are placeholders that TLC never evaluates when the override is loaded;    *)
(* Loaded is FALSE without it, and every user of the module ASSUMEs Loaded.  *)
EXTENDS Naturals, Sequences

MD4(data) == <<>>
MD5(data) == <<>>
HMAC_MD5(key, data) == <<>>
RC4(key, skip, data) == <<>>     \* data XOR keystream(key)[skip+1 .. skip+Len(data)]
UpperSimple(cps) == cps

\* known answers: RFC 1320 "abc", RFC 1321 "abc", RFC 2202 test 2, the repository's rc4 vector
Loaded == /\ MD4(<<97, 98, 99>>) = <<164, 72, 1, 122, 175, 33, 216, 82, 95, 193, 10, 232, 122, 166, 114, 157>>
          /\ MD4(<<102, 111, 111>>) = <<10, 198, 112, 12, 73, 29, 112, 251, 134, 80, 148, 11, 28, 161, 228, 178>>
          /\ MD5(<<97, 98, 99>>) = <<144, 1, 80, 152, 60, 210, 79, 176, 214, 150, 63, 125, 40, 225, 127, 114>>
          /\ HMAC_MD5(<<74, 101, 102, 101>>, <<119, 104, 97, 116, 32, 100, 111, 32, 121, 97, 32, 119, 97, 110, 116, 32, 102, 111, 114, 32, 110, 111, 116, 104, 105, 110, 103, 63>>)
               = <<117, 12, 120, 62, 106, 176, 181, 3, 234, 168, 110, 49, 10, 93, 183, 56>>
          /\ RC4(<<102, 111, 111>>, 0, <<98, 97, 114>>) = <<201, 67, 159>>
          /\ RC4(<<102, 111, 111>>, 3, <<98, 97, 114>>) = <<75, 169, 19>>
          /\ UpperSimple(<<97, 233, 1103>>) = <<65, 201, 1071>>
=============================================================================
