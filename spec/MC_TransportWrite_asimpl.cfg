SPECIFICATION WSpec
CONSTANTS
  Payloads <- MCPayloads
  MaxFrame = 9
  WriteLoop = "once"
INVARIANTS CompleteOrError OnlyFramePrefix
CHECK_DEADLOCK FALSE
