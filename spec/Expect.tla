-------------------------------- MODULE Expect --------------------------------
(* Expectation pass for pure functions: every case of the input file is       *)
(* evaluated with the reference operator of the specification and written     *)
(* back with its expected value (or the reason it is not conformant).         *)
EXTENDS Codec, Json, IOUtils, TLC

Cases == ndJsonDeserialize(IOEnv.CASES)
One(c) == IF c.f = "decompress"
          THEN LET d == Decompress(c.w, c.h, c.bpp, c.comp, c.data) IN
               IF d.ok THEN [ok |-> TRUE, bytes |-> d.bytes] ELSE [ok |-> FALSE, why |-> d.why]
          ELSE [ok |-> FALSE, why |-> "unknown function"]
VARIABLE x
Init == x = ndJsonSerialize(IOEnv.EXPECTED, [k \in 1..Len(Cases) |-> One(Cases[k])])
Next == UNCHANGED x
=============================================================================
