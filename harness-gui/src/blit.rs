//! C19 driver: the real fast_bitmap_transfer on a canary-guarded window buffer.
use crate::gui::drive;
use rdp::core::event::BitmapEvent;
use serde_json::{json, Value};
use std::io::{BufRead, BufReader, Write};
use std::panic::{catch_unwind, AssertUnwindSafe};

const CANARY: u32 = 0xC0FFEE11;
const GUARD: usize = 64;

fn bg(p: usize) -> u32 { 0x7000_0000 + p as u32 }

pub fn run_case(c: &Value) -> Value {
    let g = |k: &str| c.get(k).and_then(|x| x.as_u64()).unwrap_or(0) as usize;
    let (wd, hd, l, t, r, b, w, h) = (g("Wd"), g("Hd"), g("l"), g("t"), g("r"), g("b"), g("w"), g("h"));
    let bpp = c.get("bpp").and_then(|x| x.as_u64()).unwrap_or(32) as u16;
    let comp = c.get("comp").and_then(|x| x.as_bool()).unwrap_or(false);
    let dlen_delta = c.get("ddelta").and_then(|x| x.as_i64()).unwrap_or(0);
    // image data: a distinct value per source pixel
    let data: Vec<u8> = if let Some(d) = c.get("data").and_then(|x| x.as_array()) { d.iter().map(|x| x.as_u64().unwrap_or(0) as u8).collect() } else {
        let want = (w * h * (bpp as usize / 8)) as i64 + dlen_delta;
        (0..want.max(0) as usize).map(|i| ((i * 37 + 11) % 251) as u8).collect()
    };
    let mk = || BitmapEvent { dest_left: l as u16, dest_top: t as u16, dest_right: r as u16, dest_bottom: b as u16, width: w as u16, height: h as u16, bpp, is_compress: comp, data: data.clone() };
    // what the decoder makes of it (the image the painter sees)
    let decoded: Option<Vec<u32>> = match catch_unwind(AssertUnwindSafe(|| mk().decompress())) {
        Ok(Ok(d)) => Some(d.chunks(4).filter(|c| c.len() == 4).map(|c| u32::from_le_bytes([c[0], c[1], c[2], c[3]])).collect()),
        _ => None,
    };
    // window buffer with guard zones behind it (inside the same allocation: spare capacity)
    let n = wd * hd;
    let mut buffer: Vec<u32> = Vec::with_capacity(n + GUARD);
    for p in 0..n { buffer.push(bg(p)); }
    unsafe { let base = buffer.as_mut_ptr(); for k in 0..GUARD { *base.add(n + k) = CANARY; } }
    let out = catch_unwind(AssertUnwindSafe(|| drive::blit(&mut buffer, wd, mk())));
    let guard_ok = unsafe { let base = buffer.as_ptr(); (0..GUARD).all(|k| *base.add(n + k) == CANARY) };
    let (res, ek) = match &out { Ok(Ok(())) => ("ok", String::new()), Ok(Err(e)) => ("err", format!("{:?}", e).chars().take(80).collect()), Err(e) => ("panic", e.downcast_ref::<String>().cloned().or_else(|| e.downcast_ref::<&str>().map(|s| s.to_string())).unwrap_or_default()) };
    // differences to the initial content
    let changed: Vec<Value> = (0..buffer.len().min(n)).filter(|p| buffer[*p] != bg(*p)).map(|p| json!([p, buffer[p]])).collect();
    json!({"res": res, "ek": ek, "guard_ok": guard_ok && buffer.len() == n, "changed": changed,
           "decoded": decoded.as_ref().map(|d| if d.len() <= 64 { json!(d) } else { json!(d.len()) }), "decoded_len": decoded.map(|d| d.len() as i64).unwrap_or(-1)})
}

pub fn run(args: &[String]) -> i32 {
    let get = |k: &str| args.iter().position(|a| a == k).and_then(|i| args.get(i + 1).cloned());
    let f = match std::fs::File::open(get("--cases").unwrap_or_default()) { Ok(f) => f, Err(_) => return 2 };
    let mut o = std::io::BufWriter::new(std::fs::File::create(get("--out").unwrap_or_default()).unwrap());
    for line in BufReader::new(f).lines() {
        let c: Value = serde_json::from_str(&line.unwrap()).unwrap();
        writeln!(o, "{}", run_case(&c)).unwrap();
    }
    0
}
