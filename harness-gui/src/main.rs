//! Harness for the GUI client's code (C19, C20): the binary's source is included as a module so
//! that its private functions (fast_bitmap_transfer, transmute_vec, launch_rdp_thread, wait_for_fd)
//! are driven without touching it.
#![allow(dead_code, unused_imports)]
extern crate serde_json;
extern crate native_tls;

mod gui {
    include!("/repo/src/bin/mstsc-rs.rs");

    pub mod drive {
        use super::*;
        pub fn blit(buffer: &mut Vec<u32>, width: usize, bitmap: BitmapEvent) -> RdpResult<()> {
            fast_bitmap_transfer(buffer, width, bitmap)
        }
        pub fn rx_thread<S: 'static + std::io::Read + std::io::Write + Send>(handle: usize, client: Arc<Mutex<RdpClient<S>>>, sync: Arc<AtomicBool>, tx: Sender<BitmapEvent>) -> RdpResult<JoinHandle<()>> {
            launch_rdp_thread(handle, client, sync, tx)
        }
    }
}

// the reference peer of the protocol harness (crate vh), shared by path
#[path = "../../harness/src/refpeer.rs"]
mod refpeer;
#[path = "../../harness/src/tlspeer.rs"]
mod tlspeer;
#[path = "../../harness/src/nlapeer.rs"]
mod nlapeer;
#[path = "../../harness/src/nlafault.rs"]
mod nlafault;
#[path = "../../harness/src/faults.rs"]
mod faults;
mod drv_connect {
    pub fn cps_to_string(v: Option<&serde_json::Value>) -> String {
        v.and_then(|x| x.as_array()).map(|a| a.iter().filter_map(|c| c.as_u64()).filter_map(|c| std::char::from_u32(c as u32)).collect()).unwrap_or_default()
    }
}

mod blit;
mod rx;

fn main() {
    let args: Vec<String> = std::env::args().collect();
    if args.len() < 2 { eprintln!("usage: vhgui <blit|rx> ..."); std::process::exit(2); }
    std::panic::set_hook(Box::new(|_| {}));
    let code = match args[1].as_str() {
        "blit" => blit::run(&args),
        "rx" => rx::run(&args),
        _ => 2,
    };
    std::process::exit(code);
}
