//! C20 driver: the real launch_rdp_thread (included from the binary's source) with an
//! RdpClient<UnixStream> connected over real TLS to the in-process reference server.  The server
//! plays a scenario (records with one / several / split PDUs, pauses, one of the ways to end the
//! session, concurrent input from the "GUI" side); the driver records what reached the bitmap channel
//! and whether the thread finished.
use crate::gui::drive;
use crate::{refpeer, tlspeer};
use rdp::core::client::{Connector, RdpClient};
use rdp::core::event::{BitmapEvent, KeyboardEvent, RdpEvent};
use refpeer as rp;
use serde_json::{json, Value};
use std::io::{BufRead, BufReader, Write};
use std::os::unix::io::AsRawFd;
use std::os::unix::net::UnixStream;
use std::sync::atomic::{AtomicBool, Ordering};
use std::sync::mpsc::{self, RecvTimeoutError};
use std::sync::{Arc, Mutex};
use std::thread;
use std::time::{Duration, Instant};
use tlspeer::ServerIo;

const SHARE: [u8; 4] = [0xea, 3, 1, 0];

/// one fast-path PDU whose bitmap update carries three rectangles k, k+1, k+2
fn bitmap3_pdu(k: u64) -> Vec<u8> {
    let r = |i: u64| rp::Rect { l: i as u16, t: 0, r: i as u16, b: 0, w: 1, h: 1, bpp: 32, flags: 0, data: vec![i as u8, 0, 0, 0] };
    rp::fast_path(&[rp::FpUpdate::Bitmap(vec![r(k), r(k + 1), r(k + 2)])], false, 0)
}

/// a slow-path PDU that produces no event for the application
fn ctl_pdu(name: &str) -> Vec<u8> {
    match name {
        "da" => rp::demand_active(SHARE, &rp::server_caps(1)),
        "sync" => rp::synchronize(SHARE, 1002),
        "coop" => rp::control(SHARE, 4, 0, 0),
        "granted" => rp::control(SHARE, 2, 1004, 1002),
        "fontmap" => rp::font_map(SHARE),
        _ => rp::set_error_info(SHARE, 0),
    }
}

fn bitmap_pdu(k: u64) -> Vec<u8> {
    rp::fast_path(&[rp::FpUpdate::Bitmap(vec![rp::Rect { l: k as u16, t: 0, r: k as u16, b: 0, w: 1, h: 1, bpp: 32, flags: 0, data: vec![k as u8, 0, 0, 0] }])], false, 0)
}

fn serve_connect(mut io: ServerIo, nla: bool) -> Option<ServerIo> {
    io.recv_tpkt().ok()?;
    io.send(&rp::conn_confirm(2, 0, if nla { 2 } else { 1 }), "cc").ok()?;
    if !io.tls_accept("leaf") { return None; }
    // Hybrid selected: the same session, reached through CredSSP (the x224 layer then runs in its NLA configuration)
    if nla && !crate::nlapeer::serve_credssp(&mut io, &json!({"account": {"domain": [100], "user": [117], "password": [112]}})) { return None; }
    io.recv_tpkt().ok()?;
    io.send(&rp::mcs_connect_response(&rp::ScBlocks::default()), "cr").ok()?;
    io.recv_tpkt().ok()?;
    io.recv_tpkt().ok()?;
    io.send(&rp::attach_confirm(1004), "ac").ok()?;
    for _ in 0..2 {
        let f = io.recv_tpkt().ok()?;
        let chan = u16::from_be_bytes([f[10], f[11]]);
        io.send(&rp::join_confirm(1004, chan), "jc").ok()?;
    }
    io.recv_tpkt().ok()?;
    io.send(&rp::licence_valid_client(), "lic").ok()?;
    Some(io)
}

fn run_scenario(sc: &Value, out: &mut dyn Write) {
    macro_rules! ev { ($v:expr) => { writeln!(out, "{}", $v).unwrap(); } }
    ev!(json!({"ev": "reset", "run": sc.get("id")}));
    let (csock, ssock) = UnixStream::pair().unwrap();
    let fd = csock.as_raw_fd();
    let nla = sc.get("nla").and_then(|x| x.as_bool()).unwrap_or(false);
    let server = thread::spawn(move || serve_connect(ServerIo::new(ssock), nla));
    let client = Connector::new().screen(800, 600).credentials("d".into(), "u".into(), "p".into()).use_nla(nla).check_certificate(false).connect(csock);
    let mut io = match server.join().ok().flatten() { Some(io) => io, None => { ev!(json!({"ev": "harness_error", "what": "server side of connect failed"})); return; } };
    let mut client = match client { Ok(c) => c, Err(e) => { ev!(json!({"ev": "harness_error", "what": format!("connect failed {:?}", e)})); return; } };
    // activation, synchronously - unless the scenario leaves it to the receive thread
    let late = sc.get("late_activation").and_then(|x| x.as_bool()).unwrap_or(false);
    if !late {
    for f in [rp::demand_active(SHARE, &rp::server_caps(1)), rp::synchronize(SHARE, 1002), rp::control(SHARE, 4, 0, 0), rp::control(SHARE, 2, 1004, 1002), rp::font_map(SHARE)].iter() {
        if io.send(f, "").is_err() || client.read(|_| {}).is_err() { ev!(json!({"ev": "harness_error", "what": "activation failed"})); return; }
    }
    }
    // preload: one TLS record sent before the thread exists; its first PDU is read here, the rest stays decrypted inside
    // the TLS layer and must be picked up by the thread without any further server traffic
    let mut pre_sent: Vec<u64> = Vec::new();
    if let Some(pdus) = sc.get("preload").and_then(|x| x.as_array()) {
        let mut bytes = Vec::new();
        for p in pdus {
            match p[0].as_str().unwrap_or("") {
                "ctl" => bytes.extend(ctl_pdu(p[1].as_str().unwrap_or(""))),
                "bmp" => { let k = p[1].as_u64().unwrap_or(0); bytes.extend(bitmap_pdu(k)); pre_sent.push(k); }
                _ => {}
            }
        }
        let _ = io.send(&bytes, "");
        ev!(json!({"ev": "srv_record", "pdus": pdus}));
        if client.read(|_| {}).is_err() { ev!(json!({"ev": "harness_error", "what": "preload read failed"})); return; }
    }
    io.recv_pending();
    io.events.clear();
    let client = Arc::new(Mutex::new(client));
    let sync = Arc::new(AtomicBool::new(true));
    let (tx, rx) = mpsc::channel::<BitmapEvent>();
    let handle = match drive::rx_thread(fd as usize, client.clone(), sync.clone(), tx) { Ok(h) => h, Err(_) => { ev!(json!({"ev": "harness_error", "what": "launch failed"})); return; } };
    // a watcher turns the join into something that can be waited for with a deadline
    let (jtx, jrx) = mpsc::channel::<bool>();
    thread::spawn(move || { let ok = handle.join().is_ok(); let _ = jtx.send(ok); });
    let mut fwd: Vec<u64> = Vec::new();
    let mut sent: Vec<u64> = pre_sent;
    let mut joined: Option<bool> = None;
    let quiet_ms = sc.get("quiet_ms").and_then(|x| x.as_u64()).unwrap_or(400);
    // collect what arrives until `want` bitmaps are there or nothing moved for quiet_ms
    let mut settle = |fwd: &mut Vec<u64>, want: usize| -> u128 {
        let t0 = Instant::now();
        let mut last = Instant::now();
        loop {
            match rx.recv_timeout(Duration::from_millis(20)) {
                Ok(b) => { fwd.push(b.dest_left as u64); last = Instant::now(); }
                Err(RecvTimeoutError::Timeout) => {}
                Err(RecvTimeoutError::Disconnected) => break,
            }
            if fwd.len() >= want && last.elapsed().as_millis() >= 40 { break; }
            if last.elapsed().as_millis() as u64 >= quiet_ms { break; }
        }
        t0.elapsed().as_millis()
    };
    let mut ended = false;
    let busy_stop = Arc::new(AtomicBool::new(false));
    for step in sc.get("steps").and_then(|x| x.as_array()).cloned().unwrap_or_default() {
        if let Some(pdus0) = step.get("rec").and_then(|x| x.as_array()) {
            // ["bmps", k, n] stands for n bitmap PDUs k .. k+n-1 in this record
            let mut expanded: Vec<Value> = Vec::new();
            for p in pdus0 {
                if p[0].as_str() == Some("bmps") { let k = p[1].as_u64().unwrap_or(0); for i in 0..p[2].as_u64().unwrap_or(1) { expanded.push(json!(["bmp", k + i])); } }
                else { expanded.push(p.clone()); }
            }
            let pdus = &expanded;
            let mut bytes = Vec::new();
            for p in pdus {
                let kind = p[0].as_str().unwrap_or("");
                let k = p.get(1).and_then(|x| x.as_u64()).unwrap_or(0);
                let full = bitmap_pdu(k);
                match kind {
                    "bmp" => { bytes.extend(&full); sent.push(k); }
                    // one PDU: an update of a kind the library does not implement (pointer position), then the bitmap update
                    "obmp" => { bytes.extend(rp::fast_path(&[rp::FpUpdate::Other(8, vec![1, 0, 2, 0]), rp::FpUpdate::Bitmap(vec![rp::Rect { l: k as u16, t: 0, r: k as u16, b: 0, w: 1, h: 1, bpp: 32, flags: 0, data: vec![k as u8, 0, 0, 0] }])], false, 0)); sent.push(k); }
                    "ctl" => bytes.extend(ctl_pdu(p.get(1).and_then(|x| x.as_str()).unwrap_or(""))),
                    "bmp3" => { bytes.extend(&bitmap3_pdu(k)); sent.push(k); sent.push(k + 1); sent.push(k + 2); }
                    // ["part1", k, "big"]: the first 1 000 bytes of a PDU of more than 16 KiB (a 72x72 tile at 32 bpp)
                    "part1" if p.get(2).and_then(|x| x.as_str()) == Some("big") => {
                        let big = rp::fast_path(&[rp::FpUpdate::Bitmap(vec![rp::Rect { l: k as u16, t: 0, r: k as u16 + 71, b: 71, w: 72, h: 72, bpp: 32, flags: 0, data: vec![0x55; 72 * 72 * 4] }])], true, 0);
                        bytes.extend(&big[..1000]);
                    }
                    "part1" => bytes.extend(&full[..full.len() / 2]),
                    "part2" => { bytes.extend(&full[full.len() / 2..]); sent.push(k); }
                    _ => {}
                }
            }
            let _ = io.send(&bytes, "");       // one write = one TLS record
            io.events.clear();
            ev!(json!({"ev": "srv_record", "pdus": pdus}));
            if step.get("nowait").and_then(|x| x.as_bool()).unwrap_or(false) { continue; }
            let ms = settle(&mut fwd, sent.len());
            ev!(json!({"ev": "quiet", "fwd": fwd, "after_ms": ms as u64}));
        } else if step.get("observe").is_some() {
            // what has been forwarded while the server stays silent
            let ms = settle(&mut fwd, sent.len());
            ev!(json!({"ev": "quiet", "fwd": fwd, "after_ms": ms as u64}));
        } else if let Some(ms) = step.get("pause").and_then(|x| x.as_u64()) {
            thread::sleep(Duration::from_millis(ms));
        } else if step.get("busy").is_some() {
            // a GUI thread that takes the shared mutex as often as it can (an event of a kind that cannot be sent: refused
            // without any I/O) until the scenario is over
            let c2 = client.clone();
            let stop = busy_stop.clone();
            thread::spawn(move || { while !stop.load(Ordering::Relaxed) { if let Ok(mut g) = c2.lock() { let _ = g.try_write(RdpEvent::Bitmap(BitmapEvent { dest_left: 0, dest_top: 0, dest_right: 0, dest_bottom: 0, width: 1, height: 1, bpp: 32, is_compress: false, data: vec![0; 4] })); } } });
        } else if let Some(n) = step.get("input").and_then(|x| x.as_u64()) {
            // concurrent input writes from the GUI side, under the shared mutex
            let c2 = client.clone();
            thread::spawn(move || { for i in 0..n { if let Ok(mut g) = c2.lock() { let _ = g.try_write(RdpEvent::Key(KeyboardEvent { code: 30 + i as u16, down: i % 2 == 0 })); } thread::sleep(Duration::from_millis(1)); } });
        } else if let Some(mode) = step.get("end").and_then(|x| x.as_str()).filter(|m| m.starts_with("in_record")) {
            // the PDU that ends the session shares its TLS record with the PDUs in front of it, and the server keeps the
            // connection open afterwards: the thread has to stop on what it has read, nothing else will wake it
            let mut bytes = Vec::new();
            let mut pdus: Vec<Value> = Vec::new();
            for p in step.get("with").and_then(|x| x.as_array()).cloned().unwrap_or_default() {
                let k = p.get(1).and_then(|x| x.as_u64()).unwrap_or(0);
                match p[0].as_str().unwrap_or("") {
                    "bmp" => { bytes.extend(bitmap_pdu(k)); sent.push(k); }
                    "bmp3" => { bytes.extend(bitmap3_pdu(k)); sent.push(k); sent.push(k + 1); sent.push(k + 2); }
                    "ctl" => bytes.extend(ctl_pdu(p.get(1).and_then(|x| x.as_str()).unwrap_or(""))),
                    _ => {}
                }
                pdus.push(p.clone());
            }
            let tok = if mode.ends_with("bad_rdp") { bytes.extend(rp::x224_data(&[0xfc, 0, 0, 0, 0])); "bad_rdp" }
                      else if mode.ends_with("bad_io") { bytes.extend(rp::tpkt(&[2])); "bad_io" }
                      else { bytes.extend(rp::disconnect_ultimatum()); "ult" };
            pdus.push(json!([tok]));
            let _ = io.send(&bytes, "");
            io.events.clear();
            ended = true;
            ev!(json!({"ev": "srv_record", "pdus": pdus}));
            ev!(json!({"ev": "srv_end", "mode": mode}));
            let ms = settle(&mut fwd, sent.len());
            ev!(json!({"ev": "quiet", "fwd": fwd, "after_ms": ms as u64}));
            match jrx.recv_timeout(Duration::from_millis(sc.get("join_ms").and_then(|x| x.as_u64()).unwrap_or(1500))) {
                Ok(ok) => { joined = Some(ok); ev!(json!({"ev": "joined", "clean": ok})); }
                Err(_) => { ev!(json!({"ev": "not_joined", "mode": mode})); }
            }
        } else if let Some(mode) = step.get("end").and_then(|x| x.as_str()) {
            match mode {
                "ultimatum" => { let _ = io.send(&rp::disconnect_ultimatum(), ""); io.close("notify"); }
                "notify" => io.close("notify"),
                "abrupt" => io.close("abrupt"),
                "bad_rdp" => { let _ = io.send(&rp::x224_data(&[0xfc, 0, 0, 0, 0]), ""); }      // unknown MCS opcode
                _ => { let _ = io.send(&rp::tpkt(&[2]), ""); }                                  // truncated X.224 header: an io kind of error
            }
            io.events.clear();
            ended = true;
            ev!(json!({"ev": "srv_end", "mode": mode}));
            let ms = settle(&mut fwd, sent.len());
            ev!(json!({"ev": "quiet", "fwd": fwd, "after_ms": ms as u64}));
            match jrx.recv_timeout(Duration::from_millis(sc.get("join_ms").and_then(|x| x.as_u64()).unwrap_or(1500))) {
                Ok(ok) => { joined = Some(ok); ev!(json!({"ev": "joined", "clean": ok})); }
                Err(_) => { ev!(json!({"ev": "not_joined", "mode": mode})); }
            }
        }
    }
    let _ = ended;
    busy_stop.store(true, Ordering::Relaxed);
    // release the thread whatever state it is in: drop the flag, wake it with a byte, then close
    sync.store(false, Ordering::Relaxed);
    if joined.is_none() {
        let _ = io.send(&bitmap_pdu(250), "");
        io.close("abrupt");
        let _ = jrx.recv_timeout(Duration::from_millis(1500));
    }
}

pub fn run(args: &[String]) -> i32 {
    let get = |k: &str| args.iter().position(|a| a == k).and_then(|i| args.get(i + 1).cloned());
    std::env::set_var("SSL_CERT_FILE", tlspeer::ca_path());
    let f = match std::fs::File::open(get("--scenarios").unwrap_or_default()) { Ok(f) => f, Err(_) => return 2 };
    let mut o = std::io::BufWriter::new(std::fs::File::create(get("--trace").unwrap_or_default()).unwrap());
    for line in BufReader::new(f).lines() {
        let sc: Value = serde_json::from_str(&line.unwrap()).unwrap();
        run_scenario(&sc, &mut o);
        o.flush().unwrap();
    }
    0
}
